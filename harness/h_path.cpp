// Path harness (C07 FlexPath, C08 RobustPath): construction bookkeeping and swept regions.
#include "geo.hpp"

static Vec2 jp(const J& p) { return Vec2{(double)p[(size_t)0].i(), (double)p[(size_t)1].i()}; }
static double deg(int64_t a) { return (double)a * M_PI / 180.0; }
static Vec2 wave(double u, void*) { return Vec2{4 * u, 2 * sin(M_PI * u)}; }

// winding-number membership of a point in a polygon with double coordinates
static bool inside_poly(const Array<Vec2>& P, Vec2 q) {
    int w = 0;
    for (uint64_t i = 0; i < P.count; i++) {
        Vec2 a = P[i], b = P[(i + 1) % P.count];
        double cr = (b - a).cross(q - a);
        if (a.y <= q.y) {
            if (b.y > q.y && cr > 0) w++;
        } else {
            if (b.y <= q.y && cr < 0) w--;
        }
    }
    return w != 0;
}

// ------------------------------------------------------------------ FlexPath bookkeeping
static void log_book(W& w, FlexPath& f, const std::vector<Vec2>& before) {
    bool ok = true;
    w.kv("spine_n", (int64_t)f.spine.point_array.count);
    w.key("els").begin_arr();
    for (uint64_t e = 0; e < f.num_elements; e++) {
        Array<Vec2>& a = f.elements[e].half_width_and_offset;
        Vec2 last = a.count ? a[a.count - 1] : Vec2{0, 0};
        // new entries move monotonically from the previous value to the last one
        bool mono = true;
        Vec2 prev = before[e];
        for (uint64_t i = 0; i < a.count; i++) {
            (void)i;
        }
        uint64_t n0 = 0;
        // entries added by the last call are those after the previous count (stored in w of before)
        (void)n0;
        w.begin_obj().kv("n", (int64_t)a.count);
        w.kv("hw", lat(2 * last.u, 1000, ok)).kv("off", lat(last.v, 1000, ok));
        // monotone check on the tail: find the tail that starts right after an entry equal to prev
        int64_t start = -1;
        for (int64_t i = (int64_t)a.count - 1; i >= 0; i--)
            if (a[i] == prev) {
                start = i;
                break;
            }
        if (start >= 0) {
            for (uint64_t i = (uint64_t)start; i + 1 < a.count; i++) {
                double du = (a[i + 1].u - a[i].u) * (last.u - prev.u);
                double dv = (a[i + 1].v - a[i].v) * (last.v - prev.v);
                if (du < -1e-15 || dv < -1e-15) mono = false;
            }
        } else {
            mono = false;
        }
        w.kb("monotone", mono).end_obj();
    }
    w.end_arr();
    w.kb("lat", ok);
}

static void flex_call(FlexPath& f, const J& c, const std::vector<double>& wt, const std::vector<double>& ot) {
    const J& s = c["sec"];
    const std::string& k = s["k"].s();
    const double* W_ = c["whas"].t() ? wt.data() : NULL;
    const double* O_ = c["ohas"].t() ? ot.data() : NULL;
    bool rel = s["rel"].t();
    if (k == "segment") f.segment(jp(s["p"]), W_, O_, rel);
    else if (k == "segments") {
        Array<Vec2> pts = {};
        for (size_t i = 0; i < s["pts"].size(); i++) pts.append(jp(s["pts"][i]));
        f.segment(pts, W_, O_, rel);
        pts.clear();
    } else if (k == "horizontal") f.horizontal((double)s["x"].i(), W_, O_, rel);
    else if (k == "vertical") f.vertical((double)s["y"].i(), W_, O_, rel);
    else if (k == "cubic") {
        Array<Vec2> pts = {};
        pts.append(jp(s["c1"]));
        pts.append(jp(s["c2"]));
        pts.append(jp(s["e"]));
        f.cubic(pts, W_, O_, rel);
        pts.clear();
    } else if (k == "cubic_smooth") {
        Array<Vec2> pts = {};
        pts.append(jp(s["c2"]));
        pts.append(jp(s["e"]));
        f.cubic_smooth(pts, W_, O_, rel);
        pts.clear();
    } else if (k == "quadratic") {
        Array<Vec2> pts = {};
        pts.append(jp(s["c"]));
        pts.append(jp(s["e"]));
        f.quadratic(pts, W_, O_, rel);
        pts.clear();
    } else if (k == "quadratic_smooth") f.quadratic_smooth(jp(s["e"]), W_, O_, rel);
    else if (k == "bezier") {
        Array<Vec2> pts = {};
        for (size_t i = 0; i < s["pts"].size(); i++) pts.append(jp(s["pts"][i]));
        f.bezier(pts, W_, O_, rel);
        pts.clear();
    } else if (k == "arc")
        f.arc((double)s["rx"].i(), (double)s["ry"].i(), deg(s["a0"].i()), deg(s["a1"].i()), deg(s["rot"].i()), W_, O_);
    else if (k == "turn") f.turn((double)s["r"].i(), deg(s["a"].i()), W_, O_);
    else if (k == "parametric") f.parametric(wave, NULL, W_, O_, rel);
    else if (k == "interpolation") {
        size_t np = s["pts"].size();
        Array<Vec2> pts = {};
        for (size_t i = 0; i < np; i++) pts.append(jp(s["pts"][i]));
        std::vector<double> angles(np + 1, 0.0);
        std::vector<char> cons(np + 1, 0);
        std::vector<Vec2> tens(np + 1, Vec2{1, 1});
        f.interpolation(pts, angles.data(), (bool*)cons.data(), tens.data(), 1, 1, false, W_, O_, rel);
        pts.clear();
    } else if (k == "commands") {
        // "l 2 0 c 1 1 2 1 3 0 a 2 90" : letters are commands, numbers are numbers (angles in degrees)
        std::vector<CurveInstruction> items;
        std::string str = s["s"].s();
        char* tok = strtok((char*)str.c_str(), " ");
        char lastcmd = 0;
        int argi = 0;
        while (tok) {
            CurveInstruction ci;
            if (isalpha((unsigned char)tok[0])) {
                ci.command = tok[0];
                lastcmd = tok[0];
                argi = 0;
            } else {
                double v = atof(tok);
                if ((lastcmd == 'a' && argi == 1) || (lastcmd == 'A' && argi >= 1)) v = v * M_PI / 180.0;
                ci.number = v;
                argi++;
            }
            items.push_back(ci);
            tok = strtok(NULL, " ");
        }
        f.commands(items.data(), items.size());
    }
}

static void do_fpbook(const J& g, W& w) {
    uint64_t nel = (uint64_t)g["nel"].i();
    std::vector<double> w0(nel), o0(nel);
    std::vector<Tag> tags(nel);
    for (uint64_t i = 0; i < nel; i++) {
        w0[i] = 0.2 + 0.1 * i;
        o0[i] = -0.5 + 0.5 * i;
        tags[i] = make_tag((uint32_t)i, 0);
    }
    FlexPath f = {};
    f.init(Vec2{0, 0}, nel, w0.data(), o0.data(), 0.01, tags.data());
    w.key("init").begin_obj();
    std::vector<Vec2> before(nel);
    for (uint64_t i = 0; i < nel; i++) before[i] = f.elements[i].half_width_and_offset[0];
    log_book(w, f, before);
    w.end_obj();
    w.key("steps").begin_arr();
    for (size_t ci = 0; ci < g["calls"].size(); ci++) {
        g_shared->phase = (int64_t)ci;
        std::vector<double> wt(nel), ot(nel);
        for (uint64_t i = 0; i < nel; i++) {
            wt[i] = 0.6 + 0.2 * i + 0.1 * ci;
            ot[i] = 0.25 * (double)(i + 1) * (ci % 2 ? -1 : 1);
            before[i] = f.elements[i].half_width_and_offset[f.elements[i].half_width_and_offset.count - 1];
        }
        flex_call(f, g["calls"][ci], wt, ot);
        w.begin_obj();
        log_book(w, f, before);
        bool ok = true;
        w.key("w").begin_arr();
        for (uint64_t i = 0; i < nel; i++) w.i(lat(wt[i], 1000, ok));
        w.end_arr();
        w.key("o").begin_arr();
        for (uint64_t i = 0; i < nel; i++) w.i(lat(ot[i], 1000, ok));
        w.end_arr();
        w.end_obj();
    }
    w.end_arr();
    // outlines can be produced and the bookkeeping survives the removal of overlapping points
    Array<Polygon*> out = {};
    ErrorCode e = f.to_polygons(false, 0, out);
    bool fin = true;
    for (uint64_t i = 0; i < out.count; i++)
        for (uint64_t k = 0; k < out[i]->point_array.count; k++)
            if (!std::isfinite(out[i]->point_array[k].x) || !std::isfinite(out[i]->point_array[k].y)) fin = false;
    w.key("final").begin_obj().kv("err", (int64_t)e).kv("npoly", (int64_t)out.count).kb("finite", fin);
    w.kv("spine_n", (int64_t)f.spine.point_array.count);
    w.key("ns").begin_arr();
    for (uint64_t i = 0; i < nel; i++) w.i((int64_t)f.elements[i].half_width_and_offset.count);
    w.end_arr().end_obj();
    free_polys(out);
}

// ------------------------------------------------------------------ FlexPath regions
static JoinType join_of(const std::string& j) {
    return j == "natural" ? JoinType::Natural : j == "miter" ? JoinType::Miter : j == "bevel" ? JoinType::Bevel : JoinType::Round;
}
static EndType end_of(const std::string& e) {
    return e == "flush" ? EndType::Flush : e == "halfwidth" ? EndType::HalfWidth : e == "extended" ? EndType::Extended : EndType::Round;
}

static void do_fpregion(const J& g, W& w) {
    // coordinates are quadrupled user units
    const J& sp = g["spine"];
    const J& els = g["els"];
    uint64_t nel = els.size();
    auto U = [](int64_t v) { return (double)v / 4.0; };
    std::vector<double> w0(nel), o0(nel);
    std::vector<Tag> tags(nel);
    for (uint64_t i = 0; i < nel; i++) {
        w0[i] = 2 * U(els[i]["hw"][(size_t)0].i());
        o0[i] = U(els[i]["off"].i());
        tags[i] = make_tag((uint32_t)i, 1);
    }
    FlexPath f = {};
    f.init(Vec2{U(sp[(size_t)0][(size_t)0].i()), U(sp[(size_t)0][(size_t)1].i())}, nel, w0.data(), o0.data(), 1e-3, tags.data());
    for (size_t k = 1; k < sp.size(); k++) {
        std::vector<double> wt(nel);
        for (uint64_t i = 0; i < nel; i++) wt[i] = 2 * U(els[i]["hw"][k].i());
        f.segment(Vec2{U(sp[k][(size_t)0].i()), U(sp[k][(size_t)1].i())}, wt.data(), NULL, false);
    }
    for (uint64_t i = 0; i < nel; i++) {
        f.elements[i].join_type = join_of(els[i]["join"].s());
        f.elements[i].end_type = end_of(els[i]["end"].s());
        f.elements[i].end_extensions = Vec2{U(els[i]["ext"][(size_t)0].i()), U(els[i]["ext"][(size_t)1].i())};
    }
    Array<Polygon*> out = {};
    ErrorCode e = f.to_polygons(false, 0, out);
    w.kv("err", (int64_t)e).kv("npoly", (int64_t)out.count);
    // membership of every sample point (odd quadrupled coordinates) in each element's outline
    int64_t x0 = g["win"][(size_t)0].i(), x1 = g["win"][(size_t)1].i(), y0 = g["win"][(size_t)2].i(), y1 = g["win"][(size_t)3].i();
    w.key("members").begin_arr();
    for (uint64_t i = 0; i < out.count; i++) {
        w.begin_arr();
        for (int64_t x = x0; x <= x1; x++)
            for (int64_t y = y0; y <= y1; y++)
                w.i(inside_poly(out[i]->point_array, Vec2{(2 * x + 1) / 4.0, (2 * y + 1) / 4.0}) ? 1 : 0);
        w.end_arr();
    }
    w.end_arr();
    free_polys(out);
}

int main(int argc, char** argv) {
    if (argc < 3) return 2;
    gdstk::set_error_logger(NULL);
    std::vector<std::string> lines = read_lines(argv[1]);
    g_timeout_s = 60;
    return supervise(lines, argv[2], [&](int64_t, const std::string& line, FILE* out) {
        J g = jparse(line);
        W w;
        w.begin_obj().ks("e", g["k"].s()).key("g").raw(line);
        const std::string& k = g["k"].s();
        if (k == "fpbook") do_fpbook(g, w);
        else if (k == "fpregion") do_fpregion(g, w);
        w.end_obj();
        fputs(w.s.c_str(), out);
        fputc('\n', out);
    });
}
