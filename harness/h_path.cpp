// Path harness (C07 FlexPath, C08 RobustPath): construction bookkeeping and swept regions.
#include "geo.hpp"

static Vec2 jp(const J& p) { return Vec2{(double)p[(size_t)0].i(), (double)p[(size_t)1].i()}; }
static double deg(int64_t a) { return (double)a * M_PI / 180.0; }
static Vec2 wave(double u, void*) { return Vec2{4 * u, 2 * sin(M_PI * u)}; }

// winding-number membership of a point in a polygon with double coordinates
static bool inside_poly(const Array<Vec2>& P, Vec2 q) {
    int w = 0;
    for (uint64_t i = 0; i < P.count; i++) {
        Vec2 a = P[i], b = P[(i + 1) % P.count];
        double cr = (b - a).cross(q - a);
        if (a.y <= q.y) {
            if (b.y > q.y && cr > 0) w++;
        } else {
            if (b.y <= q.y && cr < 0) w--;
        }
    }
    return w != 0;
}

// ------------------------------------------------------------------ FlexPath bookkeeping
static void log_book(W& w, FlexPath& f, const std::vector<Vec2>& before) {
    bool ok = true;
    w.kv("spine_n", (int64_t)f.spine.point_array.count);
    w.key("els").begin_arr();
    for (uint64_t e = 0; e < f.num_elements; e++) {
        Array<Vec2>& a = f.elements[e].half_width_and_offset;
        Vec2 last = a.count ? a[a.count - 1] : Vec2{0, 0};
        // new entries move monotonically from the previous value to the last one
        bool mono = true;
        Vec2 prev = before[e];
        for (uint64_t i = 0; i < a.count; i++) {
            (void)i;
        }
        uint64_t n0 = 0;
        // entries added by the last call are those after the previous count (stored in w of before)
        (void)n0;
        w.begin_obj().kv("n", (int64_t)a.count);
        w.kv("hw", lat(2 * last.u, 1000, ok)).kv("off", lat(last.v, 1000, ok));
        // monotone check on the tail: find the tail that starts right after an entry equal to prev
        int64_t start = -1;
        for (int64_t i = (int64_t)a.count - 1; i >= 0; i--)
            if (a[i] == prev) {
                start = i;
                break;
            }
        if (start >= 0) {
            for (uint64_t i = (uint64_t)start; i + 1 < a.count; i++) {
                double du = (a[i + 1].u - a[i].u) * (last.u - prev.u);
                double dv = (a[i + 1].v - a[i].v) * (last.v - prev.v);
                if (du < -1e-15 || dv < -1e-15) mono = false;
            }
        } else {
            mono = false;
        }
        w.kb("monotone", mono).end_obj();
    }
    w.end_arr();
    w.kb("lat", ok);
}

static void flex_call(FlexPath& f, const J& c, const std::vector<double>& wt, const std::vector<double>& ot) {
    const J& s = c["sec"];
    const std::string& k = s["k"].s();
    const double* W_ = c["whas"].t() ? wt.data() : NULL;
    const double* O_ = c["ohas"].t() ? ot.data() : NULL;
    bool rel = s["rel"].t();
    if (k == "segment") f.segment(jp(s["p"]), W_, O_, rel);
    else if (k == "segments") {
        Array<Vec2> pts = {};
        for (size_t i = 0; i < s["pts"].size(); i++) pts.append(jp(s["pts"][i]));
        f.segment(pts, W_, O_, rel);
        pts.clear();
    } else if (k == "horizontal") f.horizontal((double)s["x"].i(), W_, O_, rel);
    else if (k == "vertical") f.vertical((double)s["y"].i(), W_, O_, rel);
    else if (k == "cubic") {
        Array<Vec2> pts = {};
        pts.append(jp(s["c1"]));
        pts.append(jp(s["c2"]));
        pts.append(jp(s["e"]));
        f.cubic(pts, W_, O_, rel);
        pts.clear();
    } else if (k == "cubic_smooth") {
        Array<Vec2> pts = {};
        pts.append(jp(s["c2"]));
        pts.append(jp(s["e"]));
        f.cubic_smooth(pts, W_, O_, rel);
        pts.clear();
    } else if (k == "quadratic") {
        Array<Vec2> pts = {};
        pts.append(jp(s["c"]));
        pts.append(jp(s["e"]));
        f.quadratic(pts, W_, O_, rel);
        pts.clear();
    } else if (k == "quadratic_smooth") f.quadratic_smooth(jp(s["e"]), W_, O_, rel);
    else if (k == "bezier") {
        Array<Vec2> pts = {};
        for (size_t i = 0; i < s["pts"].size(); i++) pts.append(jp(s["pts"][i]));
        f.bezier(pts, W_, O_, rel);
        pts.clear();
    } else if (k == "arc")
        f.arc((double)s["rx"].i(), (double)s["ry"].i(), deg(s["a0"].i()), deg(s["a1"].i()), deg(s["rot"].i()), W_, O_);
    else if (k == "turn") f.turn((double)s["r"].i(), deg(s["a"].i()), W_, O_);
    else if (k == "parametric") f.parametric(wave, NULL, W_, O_, rel);
    else if (k == "interpolation") {
        size_t np = s["pts"].size();
        Array<Vec2> pts = {};
        for (size_t i = 0; i < np; i++) pts.append(jp(s["pts"][i]));
        std::vector<double> angles(np + 1, 0.0);
        std::vector<char> cons(np + 1, 0);
        std::vector<Vec2> tens(np + 1, Vec2{1, 1});
        f.interpolation(pts, angles.data(), (bool*)cons.data(), tens.data(), 1, 1, false, W_, O_, rel);
        pts.clear();
    } else if (k == "commands") {
        // "l 2 0 c 1 1 2 1 3 0 a 2 90" : letters are commands, numbers are numbers (angles in degrees)
        std::vector<CurveInstruction> items;
        std::string str = s["s"].s();
        char* tok = strtok((char*)str.c_str(), " ");
        char lastcmd = 0;
        int argi = 0;
        while (tok) {
            CurveInstruction ci;
            if (isalpha((unsigned char)tok[0])) {
                ci.command = tok[0];
                lastcmd = tok[0];
                argi = 0;
            } else {
                double v = atof(tok);
                if ((lastcmd == 'a' && argi == 1) || (lastcmd == 'A' && argi >= 1)) v = v * M_PI / 180.0;
                ci.number = v;
                argi++;
            }
            items.push_back(ci);
            tok = strtok(NULL, " ");
        }
        f.commands(items.data(), items.size());
    }
}

static void do_fpbook(const J& g, W& w) {
    uint64_t nel = (uint64_t)g["nel"].i();
    std::vector<double> w0(nel), o0(nel);
    std::vector<Tag> tags(nel);
    for (uint64_t i = 0; i < nel; i++) {
        w0[i] = 0.2 + 0.1 * i;
        o0[i] = -0.5 + 0.5 * i;
        tags[i] = make_tag((uint32_t)i, 0);
    }
    FlexPath f = {};
    f.init(Vec2{0, 0}, nel, w0.data(), o0.data(), 0.01, tags.data());
    w.key("init").begin_obj();
    std::vector<Vec2> before(nel);
    for (uint64_t i = 0; i < nel; i++) before[i] = f.elements[i].half_width_and_offset[0];
    log_book(w, f, before);
    w.end_obj();
    w.key("steps").begin_arr();
    for (size_t ci = 0; ci < g["calls"].size(); ci++) {
        g_shared->phase = (int64_t)ci;
        std::vector<double> wt(nel), ot(nel);
        for (uint64_t i = 0; i < nel; i++) {
            wt[i] = 0.6 + 0.2 * i + 0.1 * ci;
            ot[i] = 0.25 * (double)(i + 1) * (ci % 2 ? -1 : 1);
            before[i] = f.elements[i].half_width_and_offset[f.elements[i].half_width_and_offset.count - 1];
        }
        flex_call(f, g["calls"][ci], wt, ot);
        w.begin_obj();
        log_book(w, f, before);
        bool ok = true;
        w.key("w").begin_arr();
        for (uint64_t i = 0; i < nel; i++) w.i(lat(wt[i], 1000, ok));
        w.end_arr();
        w.key("o").begin_arr();
        for (uint64_t i = 0; i < nel; i++) w.i(lat(ot[i], 1000, ok));
        w.end_arr();
        w.end_obj();
    }
    w.end_arr();
    // outlines can be produced and the bookkeeping survives the removal of overlapping points
    Array<Polygon*> out = {};
    ErrorCode e = f.to_polygons(false, 0, out);
    bool fin = true;
    for (uint64_t i = 0; i < out.count; i++)
        for (uint64_t k = 0; k < out[i]->point_array.count; k++)
            if (!std::isfinite(out[i]->point_array[k].x) || !std::isfinite(out[i]->point_array[k].y)) fin = false;
    w.key("final").begin_obj().kv("err", (int64_t)e).kv("npoly", (int64_t)out.count).kb("finite", fin);
    w.kv("spine_n", (int64_t)f.spine.point_array.count);
    w.key("ns").begin_arr();
    for (uint64_t i = 0; i < nel; i++) w.i((int64_t)f.elements[i].half_width_and_offset.count);
    w.end_arr().end_obj();
    free_polys(out);
}

// ------------------------------------------------------------------ FlexPath regions
static JoinType join_of(const std::string& j) {
    return j == "natural" ? JoinType::Natural : j == "miter" ? JoinType::Miter : j == "bevel" ? JoinType::Bevel : JoinType::Round;
}
static EndType end_of(const std::string& e) {
    return e == "flush" ? EndType::Flush : e == "halfwidth" ? EndType::HalfWidth : e == "extended" ? EndType::Extended : EndType::Round;
}

static void do_fpregion(const J& g, W& w) {
    // coordinates are quadrupled user units
    const J& sp = g["spine"];
    const J& els = g["els"];
    uint64_t nel = els.size();
    auto U = [](int64_t v) { return (double)v / 4.0; };
    std::vector<double> w0(nel), o0(nel);
    std::vector<Tag> tags(nel);
    for (uint64_t i = 0; i < nel; i++) {
        w0[i] = 2 * U(els[i]["hw"][(size_t)0].i());
        o0[i] = U(els[i]["off"].i());
        tags[i] = make_tag((uint32_t)i, 1);
    }
    FlexPath f = {};
    f.init(Vec2{U(sp[(size_t)0][(size_t)0].i()), U(sp[(size_t)0][(size_t)1].i())}, nel, w0.data(), o0.data(), 1e-3, tags.data());
    for (size_t k = 1; k < sp.size(); k++) {
        std::vector<double> wt(nel);
        for (uint64_t i = 0; i < nel; i++) wt[i] = 2 * U(els[i]["hw"][k].i());
        f.segment(Vec2{U(sp[k][(size_t)0].i()), U(sp[k][(size_t)1].i())}, wt.data(), NULL, false);
    }
    for (uint64_t i = 0; i < nel; i++) {
        f.elements[i].join_type = join_of(els[i]["join"].s());
        f.elements[i].end_type = end_of(els[i]["end"].s());
        f.elements[i].end_extensions = Vec2{U(els[i]["ext"][(size_t)0].i()), U(els[i]["ext"][(size_t)1].i())};
    }
    Array<Polygon*> out = {};
    ErrorCode e = f.to_polygons(false, 0, out);
    w.kv("err", (int64_t)e).kv("npoly", (int64_t)out.count);
    // membership of every sample point (odd quadrupled coordinates) in each element's outline
    int64_t x0 = g["win"][(size_t)0].i(), x1 = g["win"][(size_t)1].i(), y0 = g["win"][(size_t)2].i(), y1 = g["win"][(size_t)3].i();
    w.key("members").begin_arr();
    for (uint64_t i = 0; i < out.count; i++) {
        w.begin_arr();
        for (int64_t x = x0; x <= x1; x++)
            for (int64_t y = y0; y <= y1; y++)
                w.i(inside_poly(out[i]->point_array, Vec2{(2 * x + 1) / 4.0, (2 * y + 1) / 4.0}) ? 1 : 0);
        w.end_arr();
    }
    w.end_arr();
    free_polys(out);
}


// ------------------------------------------------------------------ FlexPath circular bends
// Centre curve of a polyline whose corners i with choice[i] = 1 are replaced by arcs of radius R
// tangent to both legs, displaced sideways by `off` (to the left of the direction of travel);
// returned as dense samples.
static void bend_curve(const std::vector<Vec2>& sp, const std::vector<double>& tans,
                       const std::vector<int>& choice, double R, double off, std::vector<Vec2>& cen) {
    const int M = 600;
    size_t n = sp.size();
    auto emit = [&](Vec2 p, Vec2 dir) {
        Vec2 nrm = Vec2{-dir.y, dir.x} * (1.0 / (dir.length() + 1e-300));
        cen.push_back(p + nrm * off);
    };
    auto unit = [](Vec2 d) { return d * (1.0 / (d.length() + 1e-300)); };
    auto left = [](Vec2 u) { return Vec2{-u.y, u.x}; };
    // displaced position of an unbent corner: intersection of the two displaced legs
    auto miter = [&](Vec2 corner, Vec2 u_in, Vec2 u_out) {
        Vec2 n1 = left(u_in), n2 = left(u_out);
        return corner + (n1 + n2) * (off / (1.0 + n1.inner(n2)));
    };
    for (size_t leg = 0; leg + 1 < n; leg++) {
        Vec2 a = sp[leg], b = sp[leg + 1];
        Vec2 d = b - a;
        double len = d.length();
        Vec2 u = d * (1.0 / len);
        double t0 = (leg >= 1 && choice[leg - 1]) ? tans[leg - 1] : 0;          // consumed by the bend before
        double t1 = (leg + 2 < n && choice[leg]) ? tans[leg] : 0;               // consumed by the bend after
        Vec2 S = (leg >= 1 && !choice[leg - 1]) ? miter(a, unit(a - sp[leg - 1]), u) : (a + u * t0) + left(u) * off;
        Vec2 E = (leg + 2 < n && !choice[leg]) ? miter(b, u, unit(sp[leg + 2] - b)) : (b - u * t1) + left(u) * off;
        for (int i = 0; i <= M; i++) cen.push_back(S + (E - S) * ((double)i / M));
        if (leg + 2 < n && choice[leg]) {
            Vec2 c = sp[leg + 2] - b;
            Vec2 v = c * (1.0 / c.length());
            double cr = u.cross(v);
            double dirn = cr < 0 ? -1 : 1;                                      // +1 left turn
            Vec2 nu = Vec2{-u.y, u.x} * dirn;                                   // towards the arc centre
            Vec2 ctr = (b - u * t1) + nu * R;
            double a0 = atan2(-nu.y, -nu.x);
            double theta = acos(fmax(-1.0, fmin(1.0, u.inner(v)))) * dirn;
            for (int i = 0; i <= M; i++) {
                double ang = a0 + theta * i / M;
                Vec2 p = ctr + Vec2{cos(ang), sin(ang)} * R;
                Vec2 tdir = Vec2{-sin(ang), cos(ang)} * dirn;
                emit(p, tdir);
            }
        }
    }
}

static void do_fpbend(const J& g, W& w) {
    double tol = pow(10.0, -(double)g["tolk"].i());
    double width = (double)g["w"].i() / 1000.0, off = (double)g["o"].i() / 1000.0;
    double R = (double)g["r"].i() / 1000.0;
    const J& sj = g["spine"];
    std::vector<Vec2> sp;
    for (size_t i = 0; i < sj.size(); i++) sp.push_back(Vec2{(double)sj[i][(size_t)0].i(), (double)sj[i][(size_t)1].i()});
    Tag t = 0;
    FlexPath f = {};
    f.init(sp[0], 1, &width, &off, tol, &t);
    for (size_t k = 1; k < sp.size(); k++) f.segment(sp[k], NULL, NULL, false);
    f.elements[0].join_type = JoinType::Round;
    f.elements[0].end_type = g["ends"].s() == "round" ? EndType::Round : EndType::Flush;
    f.elements[0].bend_type = BendType::Circular;
    f.elements[0].bend_radius = R;
    Array<Polygon*> out = {};
    ErrorCode e = f.to_polygons(false, 0, out);
    w.kv("err", (int64_t)e).kv("npoly", (int64_t)out.count);
    // legs and tangent lengths of the corners (milli units), for the admissibility rule
    size_t nc = sp.size() - 2;
    std::vector<double> tans(nc);
    w.key("legs").begin_arr();
    for (size_t i = 0; i + 1 < sp.size(); i++) w.i((int64_t)llround((sp[i + 1] - sp[i]).length() * 1000));
    w.end_arr();
    w.key("dirs").begin_arr();      // +1 left turn, -1 right turn
    for (size_t i = 0; i < nc; i++) {
        Vec2 u = sp[i + 1] - sp[i], v = sp[i + 2] - sp[i + 1];
        w.i(u.cross(v) < 0 ? -1 : 1);
    }
    w.end_arr();
    w.key("tans").begin_arr();
    for (size_t i = 0; i < nc; i++) {
        Vec2 u = sp[i + 1] - sp[i], v = sp[i + 2] - sp[i + 1];
        double th = acos(fmax(-1.0, fmin(1.0, u.inner(v) / (u.length() * v.length()))));
        tans[i] = R * tan(th / 2);
        w.i((int64_t)llround(tans[i] * 1000));
    }
    w.end_arr();
    // every choice of bent corners: samples' clearance from that centre curve
    double hw = width / 2;
    double xmin = 1e9, xmax = -1e9, ymin = 1e9, ymax = -1e9;
    for (auto& p : sp) {
        xmin = fmin(xmin, p.x); xmax = fmax(xmax, p.x); ymin = fmin(ymin, p.y); ymax = fmax(ymax, p.y);
    }
    std::vector<Vec2> qs;
    for (int xi = (int)floor((xmin - 2) * 4); xi <= (int)ceil((xmax + 2) * 4); xi++)
        for (int yi = (int)floor((ymin - 2) * 4); yi <= (int)ceil((ymax + 2) * 4); yi++)
            qs.push_back(Vec2{(2 * xi + 1) / 8.0, (2 * yi + 1) / 8.0});
    std::vector<int> in(qs.size(), 0);
    if (out.count == 1)
        for (size_t k = 0; k < qs.size(); k++) in[k] = inside_poly(out[0]->point_array, qs[k]) ? 1 : 0;
    // the centre line a PATH record would be written from (simple path): element_center
    Array<Vec2> cpts = {};
    f.simple_path = true;
    ErrorCode ce = f.element_center(f.elements, cpts);
    bool cfin = true;
    for (uint64_t i = 0; i < cpts.count; i++)
        if (!std::isfinite(cpts[i].x) || !std::isfinite(cpts[i].y)) cfin = false;
    w.kv("cerr", (int64_t)ce).kv("cnpts", (int64_t)cpts.count).kb("cfinite", cfin);
    auto seg_dist = [](Vec2 q, Vec2 a, Vec2 b) {
        Vec2 ab = b - a;
        double l2 = ab.length_sq();
        double t = l2 > 0 ? fmax(0.0, fmin(1.0, (q - a).inner(ab) / l2)) : 0.0;
        return (a + ab * t - q).length();
    };
    w.key("choices").begin_arr();
    for (int mask = 0; mask < (1 << nc); mask++) {
        std::vector<int> choice(nc);
        for (size_t i = 0; i < nc; i++) choice[i] = (mask >> i) & 1;
        std::vector<Vec2> cen;
        bend_curve(sp, tans, choice, R, off, cen);
        w.begin_obj();
        {
            // two-sided distance between element_center's polyline and this choice's exact centre curve
            double fwd = 0, rev = 0;
            if (cfin && cpts.count >= 2) {
                for (uint64_t i = 0; i < cpts.count; i++) {
                    double best = 1e300;
                    for (auto& c : cen) best = fmin(best, (c - cpts[i]).length_sq());
                    fwd = fmax(fwd, sqrt(best));
                }
                for (size_t k = 0; k < cen.size(); k += 7) {
                    double best = 1e300;
                    for (uint64_t i = 0; i + 1 < cpts.count; i++) best = fmin(best, seg_dist(cen[k], cpts[i], cpts[i + 1]));
                    rev = fmax(rev, best);
                }
            } else {
                fwd = rev = 1e6;
            }
            w.kv("cdev", (int64_t)fmin(2e9, ceil(fmax(fwd, rev) / (tol * 1e-3))));
        }
        w.key("c").begin_arr();
        for (size_t i = 0; i < nc; i++) w.i(choice[i]);
        w.end_arr().key("samples").begin_arr();
        for (size_t k = 0; k < qs.size(); k++) {
            double best = 1e300;
            size_t bi = 0;
            for (size_t i = 0; i < cen.size(); i++) {
                double d = (cen[i] - qs[k]).length_sq();
                if (d < best) {
                    best = d;
                    bi = i;
                }
            }
            double clr = sqrt(best) - hw;
            if (fabs(clr) > 0.3) continue;
            bool interior = bi > 5 && bi + 5 < cen.size();
            int64_t cm = (int64_t)fmax(-1e6, fmin(1e6, clr >= 0 ? ceil(clr / (tol * 1e-3)) : floor(clr / (tol * 1e-3))));
            w.begin_arr().i(in[k]).i(cm).i(interior ? 1 : 0).end_arr();
        }
        w.end_arr().end_obj();
    }
    w.end_arr();
    cpts.clear();
    free_polys(out);
}

// a corner at a non-right angle: the outline itself, on the lattice of 1/6 unit (inner corners sit at
// hw * tan(turn / 2) = 5/2, 5/3, ... from the vertex) (MC_C07Corner)
static void do_fpcorner(const J& g, W& w) {
    const J& sj = g["spine"];
    std::vector<Vec2> sp;
    for (size_t i = 0; i < sj.size(); i++) sp.push_back(Vec2{(double)sj[i][(size_t)0].i(), (double)sj[i][(size_t)1].i()});
    double width = 2.0 * (double)g["hw"].i(), off = 0;
    Tag t = 0;
    FlexPath f = {};
    f.init(sp[0], 1, &width, &off, 0.01, &t);
    for (size_t k = 1; k < sp.size(); k++) f.segment(sp[k], NULL, NULL, false);
    const std::string& j = g["join"].s();
    f.elements[0].join_type = j == "miter" ? JoinType::Miter : j == "bevel" ? JoinType::Bevel : JoinType::Natural;
    f.elements[0].end_type = EndType::Flush;
    Array<Polygon*> out = {};
    ErrorCode e = f.to_polygons(false, 0, out);
    bool ok = true;
    w.key("res").begin_arr();
    for (uint64_t i = 0; i < out.count; i++) {
        w.begin_arr();
        for (uint64_t k = 0; k < out[i]->point_array.count; k++)
            w.begin_arr().i(lat(out[i]->point_array[k].x, 6, ok)).i(lat(out[i]->point_array[k].y, 6, ok)).end_arr();
        w.end_arr();
    }
    w.end_arr();
    w.kb("lat", ok).kv("err", (int64_t)e);
    free_polys(out);
    f.clear();
}

// ------------------------------------------------------------------ RobustPath
static Interpolation mk_ip(const J& ip, double prev_unused) {
    (void)prev_unused;
    Interpolation r = {};
    const std::string& t = ip["t"].s();
    if (t == "constant") {
        r.type = InterpolationType::Constant;
        r.value = (double)ip["a"].i() / 1000.0;
    } else if (t == "linear" || t == "smooth") {
        r.type = t == "linear" ? InterpolationType::Linear : InterpolationType::Smooth;
        r.initial_value = (double)ip["a"].i() / 1000.0;
        r.final_value = (double)ip["b"].i() / 1000.0;
    }
    return r;
}

static void robust_call(RobustPath& r, const J& s, const Interpolation* W_, const Interpolation* O_) {
    const std::string& k = s["k"].s();
    bool rel = s["rel"].t();
    if (k == "segment") r.segment(jp(s["p"]), W_, O_, rel);
    else if (k == "horizontal") r.horizontal((double)s["x"].i(), W_, O_, rel);
    else if (k == "vertical") r.vertical((double)s["y"].i(), W_, O_, rel);
    else if (k == "cubic") r.cubic(jp(s["c1"]), jp(s["c2"]), jp(s["e"]), W_, O_, rel);
    else if (k == "cubic_smooth") r.cubic_smooth(jp(s["c2"]), jp(s["e"]), W_, O_, rel);
    else if (k == "quadratic") r.quadratic(jp(s["c"]), jp(s["e"]), W_, O_, rel);
    else if (k == "quadratic_smooth") r.quadratic_smooth(jp(s["e"]), W_, O_, rel);
    else if (k == "bezier") {
        Array<Vec2> pts = {};
        for (size_t i = 0; i < s["pts"].size(); i++) pts.append(jp(s["pts"][i]));
        r.bezier(pts, W_, O_, rel);
        pts.clear();
    } else if (k == "arc")
        r.arc((double)s["rx"].i(), (double)s["ry"].i(), deg(s["a0"].i()), deg(s["a1"].i()), deg(s["rot"].i()), W_, O_);
    else if (k == "turn") r.turn((double)s["r"].i(), deg(s["a"].i()), W_, O_);
    else if (k == "parametric") r.parametric(wave, NULL, NULL, NULL, W_, O_, rel);
    else if (k == "interpolation") {
        size_t np = s["pts"].size();
        Array<Vec2> pts = {};
        for (size_t i = 0; i < np; i++) pts.append(jp(s["pts"][i]));
        std::vector<double> angles(np + 1, 0.0);
        std::vector<char> cons(np + 1, 0);
        std::vector<Vec2> tens(np + 1, Vec2{1, 1});
        r.interpolation(pts, angles.data(), (bool*)cons.data(), tens.data(), 1, 1, false, W_, O_, rel);
        pts.clear();
    }
}

static void do_rpbook(const J& g, W& w) {
    uint64_t nel = (uint64_t)g["nel"].i();
    std::vector<double> w0(nel, 0.3), o0(nel);
    std::vector<Tag> tags(nel);
    for (uint64_t i = 0; i < nel; i++) {
        o0[i] = 0.125 * (double)i;
        tags[i] = make_tag((uint32_t)i, 0);
    }
    RobustPath r = {};
    r.init(Vec2{0, 0}, nel, w0.data(), o0.data(), 0.01, 1000, tags.data());
    w.key("steps").begin_arr();
    for (size_t ci = 0; ci < g["calls"].size(); ci++) {
        const J& c = g["calls"][ci];
        g_shared->phase = (int64_t)ci;
        std::vector<Interpolation> wi(nel), oi(nel);
        for (uint64_t i = 0; i < nel; i++) {
            wi[i] = mk_ip(c["w"], 0);
            oi[i] = mk_ip(c["o"], 0);
        }
        uint64_t n0 = r.subpath_array.count;
        robust_call(r, c["sec"], c["w"]["t"].s() == "none" ? NULL : wi.data(),
                    c["o"]["t"].s() == "none" ? NULL : oi.data());
        bool ok = true;
        uint64_t n1 = r.subpath_array.count;
        w.begin_obj().kv("nsec", (int64_t)n1).kv("added", (int64_t)(n1 - n0));
        w.key("end3").begin_arr().i(lat(r.end_point.x, 3, ok)).i(lat(r.end_point.y, 3, ok)).end_arr();
        w.kb("end_exact", ok);
        ok = true;
        w.key("els").begin_arr();
        for (uint64_t e = 0; e < nel; e++)
            w.begin_obj().kv("nw", (int64_t)r.elements[e].width_array.count)
                .kv("no", (int64_t)r.elements[e].offset_array.count)
                .kv("end_w", lat(r.elements[e].end_width, 1000, ok))
                .kv("end_o", lat(r.elements[e].end_offset, 1000, ok)).end_obj();
        w.end_arr();
        // queries on the last section: width / offset at u = n1-1, n1-1/2, n1 (x2000), positions
        w.key("wq").begin_arr();
        std::vector<double> res(nel);
        for (int h = 0; h <= 2; h++) {
            r.width((double)(n1 - 1) + 0.5 * h, h == 0 ? false : true, res.data());
            w.begin_arr();
            for (uint64_t e = 0; e < nel; e++) w.i(lat(res[e], 2000, ok));
            w.end_arr();
        }
        w.end_arr();
        w.key("oq").begin_arr();
        for (int h = 0; h <= 2; h++) {
            r.offset((double)(n1 - 1) + 0.5 * h, h == 0 ? false : true, res.data());
            w.begin_arr();
            for (uint64_t e = 0; e < nel; e++) w.i(lat(res[e], 2000, ok));
            w.end_arr();
        }
        w.end_arr();
        // adjacent sections meet: position(k) from below and from above coincide, and position(n)
        // is the end point
        double gap = 0;
        for (uint64_t k = 1; k < n1; k++) gap = fmax(gap, (r.position((double)k, true) - r.position((double)k, false)).length());
        gap = fmax(gap, (r.position((double)n1, true) - r.end_point).length());
        w.kv("gap_nano", (int64_t)fmin(ceil(gap / 1e-9), 2e9)).kb("lat", ok);
        w.end_obj();
    }
    w.end_arr();
    Array<Polygon*> out = {};
    ErrorCode e = r.to_polygons(false, 0, out);
    bool fin = true;
    for (uint64_t i = 0; i < out.count; i++)
        for (uint64_t k = 0; k < out[i]->point_array.count; k++)
            if (!std::isfinite(out[i]->point_array[k].x) || !std::isfinite(out[i]->point_array[k].y)) fin = false;
    w.key("final").begin_obj().kv("err", (int64_t)e).kv("npoly", (int64_t)out.count).kb("finite", fin).end_obj();
    free_polys(out);
}

static void do_rpxform(const J& g, W& w) {
    RobustPath r = {};
    double w0 = 0.4, o0 = 0;
    Tag t = 0;
    r.init(Vec2{0, 0}, 1, &w0, &o0, 0.001, 1000, &t);
    robust_call(r, g["first"], NULL, NULL);
    const J& x = g["xf"];
    const std::string& op = x["op"].s();
    if (op == "rotate") r.rotate(deg(x["deg"].i()), Vec2{0, 0});
    else if (op == "translate") r.translate(jp(x["v"]));
    else if (op == "scale") r.scale((double)x["s"].i(), Vec2{0, 0});
    else if (op == "mirror") r.mirror(jp(x["p0"]), jp(x["p1"]));
    robust_call(r, g["second"], NULL, NULL);
    // continuity at the joint, in the path's own (transformed) frame
    Vec2 pb = r.position(1.0, true), pa = r.position(1.0, false);
    Vec2 gb = r.gradient(1.0, true), ga = r.gradient(1.0, false);
    double gap = (pb - pa).length();
    double scale = fmax(1.0, fmax(pb.length(), pa.length()));
    double sinang = fabs(gb.cross(ga)) / (gb.length() * ga.length() + 1e-300);
    bool same_dir = gb.inner(ga) > 0;
    w.kv("gap_nano", (int64_t)fmin(ceil(gap / (1e-9 * scale)), 2e9));
    w.kv("kink_micro", (int64_t)fmin(ceil(sinang / 1e-6), 2e9)).kb("same_dir", same_dir);
    Array<Polygon*> out = {};
    ErrorCode e = r.to_polygons(false, 0, out);
    w.kv("err", (int64_t)e).kv("npoly", (int64_t)out.count);
    free_polys(out);
}

static void do_rpcmd(const J& g, W& w) {
    RobustPath r = {};
    double w0 = 0.4, o0 = 0;
    Tag t = 0;
    r.init(Vec2{0, 0}, 1, &w0, &o0, 0.001, 1000, &t);
    std::vector<CurveInstruction> items;
    std::string str = g["s"].s();
    char* tok = strtok((char*)str.c_str(), " ");
    char lastcmd = 0;
    int argi = 0;
    while (tok) {
        CurveInstruction ci;
        if (isalpha((unsigned char)tok[0])) {
            ci.command = tok[0];
            lastcmd = tok[0];
            argi = 0;
        } else {
            double v = atof(tok);
            if ((lastcmd == 'a' && argi == 1) || (lastcmd == 'A' && argi >= 1)) v = v * M_PI / 180.0;
            ci.number = v;
            argi++;
        }
        items.push_back(ci);
        tok = strtok(NULL, " ");
    }
    uint64_t n = r.commands(items.data(), items.size());
    bool ok = true;
    w.kv("processed", (int64_t)n).kv("items", (int64_t)items.size());
    w.key("end").begin_arr().i(lat(r.end_point.x, 1000, ok)).i(lat(r.end_point.y, 1000, ok)).end_arr();
    w.kb("lat", ok).kv("nsec", (int64_t)r.subpath_array.count);
}

// exact centre curve of a (1-2 section) path for the measured clearance check
struct Sec {
    std::function<Vec2(double)> f, df;
};
static Sec sec_of(const J& s, Vec2 start, Vec2 prev_grad) {
    const std::string& k = s["k"].s();
    bool rel = s["rel"].t();
    auto ab = [&](const J& p) { return rel ? start + jp(p) : jp(p); };
    std::vector<Vec2> c;
    if (k == "segment") c = {start, ab(s["p"])};
    else if (k == "cubic") c = {start, ab(s["c1"]), ab(s["c2"]), ab(s["e"])};
    else if (k == "cubic_smooth") c = {start, start + prev_grad * (1.0 / 3.0), ab(s["c2"]), ab(s["e"])};
    if (!c.empty()) {
        Sec r;
        r.f = [c](double u) {
            std::vector<Vec2> p = c;
            for (size_t kk = 1; kk < c.size(); kk++)
                for (size_t i = 0; i + kk < c.size(); i++) p[i] = p[i] * (1 - u) + p[i + 1] * u;
            return p[0];
        };
        r.df = [c](double u) {
            std::vector<Vec2> d;
            for (size_t i = 0; i + 1 < c.size(); i++) d.push_back((c[i + 1] - c[i]) * (double)(c.size() - 1));
            for (size_t kk = 1; kk < d.size(); kk++)
                for (size_t i = 0; i + kk < d.size(); i++) d[i] = d[i] * (1 - u) + d[i + 1] * u;
            return d[0];
        };
        return r;
    }
    // arc (no rotation): parameter angles directly
    double rx = (double)s["rx"].i(), ry = (double)s["ry"].i(), a0 = deg(s["a0"].i()), a1 = deg(s["a1"].i());
    Vec2 cen = start - Vec2{rx * cos(a0), ry * sin(a0)};
    Sec r;
    r.f = [=](double u) { double a = a0 + (a1 - a0) * u; return cen + Vec2{rx * cos(a), ry * sin(a)}; };
    r.df = [=](double u) { double a = a0 + (a1 - a0) * u; return Vec2{-rx * sin(a), ry * cos(a)} * (a1 - a0); };
    return r;
}

static void do_rpregion(const J& g, W& w) {
    double tol = pow(10.0, -(double)g["tolk"].i());
    double width = (double)g["w"].i() / 1000.0, off = (double)g["o"].i() / 1000.0;
    RobustPath r = {};
    Tag t = 0;
    r.init(Vec2{0, 0}, 1, &width, &off, tol, 1000, &t);
    std::vector<Sec> secs;
    Vec2 start = {0, 0}, grad = {1, 0};
    bool ramp = g.has("o1") && g["secs"].size() == 1;
    double off1 = ramp ? (double)g["o1"].i() / 1000.0 : off;
    for (size_t i = 0; i < g["secs"].size(); i++) {
        Sec s = sec_of(g["secs"][i], start, grad);
        secs.push_back(s);
        if (ramp) {
            // single-section cases only: the offset runs linearly from o to o1 along the section
            Interpolation O = {};
            O.type = InterpolationType::Linear;
            O.initial_value = off;
            O.final_value = off1;
            robust_call(r, g["secs"][i], NULL, &O);
        } else {
            robust_call(r, g["secs"][i], NULL, NULL);
        }
        start = s.f(1.0);
        grad = s.df(1.0);
    }
    const std::string ends = g["ends"].s();
    r.elements[0].end_type = ends == "round" ? EndType::Round : ends == "halfwidth" ? EndType::HalfWidth : EndType::Flush;
    // optional magnification about the origin (scale_width: widths and offsets follow); the samples are
    // magnified with the path, so clearances computed in the unscaled frame are conservative for mag >= 1
    double mag = g.has("mag") ? (double)g["mag"].i() : 1.0;
    r.scale_width = true;
    if (mag != 1.0) r.scale(mag, Vec2{0, 0});
    // optionally rotate the finished path by atan(3/4); the samples are rotated with it, so the
    // clearances computed from the unrotated exact curve stay valid
    bool rotated = g.has("rot") && g["rot"].i() != 0;
    const double ca = 0.8, sa = 0.6;
    if (rotated) r.rotate(atan2(sa, ca), Vec2{0, 0});
    Array<Polygon*> out = {};
    ErrorCode e = r.to_polygons(false, 0, out);
    w.kv("err", (int64_t)e).kv("npoly", (int64_t)out.count);
    // dense samples of the exact centre curve (spine displaced by the offset to the left)
    std::vector<Vec2> cen;
    const int M = 2000;
    for (auto& s : secs)
        for (int i = 0; i <= M; i++) {
            double u = (double)i / M;
            Vec2 d = s.df(u);
            Vec2 n = Vec2{-d.y, d.x} * (1.0 / (d.length() + 1e-300));
            cen.push_back(s.f(u) + n * (off + (off1 - off) * u));
        }
    double hw = width / 2;
    // corner vertices of a polyline path (all sections straight) with the reach of their mitre
    std::vector<std::pair<Vec2, double>> corners;
    if (g.has("poly") && g["poly"].t()) {
        for (size_t i = 0; i + 1 < secs.size(); i++) {
            Vec2 a = secs[i].df(1.0), b = secs[i + 1].df(0.0);
            double c = a.inner(b) / (a.length() * b.length() + 1e-300);
            double half = 0.5 * acos(fmax(-1.0, fmin(1.0, c)));
            corners.push_back({secs[i].f(1.0), hw / fmax(0.2, cos(half)) + 0.3});
        }
    }
    if (ends == "halfwidth" && !cen.empty()) {
        const int K = 200;
        Vec2 d0 = secs.front().df(0.0), d1 = secs.back().df(1.0);
        d0 = d0 * (1.0 / (d0.length() + 1e-300));
        d1 = d1 * (1.0 / (d1.length() + 1e-300));
        Vec2 a = cen.front(), b = cen.back();
        std::vector<Vec2> ext;
        for (int i = K; i >= 1; i--) ext.push_back(a - d0 * (hw * i / K));
        ext.insert(ext.end(), cen.begin(), cen.end());
        for (int i = 1; i <= K; i++) ext.push_back(b + d1 * (hw * i / K));
        cen.swap(ext);
    }
    // classify sample points: signed clearance (distance to centre curve - half width) in
    // milli-tolerances, whether the nearest centre point is an interior one, and membership
    w.key("samples").begin_arr();
    if (out.count == 1) {
        for (int xi = -8; xi <= 56; xi++)
            for (int yi = -16; yi <= 40; yi++) {
                Vec2 q = {(2 * xi + 1) / 8.0, (2 * yi + 1) / 8.0};
                double best = 1e300;
                size_t bi = 0;
                for (size_t i = 0; i < cen.size(); i++) {
                    double d = (cen[i] - q).length_sq();
                    if (d < best) {
                        best = d;
                        bi = i;
                    }
                }
                double clr = sqrt(best) - hw;
                if (fabs(clr) > 0.3) continue;  // only the band around the outline is informative
                // a round cap covers the whole disc around the end point; flush ends cover nothing beyond
                bool interior = ends == "round" || (bi > 5 && bi + 5 < cen.size());
                int64_t cm = (int64_t)fmax(-1e6, fmin(1e6, clr >= 0 ? ceil(clr / (tol * 1e-3)) : floor(clr / (tol * 1e-3))));
                Vec2 qr = rotated ? Vec2{ca * q.x - sa * q.y, sa * q.x + ca * q.y} : q;
                qr = qr * mag;
                // polyline paths: around a corner the sides meet in a mitre, which is neither the disc
                // sweep nor cut short of it: samples within the mitre's reach of a corner vertex are
                // marked 2 (no claim either way)
                int flag = interior ? 1 : 0;
                for (auto& cv : corners)
                    if ((q - cv.first).length() <= cv.second) flag = 2;
                w.begin_arr().i(inside_poly(out[0]->point_array, qr) ? 1 : 0).i(cm).i(flag).end_arr();
            }
    }
    w.end_arr();
    free_polys(out);
}


// centre line of a simple RobustPath (what PATH records are written from) against the exact curve
// f(u) + n(u) * offset(u), with an offset interpolation of its own in every section
static void do_rpcenter(const J& g, W& w) {
    double tol = pow(10.0, -(double)g["tolk"].i());
    double width = (double)g["w"].i() / 1000.0, off0 = (double)g["offs"][(size_t)0][(size_t)0].i() / 1000.0;
    RobustPath r = {};
    Tag t = 0;
    r.init(Vec2{0, 0}, 1, &width, &off0, tol, 1000, &t);
    std::vector<Sec> secs;
    std::vector<std::pair<double, double>> offs;
    Vec2 start = {0, 0}, grad = {1, 0};
    for (size_t i = 0; i < g["secs"].size(); i++) {
        Sec s = sec_of(g["secs"][i], start, grad);
        secs.push_back(s);
        double a = (double)g["offs"][i][(size_t)0].i() / 1000.0, b = (double)g["offs"][i][(size_t)1].i() / 1000.0;
        offs.push_back({a, b});
        Interpolation O = {};
        O.type = InterpolationType::Linear;
        O.initial_value = a;
        O.final_value = b;
        robust_call(r, g["secs"][i], NULL, &O);
        start = s.f(1.0);
        grad = s.df(1.0);
    }
    r.simple_path = true;
    Array<Vec2> pts = {};
    ErrorCode e = r.element_center(r.elements, pts);
    std::vector<Vec2> cen;
    const int M = 4000;
    for (size_t k = 0; k < secs.size(); k++)
        for (int i = 0; i <= M; i++) {
            double u = (double)i / M;
            Vec2 d = secs[k].df(u);
            Vec2 n = Vec2{-d.y, d.x} * (1.0 / (d.length() + 1e-300));
            cen.push_back(secs[k].f(u) + n * (offs[k].first + (offs[k].second - offs[k].first) * u));
        }
    double worst = 0;
    bool fin = true;
    for (uint64_t i = 0; i < pts.count; i++) {
        if (!std::isfinite(pts[i].x) || !std::isfinite(pts[i].y)) fin = false;
        double best = 1e300;
        for (auto& c : cen) best = fmin(best, (c - pts[i]).length_sq());
        worst = fmax(worst, sqrt(best));
    }
    double e0 = pts.count ? (pts[0] - cen.front()).length() : 1e9;
    double e1 = pts.count ? (pts[pts.count - 1] - cen.back()).length() : 1e9;
    w.kv("err", (int64_t)e).kv("npts", (int64_t)pts.count).kb("finite", fin);
    w.kv("dev_milli", (int64_t)fmin(2e9, ceil(worst / (tol * 1e-3))));
    w.kv("ends_milli", (int64_t)fmin(2e9, ceil(fmax(e0, e1) / (tol * 1e-3))));
    pts.clear();
}

int main(int argc, char** argv) {
    if (argc < 3) return 2;
    gdstk::set_error_logger(NULL);
    std::vector<std::string> lines = read_lines(argv[1]);
    g_timeout_s = 60;
    return supervise(lines, argv[2], [&](int64_t, const std::string& line, FILE* out) {
        J g = jparse(line);
        W w;
        w.begin_obj().ks("e", g["k"].s()).key("g").raw(line);
        const std::string& k = g["k"].s();
        if (k == "fpbook") do_fpbook(g, w);
        else if (k == "fpregion") do_fpregion(g, w);
        else if (k == "fpbend") do_fpbend(g, w);
        else if (k == "fpcorner") do_fpcorner(g, w);
        else if (k == "rpbook") do_rpbook(g, w);
        else if (k == "rpxform") do_rpxform(g, w);
        else if (k == "rpcmd") do_rpcmd(g, w);
        else if (k == "rpregion") do_rpregion(g, w);
        else if (k == "rpcenter") do_rpcenter(g, w);
        w.end_obj();
        fputs(w.s.c_str(), out);
        fputc('\n', out);
    });
}
