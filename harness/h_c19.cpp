// C19 harness: drives gdstk's number codecs (oasis_read_*/oasis_write_*, gdsii_real_*) through
// in-memory OasisStreams with byte strings emitted by TLC (Codec.tla) and with seeded random
// values, and logs bytes / values.  64-bit words are logged as 8 little-endian bytes so that
// nothing wide ever has to become a TLC integer.
#include <gdstk/gdsii.hpp>
#include <gdstk/gdstk.hpp>
#include <gdstk/oasis.hpp>

#include <random>

#include "common.hpp"

using namespace gdstk;

static void w_bytes(W& w, const char* key, const uint8_t* b, size_t n) {
    w.key(key).begin_arr();
    for (size_t i = 0; i < n; i++) w.i(b[i]);
    w.end_arr();
}
static void w_u64(W& w, const char* key, uint64_t v) {
    uint8_t b[8];
    for (int i = 0; i < 8; i++) b[i] = (uint8_t)(v >> (8 * i));
    w_bytes(w, key, b, 8);
}
static void w_s64(W& w, const char* key, int64_t v) {
    // sign + magnitude (INT64_MIN cannot occur in the domain)
    w.key(key).begin_obj().kb("neg", v < 0);
    uint64_t mag = v < 0 ? (uint64_t)(-(v + 1)) + 1 : (uint64_t)v;
    w_u64(w, "mag", mag);
    w.end_obj();
}
static void w_dbl(W& w, const char* key, double d) {
    uint64_t u;
    memcpy(&u, &d, 8);
    w_u64(w, key, u);
}
static uint64_t j_u64(const J& a) {
    uint64_t v = 0;
    for (size_t i = 0; i < a.size() && i < 8; i++) v |= (uint64_t)a[i].i() << (8 * i);
    return v;
}
static int64_t j_s64(const J& o) {
    uint64_t m = j_u64(o["mag"]);
    return o["neg"].t() ? -(int64_t)m : (int64_t)m;
}

// an input stream over a byte string; padded so that the cursor never reaches the end
// (oasis_read frees a data buffer that is completely consumed -- CBLOCK semantics)
struct InStream {
    OasisStream s = {};
    InStream(const J& bytes) {
        size_t n = bytes.size();
        s.data_size = n + 32;
        s.data = (uint8_t*)allocate_clear(s.data_size);
        for (size_t i = 0; i < n; i++) s.data[i] = (uint8_t)bytes[i].i();
        s.cursor = s.data;
    }
    int64_t consumed() const { return s.data ? (int64_t)(s.cursor - s.data) : -1; }
    ~InStream() {
        if (s.data) free_allocation(s.data);
    }
};
struct OutStream {
    OasisStream s = {};
    OutStream() {
        s.data_size = 64;
        s.data = (uint8_t*)allocate_clear(s.data_size);
        s.cursor = s.data;
    }
    size_t size() const { return (size_t)(s.cursor - s.data); }
    ~OutStream() { free_allocation(s.data); }
};
static J bytes_to_j(const uint8_t* b, size_t n) {
    J a;
    a.kind = J::Arr;
    for (size_t i = 0; i < n; i++) {
        J x;
        x.kind = J::Num;
        x.is_int = true;
        x.inum = b[i];
        a.arr.push_back(x);
    }
    return a;
}

static void decode_into(W& w, const std::string& kind, InStream& in, const J& g) {
    if (kind == "uint") {
        w_u64(w, "v", oasis_read_unsigned_integer(in.s));
    } else if (kind == "int") {
        w_s64(w, "v", oasis_read_integer(in.s));
    } else if (kind == "d2" || kind == "d3" || kind == "dg") {
        int64_t x = 0, y = 0;
        if (kind == "d2") oasis_read_2delta(in.s, x, y);
        else if (kind == "d3") oasis_read_3delta(in.s, x, y);
        else oasis_read_gdelta(in.s, x, y);
        w_s64(w, "x", x);
        w_s64(w, "y", y);
    } else if (kind == "real") {
        w_dbl(w, "v", oasis_read_real(in.s));
    } else if (kind == "plist") {
        Array<Vec2> pts = {};
        pts.append(Vec2{0, 0});
        uint64_t n = oasis_read_point_list(in.s, 1.0, g["closed"].t(), pts);
        w.kv("n", (int64_t)n);
        bool ok = true;
        w.key("pts").begin_arr();
        for (uint64_t i = 0; i < pts.count; i++)
            w.begin_arr().i(lat(pts[i].x, 1, ok)).i(lat(pts[i].y, 1, ok)).end_arr();
        w.end_arr();
        w.kb("lat", ok);
        pts.clear();
    }
    w.kv("err", (int64_t)in.s.error_code);
    w.kv("used", in.consumed());
}

static void do_case(const J& g, W& w) {
    const std::string& k = g["k"].s();
    const std::string& kind = g["kind"].s();
    if (k == "dec") {
        InStream in(g["bytes"]);
        decode_into(w, kind, in, g);
    } else if (k == "enc") {
        OutStream out;
        if (kind == "uint") oasis_write_unsigned_integer(out.s, j_u64(g["v"]));
        else if (kind == "int") oasis_write_integer(out.s, j_s64(g["v"]));
        else if (kind == "d2") oasis_write_2delta(out.s, j_s64(g["x"]), j_s64(g["y"]));
        else if (kind == "d3") oasis_write_3delta(out.s, j_s64(g["x"]), j_s64(g["y"]));
        else if (kind == "dg") oasis_write_gdelta(out.s, j_s64(g["x"]), j_s64(g["y"]));
        else if (kind == "real") {
            uint64_t u = j_u64(g["v"]);
            double d;
            memcpy(&d, &u, 8);
            oasis_write_real(out.s, d);
        } else if (kind == "plist") {
            Array<IntVec2> pts = {};
            for (size_t i = 0; i < g["pts"].size(); i++)
                pts.append(IntVec2{g["pts"][i][(size_t)0].i(), g["pts"][i][(size_t)1].i()});
            oasis_write_point_list(out.s, pts, g["closed"].t());
            pts.clear();
        }
        w_bytes(w, "bytes", out.s.data, out.size());
        // decode what was written with gdstk's own reader
        J jb = bytes_to_j(out.s.data, out.size());
        InStream in(jb);
        W back;
        back.begin_obj();
        decode_into(back, kind, in, g);
        back.end_obj();
        w.key("back").raw(back.s);
    } else if (k == "gds") {
        uint64_t u = j_u64(g["v"]);
        double d;
        memcpy(&d, &u, 8);
        uint64_t r = gdsii_real_from_double(d);
        uint8_t be[8];
        for (int i = 0; i < 8; i++) be[i] = (uint8_t)(r >> (8 * (7 - i)));
        w_bytes(w, "gds", be, 8);
        w_dbl(w, "back", gdsii_real_to_double(r));
    } else if (k == "gdsdec") {
        // a GDSII real given as 8 big-endian bytes -> double -> real
        uint64_t r = 0;
        for (int i = 0; i < 8; i++) r = (r << 8) | (uint64_t)g["bytes"][(size_t)i].i();
        double d = gdsii_real_to_double(r);
        w_dbl(w, "v", d);
        uint64_t r2 = gdsii_real_from_double(d);
        uint8_t be[8];
        for (int i = 0; i < 8; i++) be[i] = (uint8_t)(r2 >> (8 * (7 - i)));
        w_bytes(w, "again", be, 8);
    }
}

// seeded random cases appended to TLC's: 64-bit values with emphasis on group boundaries
static void add_random(std::vector<std::string>& lines, uint64_t seed, int n) {
    std::mt19937_64 rng(seed * 2654435761u + 17);
    auto rnd_u64 = [&]() {
        int bits = 1 + (int)(rng() % 64);
        uint64_t v = rng();
        if (bits < 64) v &= ((uint64_t)1 << bits) - 1;
        if (rng() % 4 == 0 && bits < 64) v = ((uint64_t)1 << bits) - (rng() % 3);
        return v;
    };
    auto u64j = [&](uint64_t v) {
        W w;
        w_u64(w, "v", v);
        return w.s.substr(4);  // strip "v":
    };
    auto s64j = [&](int64_t v) {
        W w;
        w_s64(w, "v", v);
        return w.s.substr(4);
    };
    for (int i = 0; i < n; i++) {
        uint64_t u = rnd_u64();
        lines.push_back("{\"k\":\"enc\",\"kind\":\"uint\",\"v\":" + u64j(u) + "}");
        int64_t s = (int64_t)(rnd_u64() >> 1);
        if (rng() % 2) s = -s;
        lines.push_back("{\"k\":\"enc\",\"kind\":\"int\",\"v\":" + s64j(s) + "}");
        int64_t x = (int64_t)(rnd_u64() >> 1), y = (int64_t)(rnd_u64() >> 1);
        if (rng() % 2) x = -x;
        if (rng() % 2) y = -y;
        lines.push_back("{\"k\":\"enc\",\"kind\":\"dg\",\"x\":" + s64j(x) + ",\"y\":" + s64j(y) + "}");
        // doubles: random bit patterns within the GDSII range, plus near-reciprocals
        uint64_t mant = rng() & (((uint64_t)1 << 52) - 1);
        uint64_t ex = 1023 - 255 + rng() % 507;  // 2^-255 .. 2^251  (16^-64 .. 16^63)
        uint64_t bits = ((rng() % 2) << 63) | (ex << 52) | mant;
        if (rng() % 5 == 0) bits &= ~(((uint64_t)1 << (rng() % 52)) - 1);  // few mantissa bits
        lines.push_back("{\"k\":\"gds\",\"v\":" + u64j(bits) + "}");
        lines.push_back("{\"k\":\"enc\",\"kind\":\"real\",\"v\":" + u64j(bits) + "}");
        // values whose reciprocal is (nearly) an integer
        double nn = (double)(1 + rng() % 1000);
        double v = 1.0 / nn;
        uint64_t vb;
        memcpy(&vb, &v, 8);
        vb += (uint64_t)(rng() % 3) - 1;  // -1, 0, +1 ulp
        lines.push_back("{\"k\":\"enc\",\"kind\":\"real\",\"v\":" + u64j(vb) + "}");
        lines.push_back("{\"k\":\"gds\",\"v\":" + u64j(vb) + "}");
    }
}

int main(int argc, char** argv) {
    // h_c19 <gen.ndjson> <obs.ndjson> <seed> <nrandom>
    if (argc < 5) return 2;
    gdstk::set_error_logger(NULL);
    std::vector<std::string> lines = read_lines(argv[1]);
    add_random(lines, strtoull(argv[3], NULL, 10), atoi(argv[4]));
    return supervise(lines, argv[2], [&](int64_t, const std::string& line, FILE* out) {
        J g = jparse(line);
        W w;
        w.begin_obj().ks("e", g["k"].s()).key("g").raw(line);
        do_case(g, w);
        w.end_obj();
        fputs(w.s.c_str(), out);
        fputc('\n', out);
    });
}
