// C11 harness: executes TLC-enumerated repetition cases on gdstk's Repetition and on every
// element kind's apply_repetition, and logs counts / offsets / extrema / copies.
#include "geo.hpp"

static Quant Q;

static void log_offsets(W& w, const char* key, Array<Vec2>& a, bool& ok) {
    w.key(key);
    log_points(w, a.items, a.count, Q, ok);
}

static void case_q(const J& g, W& w) {
    Repetition rep;
    set_repetition(rep, g["r"], Q);
    bool ok = true;
    w.kv("count", (int64_t)rep.get_count());
    Array<Vec2> offs = {};
    rep.get_offsets(offs);
    log_offsets(w, "offsets", offs, ok);
    Array<Vec2> ext = {};
    rep.get_extrema(ext);
    log_offsets(w, "extrema", ext, ok);
    // "Append ... to result": earlier content of the caller's array stays, the offsets follow it
    {
        Array<Vec2> pre = {};
        pre.append(Vec2{123, -456});
        pre.append(Vec2{7, 8});
        rep.get_offsets(pre);
        bool kept = pre.count >= 2 && pre[0] == Vec2{123, -456} && pre[1] == Vec2{7, 8};
        Array<Vec2> tail = {};
        for (uint64_t i = 2; i < pre.count; i++) tail.append(pre[i]);
        log_offsets(w, "appended_offsets", tail, ok);
        Array<Vec2> pre2 = {};
        pre2.append(Vec2{-1, -2});
        rep.get_extrema(pre2);
        kept = kept && pre2.count >= 1 && pre2[0] == Vec2{-1, -2};
        Array<Vec2> tail2 = {};
        for (uint64_t i = 1; i < pre2.count; i++) tail2.append(pre2[i]);
        log_offsets(w, "appended_extrema", tail2, ok);
        w.kb("append_keeps", kept);
        pre.clear();
        pre2.clear();
        tail.clear();
        tail2.clear();
    }
    // a copy must denote the same thing and be independent
    Repetition cp = {};
    cp.copy_from(rep);
    rep.clear();
    Array<Vec2> offs2 = {};
    cp.get_offsets(offs2);
    log_offsets(w, "copy_offsets", offs2, ok);
    w.kb("lat", ok);
    offs.clear();
    ext.clear();
    offs2.clear();
    cp.clear();
}

static void case_t(const J& g, W& w) {
    Repetition rep;
    set_repetition(rep, g["r"], Q);
    const J& t = g["t"];
    rep.transform(mag_value(t["mag"]), t["refl"].t(), rot_angle(t["rot"]));
    bool ok = true;
    w.ks("type_after", rep_type_name(rep));
    w.kv("count", (int64_t)rep.get_count());
    Array<Vec2> offs = {};
    rep.get_offsets(offs);
    log_offsets(w, "offsets", offs, ok);
    Array<Vec2> ext = {};
    rep.get_extrema(ext);
    log_offsets(w, "extrema", ext, ok);
    w.kb("lat", ok);
    offs.clear();
    ext.clear();
    rep.clear();
}

template <class T>
static void log_copies(W& w, T* orig, Array<T*>& copies,
                       std::function<bool(T*, T*, Vec2&)> cmp) {
    bool ok = true;
    w.ks("rep_after", rep_type_name(orig->repetition));
    w.key("copies").begin_arr();
    std::vector<bool> same;
    for (uint64_t i = 0; i < copies.count; i++) {
        Vec2 d = {0, 0};
        bool s = cmp(orig, copies[i], d);
        s = s && copies[i]->repetition.type == RepetitionType::None &&
            props_digest(orig->properties) == props_digest(copies[i]->properties) &&
            orig->properties != copies[i]->properties;
        same.push_back(s);
        w.begin_arr().i(lat(d.x, Q.q, ok)).i(lat(d.y, Q.q, ok)).end_arr();
    }
    w.end_arr();
    w.key("same").begin_arr();
    for (bool s : same) w.b(s);
    w.end_arr();
    w.kb("lat", ok);
}

static void case_a(const J& g, W& w) {
    const std::string& kind = g["kind"].s();
    Tag t0 = make_tag(1, 2), t1 = make_tag(3, 4);
    if (kind == "polygon") {
        Polygon* p = make_polygon(t0);
        add_two_props(p->properties);
        set_repetition(p->repetition, g["r"], Q);
        Polygon before = {};
        before.copy_from(*p);
        Array<Polygon*> res = {};
        p->apply_repetition(res);
        w.kb("orig_same", same_points_shifted(before.point_array, p->point_array, Vec2{0, 0}) &&
                              before.tag == p->tag &&
                              props_digest(before.properties) == props_digest(p->properties));
        log_copies<Polygon>(w, p, res, [](Polygon* o, Polygon* c, Vec2& d) {
            if (c->point_array.count == 0) return false;
            d = c->point_array[0] - o->point_array[0];
            return o->tag == c->tag && same_points_shifted(o->point_array, c->point_array, d);
        });
    } else if (kind == "flexpath") {
        FlexPath* p = make_flexpath(t0, t1);
        add_two_props(p->properties);
        set_repetition(p->repetition, g["r"], Q);
        Array<Polygon*> before = {};
        {
            FlexPath tmp = {};
            tmp.copy_from(*p);
            tmp.repetition.clear();
            tmp.to_polygons(false, 0, before);
        }
        Array<FlexPath*> res = {};
        p->apply_repetition(res);
        Array<Polygon*> oo = {};
        p->to_polygons(false, 0, oo);
        w.kb("orig_same", same_outlines_shifted(before, oo, Vec2{0, 0}) && oo.count == 2);
        log_copies<FlexPath>(w, p, res, [&](FlexPath* o, FlexPath* c, Vec2& d) {
            if (c->spine.point_array.count == 0) return false;
            d = c->spine.point_array[0] - o->spine.point_array[0];
            Array<Polygon*> co = {};
            c->to_polygons(false, 0, co);
            bool s = same_outlines_shifted(oo, co, d) && c->num_elements == o->num_elements &&
                     c->simple_path == o->simple_path && c->scale_width == o->scale_width;
            for (uint64_t e = 0; s && e < o->num_elements; e++)
                s = c->elements[e].tag == o->elements[e].tag &&
                    c->elements[e].half_width_and_offset.items !=
                        o->elements[e].half_width_and_offset.items;
            return s;
        });
    } else if (kind == "robustpath") {
        RobustPath* p = make_robustpath(t0, t1);
        add_two_props(p->properties);
        set_repetition(p->repetition, g["r"], Q);
        Array<Polygon*> before = {};
        {
            RobustPath tmp = {};
            tmp.copy_from(*p);
            tmp.repetition.clear();
            tmp.to_polygons(false, 0, before);
        }
        Array<RobustPath*> res = {};
        p->apply_repetition(res);
        Array<Polygon*> oo = {};
        p->to_polygons(false, 0, oo);
        w.kb("orig_same", same_outlines_shifted(before, oo, Vec2{0, 0}) && oo.count == 2);
        log_copies<RobustPath>(w, p, res, [&](RobustPath* o, RobustPath* c, Vec2& d) {
            d = Vec2{c->trafo[2] - o->trafo[2], c->trafo[5] - o->trafo[5]};
            Array<Polygon*> co = {};
            c->to_polygons(false, 0, co);
            return same_outlines_shifted(oo, co, d) && c->num_elements == o->num_elements &&
                   c->elements[0].tag == o->elements[0].tag &&
                   c->elements[1].tag == o->elements[1].tag;
        });
    } else if (kind == "label") {
        Label* p = make_label(t0);
        add_two_props(p->properties);
        set_repetition(p->repetition, g["r"], Q);
        Vec2 o0 = p->origin;
        Array<Label*> res = {};
        p->apply_repetition(res);
        w.kb("orig_same", p->origin == o0 && strcmp(p->text, "lbl") == 0 && p->tag == t0);
        log_copies<Label>(w, p, res, [](Label* o, Label* c, Vec2& d) {
            d = c->origin - o->origin;
            return strcmp(o->text, c->text) == 0 && o->text != c->text && o->tag == c->tag &&
                   o->anchor == c->anchor && o->rotation == c->rotation &&
                   o->magnification == c->magnification && o->x_reflection == c->x_reflection;
        });
    } else if (kind == "reference") {
        Cell* cell = (Cell*)allocate_clear(sizeof(Cell));
        cell->name = copy_string("sub", NULL);
        cell->polygon_array.append(make_polygon(t0));
        Reference* p = (Reference*)allocate_clear(sizeof(Reference));
        p->init(cell);
        p->origin = Vec2{2, -1};
        p->rotation = 0.25;
        p->magnification = 2;
        p->x_reflection = true;
        add_two_props(p->properties);
        set_repetition(p->repetition, g["r"], Q);
        Array<Reference*> res = {};
        p->apply_repetition(res);
        w.kb("orig_same", p->origin == Vec2{2, -1} && p->cell == cell && p->rotation == 0.25);
        log_copies<Reference>(w, p, res, [](Reference* o, Reference* c, Vec2& d) {
            d = c->origin - o->origin;
            return o->type == c->type && o->cell == c->cell && o->rotation == c->rotation &&
                   o->magnification == c->magnification && o->x_reflection == c->x_reflection;
        });
    }
}

// element-level transforms: the repetition an element carries follows the linear part
static void case_e(const J& g, W& w) {
    const std::string& kind = g["kind"].s();
    const J& op = g["op"];
    const std::string& o = op["o"].s();
    Tag t0 = make_tag(1, 2), t1 = make_tag(3, 4);
    Vec2 c = {3, -2};
    Vec2 p0 = c, p1 = c;
    if (o == "mirror") {
        const std::string& ax = op["ax"].s();
        p1 = ax == "x" ? Vec2{c.x + 4, c.y} : (ax == "y" ? Vec2{c.x, c.y + 4} : Vec2{c.x + 3, c.y + 3});
    }
    Repetition* rep = NULL;
    Polygon* poly = NULL;
    FlexPath* fp = NULL;
    RobustPath* rp = NULL;
    Label* lb = NULL;
    Reference* rf = NULL;
    if (kind == "polygon") {
        poly = make_polygon(t0);
        rep = &poly->repetition;
    } else if (kind == "flexpath") {
        fp = make_flexpath(t0, t1);
        rep = &fp->repetition;
    } else if (kind == "robustpath") {
        rp = make_robustpath(t0, t1);
        rep = &rp->repetition;
    } else if (kind == "label") {
        lb = make_label(t0);
        rep = &lb->repetition;
    } else {
        rf = (Reference*)allocate_clear(sizeof(Reference));
        rf->init("sub");
        rf->magnification = 1;
        rep = &rf->repetition;
    }
    set_repetition(*rep, g["r"], Q);
    if (o == "scale") {
        double sx = (double)op["sx"].i(), sy = (double)op["sy"].i();
        if (poly) poly->scale(Vec2{sx, sy}, c);
        if (fp) fp->scale(sx, c);
        if (rp) rp->scale(sx, c);
    } else if (o == "mirror") {
        if (poly) poly->mirror(p0, p1);
        if (fp) fp->mirror(p0, p1);
        if (rp) rp->mirror(p0, p1);
    } else if (o == "rotate") {
        double a = rot_angle(op["rot"]);
        if (poly) poly->rotate(a, c);
        if (fp) fp->rotate(a, c);
        if (rp) rp->rotate(a, c);
    } else {
        double m = mag_value(op["mag"]), a = rot_angle(op["rot"]);
        bool f = op["refl"].t();
        if (poly) poly->transform(m, f, a, c);
        if (fp) fp->transform(m, f, a, c);
        if (rp) rp->transform(m, f, a, c);
        if (lb) lb->transform(m, f, a, c);
        if (rf) rf->transform(m, f, a, c);
    }
    bool ok = true;
    w.ks("type_after", rep_type_name(*rep));
    w.kv("count", (int64_t)rep->get_count());
    Array<Vec2> offs = {};
    rep->get_offsets(offs);
    log_offsets(w, "offsets", offs, ok);
    Array<Vec2> ext = {};
    rep->get_extrema(ext);
    log_offsets(w, "extrema", ext, ok);
    w.kb("lat", ok);
    offs.clear();
    ext.clear();
}

int main(int argc, char** argv) {
    // h_c11 <gen.ndjson> <obs.ndjson> <Q>
    if (argc < 4) return 2;
    gdstk::set_error_logger(NULL);
    Q.q = atof(argv[3]);
    std::vector<std::string> lines = read_lines(argv[1]);
    return supervise(lines, argv[2], [&](int64_t, const std::string& line, FILE* out) {
        J g = jparse(line);
        W w;
        w.begin_obj().ks("e", g["k"].s()).key("g").raw(line);
        const std::string& k = g["k"].s();
        if (k == "q") case_q(g, w);
        else if (k == "t") case_t(g, w);
        else if (k == "a") case_a(g, w);
        else if (k == "e") case_e(g, w);
        w.end_obj();
        fputs(w.s.c_str(), out);
        fputc('\n', out);
    });
}
