// Common support for the conformance harnesses: a tiny JSON reader/writer and a
// child-process supervisor that turns crashes / hangs / sanitizer aborts into trace events.
// The harness never decides a property: it only executes behaviours through gdstk's public API
// and logs what it observed; TLC validates the log against the TLA+ specification.
#pragma once
#include <assert.h>
#include <fcntl.h>
#include <math.h>
#include <signal.h>
#include <stdint.h>
#include <stdio.h>
#include <stdlib.h>
#include <string.h>
#include <sys/mman.h>
#include <sys/wait.h>
#include <unistd.h>
#include <dirent.h>

#include <exception>
#include <functional>
#include <map>
#include <string>
#include <vector>

// ------------------------------------------------------------------ JSON value
struct J {
    enum Kind { Null, Bool, Num, Str, Arr, Obj } kind = Null;
    bool b = false;
    double num = 0;
    int64_t inum = 0;
    bool is_int = false;
    std::string str;
    std::vector<J> arr;
    std::vector<std::pair<std::string, J>> obj;

    const J& operator[](const char* k) const {
        static J nul;
        for (auto& kv : obj)
            if (kv.first == k) return kv.second;
        return nul;
    }
    const J& operator[](size_t i) const { return arr[i]; }
    bool has(const char* k) const {
        for (auto& kv : obj)
            if (kv.first == k) return true;
        return false;
    }
    size_t size() const { return kind == Arr ? arr.size() : obj.size(); }
    int64_t i() const { return is_int ? inum : (int64_t)llround(num); }
    double d() const { return is_int ? (double)inum : num; }
    const std::string& s() const { return str; }
    bool t() const { return kind == Bool ? b : (kind == Num ? i() != 0 : false); }
};

struct JParser {
    const char* p;
    void ws() {
        while (*p == ' ' || *p == '\t' || *p == '\n' || *p == '\r') p++;
    }
    J parse() {
        ws();
        J v;
        if (*p == '{') {
            v.kind = J::Obj;
            p++;
            ws();
            if (*p == '}') {
                p++;
                return v;
            }
            while (true) {
                ws();
                J k = parse();
                ws();
                if (*p == ':') p++;
                J val = parse();
                v.obj.emplace_back(k.str, std::move(val));
                ws();
                if (*p == ',') {
                    p++;
                    continue;
                }
                if (*p == '}') p++;
                break;
            }
        } else if (*p == '[') {
            v.kind = J::Arr;
            p++;
            ws();
            if (*p == ']') {
                p++;
                return v;
            }
            while (true) {
                v.arr.push_back(parse());
                ws();
                if (*p == ',') {
                    p++;
                    continue;
                }
                if (*p == ']') p++;
                break;
            }
        } else if (*p == '"') {
            v.kind = J::Str;
            p++;
            while (*p && *p != '"') {
                if (*p == '\\') {
                    p++;
                    switch (*p) {
                        case 'n': v.str += '\n'; break;
                        case 't': v.str += '\t'; break;
                        case 'r': v.str += '\r'; break;
                        case 'u': {
                            unsigned code = 0;
                            sscanf(p + 1, "%4x", &code);
                            v.str += (char)code;
                            p += 4;
                            break;
                        }
                        default: v.str += *p;
                    }
                    p++;
                } else
                    v.str += *p++;
            }
            if (*p == '"') p++;
        } else if (*p == 't') {
            v.kind = J::Bool;
            v.b = true;
            p += 4;
        } else if (*p == 'f') {
            v.kind = J::Bool;
            v.b = false;
            p += 5;
        } else if (*p == 'n') {
            p += 4;
        } else {
            v.kind = J::Num;
            char* end;
            const char* q = p;
            bool isint = true;
            if (*q == '-') q++;
            while (*q >= '0' && *q <= '9') q++;
            if (*q == '.' || *q == 'e' || *q == 'E') isint = false;
            if (isint) {
                v.is_int = true;
                v.inum = strtoll(p, &end, 10);
                v.num = (double)v.inum;
            } else {
                v.num = strtod(p, &end);
            }
            if (end == p) end++;  // never loop forever on garbage
            p = end;
        }
        return v;
    }
};
static inline J jparse(const std::string& s) {
    JParser ps{s.c_str()};
    return ps.parse();
}

// ------------------------------------------------------------------ JSON writer
struct W {
    std::string s;
    bool need_comma = false;
    void sep() {
        if (need_comma) s += ',';
        need_comma = false;
    }
    W& raw(const std::string& r) {
        sep();
        s += r;
        need_comma = true;
        return *this;
    }
    W& key(const char* k) {
        sep();
        s += '"';
        s += k;
        s += "\":";
        return *this;
    }
    W& begin_obj() {
        sep();
        s += '{';
        return *this;
    }
    W& end_obj() {
        s += '}';
        need_comma = true;
        return *this;
    }
    W& begin_arr() {
        sep();
        s += '[';
        return *this;
    }
    W& end_arr() {
        s += ']';
        need_comma = true;
        return *this;
    }
    W& i(int64_t v) {
        sep();
        s += std::to_string(v);
        need_comma = true;
        return *this;
    }
    W& b(bool v) {
        sep();
        s += v ? "true" : "false";
        need_comma = true;
        return *this;
    }
    W& str(const std::string& v) {
        sep();
        s += '"';
        for (unsigned char c : v) {
            if (c == '"' || c == '\\') {
                s += '\\';
                s += (char)c;
            } else if (c < 0x20 || c > 0x7e) {
                char buf[8];
                snprintf(buf, sizeof buf, "\\u%04x", c);
                s += buf;
            } else
                s += (char)c;
        }
        s += '"';
        need_comma = true;
        return *this;
    }
    W& kv(const char* k, int64_t v) { return key(k).i(v); }
    W& kb(const char* k, bool v) { return key(k).b(v); }
    W& ks(const char* k, const std::string& v) { return key(k).str(v); }
};

// ------------------------------------------------------------------ misc
static inline int open_fd_count() {
    int n = 0;
    DIR* d = opendir("/proc/self/fd");
    if (!d) return -1;
    while (readdir(d)) n++;
    closedir(d);
    return n - 3;  // ".", "..", and the dirfd itself
}

// on-lattice conversion: returns round(x*q) and sets ok=false if x*q is not (nearly) integral
static inline int64_t lat(double x, double q, bool& ok) {
    double y = x * q;
    if (!isfinite(y) || fabs(y) > 2e9) {
        ok = false;
        return 0;
    }
    double r = nearbyint(y);
    if (fabs(y - r) > 1e-6 * fmax(1.0, fabs(y))) ok = false;
    return (int64_t)r;
}

static inline std::vector<std::string> read_lines(const char* path) {
    std::vector<std::string> lines;
    FILE* f = fopen(path, "r");
    if (!f) {
        fprintf(stderr, "cannot open %s\n", path);
        exit(2);
    }
    std::string cur;
    char buf[1 << 16];
    while (fgets(buf, sizeof buf, f)) {
        cur += buf;
        if (!cur.empty() && cur.back() == '\n') {
            cur.pop_back();
            if (!cur.empty()) lines.push_back(cur);
            cur.clear();
        }
    }
    if (!cur.empty()) lines.push_back(cur);
    fclose(f);
    return lines;
}

// ------------------------------------------------------------------ supervisor
// handler(index, line, out): executes one behaviour and appends complete log lines to `out`
// (one fputs per line; flushed by the supervisor after each behaviour).  The child handles
// behaviours sequentially; when it dies the parent appends a Crash/Hang event naming the
// behaviour that was in progress and restarts a child at the next one.  Every behaviour's
// block of lines starts with the line the handler writes first; the parent writes
// {"e":"Crash",...} *instead of* whatever the dead child had not flushed.
struct Shared {
    volatile int64_t cur;     // behaviour in progress
    volatile int64_t phase;   // handler-defined progress marker (e.g. cut position, reader id)
    volatile int64_t phase2;
};
static Shared* g_shared = nullptr;
static int g_timeout_s = 20;
// Set by the supervisor in a restarted child: the behaviour that crashed is resumed after the
// phase (e.g. cut position) that was in progress, if the handler opted in with g_resumable.
static int64_t g_resume_phase = -1;
static bool g_resumable = false;
static FILE* g_real_out = nullptr;  // handlers that flush per phase write here directly

static void die_handler(int sig) { _exit(100 + sig); }

typedef std::function<void(int64_t, const std::string&, FILE*)> Handler;

static inline int supervise(const std::vector<std::string>& lines, const char* out_path,
                            Handler handler) {
    g_shared = (Shared*)mmap(NULL, sizeof(Shared), PROT_READ | PROT_WRITE,
                             MAP_SHARED | MAP_ANONYMOUS, -1, 0);
    g_shared->cur = -1;
    FILE* trunc = fopen(out_path, "w");
    if (!trunc) {
        fprintf(stderr, "cannot write %s\n", out_path);
        return 2;
    }
    fclose(trunc);
    int64_t start = 0;
    int64_t n = (int64_t)lines.size();
    int crashes = 0;
    while (start < n) {
        fflush(NULL);
        pid_t pid = fork();
        if (pid == 0) {
            signal(SIGSEGV, die_handler);
            signal(SIGBUS, die_handler);
            signal(SIGFPE, die_handler);
            signal(SIGABRT, die_handler);
            signal(SIGALRM, die_handler);
            signal(SIGILL, die_handler);
            std::set_terminate([]() { _exit(100 + SIGABRT); });
            FILE* out = fopen(out_path, "a");
            g_real_out = out;
            for (int64_t k = start; k < n; k++) {
                // a fresh child every 1000 behaviours: harness-side leftovers (open raw-cell
                // sources, leaked worlds) must not accumulate into the behaviours that follow
                if (k - start >= 1000) {
                    fclose(out);
                    _exit(91);   // (77 is the AddressSanitizer exit code used by the runners)
                }
                g_shared->cur = k;
                g_shared->phase = -1;
                g_shared->phase2 = -1;
                if (k != start) g_resume_phase = -1;
                alarm(g_timeout_s);
                std::string buf;
                // the handler writes into a memory stream so a behaviour's lines appear
                // atomically (either all or, on a crash, none + the parent's Crash line)
                char* mem = NULL;
                size_t memlen = 0;
                FILE* ms = open_memstream(&mem, &memlen);
                handler(k, lines[k], ms);
                fclose(ms);
                alarm(0);
                fwrite(mem, 1, memlen, out);
                free(mem);
                fflush(out);
            }
            fclose(out);
            _exit(0);
        }
        int status = 0;
        waitpid(pid, &status, 0);
        if (WIFEXITED(status) && WEXITSTATUS(status) == 0) break;
        if (WIFEXITED(status) && WEXITSTATUS(status) == 91) {   // voluntary recycling
            start = g_shared->cur + 1;
            g_resume_phase = -1;
            continue;
        }
        // abnormal end
        int64_t cur = g_shared->cur;
        int code = WIFEXITED(status) ? WEXITSTATUS(status) : 100 + WTERMSIG(status);
        const char* what = "Crash";
        if (code == 100 + SIGALRM) what = "Hang";
        FILE* out = fopen(out_path, "a");
        fprintf(out, "{\"e\":\"%s\",\"i\":%lld,\"code\":%d,\"phase\":%lld,\"phase2\":%lld,\"g\":%s}\n",
                what, (long long)cur, code, (long long)g_shared->phase,
                (long long)g_shared->phase2, cur >= 0 && cur < n ? lines[cur].c_str() : "null");
        fclose(out);
        crashes++;
        if (cur < 0) break;
        if (g_resumable && g_shared->phase >= 0) {
            start = cur;  // same behaviour, continue after the phase that died
            g_resume_phase = g_shared->phase + 1;
        } else {
            start = cur + 1;
            g_resume_phase = -1;
        }
        if (crashes > 400) {
            // a tree that crashes this often has been judged: do not spend the time budget on the rest
            FILE* o2 = fopen(out_path, "a");
            fprintf(o2, "{\"e\":\"Aborted\",\"i\":%lld,\"crashes\":%d}\n", (long long)cur, crashes);
            fclose(o2);
            break;
        }
    }
    return 0;
}
