// GDSII harness (C03 C01 C17 C18): feeds specification-emitted streams to gdstk's readers and
// dumps what gdstk writes, always as projections / raw bytes for TLC to judge.
//   h_gds read   <gen.ndjson> <obs.ndjson> <tmpdir>
#include "build.hpp"

static std::string g_tmp;
static const double TARGETS[] = {0, 1e-6, 1e-9, 2e-6};

static std::string tmpfile_name(const char* tag) {
    return g_tmp + "/" + tag + "_" + std::to_string(getpid()) + ".gds";
}

static void bytes_to_file(const J& bytes, const std::string& fn) {
    std::vector<uint8_t> v;
    for (size_t i = 0; i < bytes.size(); i++) v.push_back((uint8_t)bytes[i].i());
    write_file_bytes(fn.c_str(), v);
}

static void do_read(const J& g, const std::string& line, int64_t idx, FILE* out) {
    std::string fn = tmpfile_name("rd");
    bytes_to_file(g["bytes"], fn);
    ErrorCode err = ErrorCode::NoError;
    int fd0 = open_fd_count();
    Library lib = read_gds(fn.c_str(), TARGETS[g["tgt"].i()], 0, NULL, &err);
    int fd1 = open_fd_count();
    W w;
    w.begin_obj().ks("e", "read").kv("i", idx).kv("u", g["u"].i()).kv("tgt", g["tgt"].i());
    w.kv("err", (int64_t)err).kv("fd", fd1 - fd0);
    proj_library(w, "proj", lib);
    w.end_obj();
    fputs(w.s.c_str(), out);
    fputc('\n', out);
    lib.free_all();
    unlink(fn.c_str());
}

static tm tm_of(const J& ts) {
    tm t = {};
    if (ts.size() < 6) {  // default "new" timestamp
        t.tm_year = 2031 - 1900;
        t.tm_mon = 6;
        t.tm_mday = 4;
        t.tm_hour = 5;
        t.tm_min = 6;
        t.tm_sec = 7;
        return t;
    }
    t.tm_year = (int)ts[(size_t)0].i() - 1900;
    t.tm_mon = (int)ts[(size_t)1].i() - 1;
    t.tm_mday = (int)ts[(size_t)2].i();
    t.tm_hour = (int)ts[(size_t)3].i();
    t.tm_min = (int)ts[(size_t)4].i();
    t.tm_sec = (int)ts[(size_t)5].i();
    return t;
}

static void w_file(W& w, const char* key, const std::string& fn) {
    std::vector<uint8_t> v = read_file_bytes(fn.c_str());
    w_bytes_arr(w, key, v.data(), v.size());
}

// API build -> write_gds -> (bytes) -> read_gds -> projection, three cycles
static void do_write(const J& g, int64_t idx, FILE* out) {
    Built B;
    build_library(B, g["al"]);
    tm t = tm_of(g["ts"]);
    std::string fn = tmpfile_name("wr");
    W w;
    w.begin_obj().ks("e", "write").kv("i", idx);
    int fd0 = open_fd_count();
    ErrorCode werr = B.lib.write_gds(fn.c_str(), (uint64_t)g["maxpts"].i(), &t);
    w.kv("werr", (int64_t)werr);
    w_file(w, "bytes", fn);
    w.key("projs").begin_arr();
    std::vector<int64_t> errs;
    for (int cycle = 0; cycle < 3; cycle++) {
        ErrorCode err = ErrorCode::NoError;
        Library lib = read_gds(fn.c_str(), 0, 0, NULL, &err);
        errs.push_back((int64_t)err);
        proj_library(w, NULL, lib);
        if (cycle < 2) {
            ErrorCode e2 = lib.write_gds(fn.c_str(), (uint64_t)g["maxpts"].i(), &t);
            errs.push_back((int64_t)e2);
        }
        lib.free_all();
    }
    w.end_arr();
    w.key("errs").begin_arr();
    for (int64_t e : errs) w.i(e);
    w.end_arr();
    w.kv("fd", open_fd_count() - fd0);
    w.end_obj();
    fputs(w.s.c_str(), out);
    fputc('\n', out);
    unlink(fn.c_str());
}

static void w_tm(W& w, const char* key, const tm& t) {
    w.key(key).begin_arr().i(t.tm_year + 1900).i(t.tm_mon + 1).i(t.tm_mday).i(t.tm_hour)
        .i(t.tm_min).i(t.tm_sec).end_arr();
}
static void w_tagset(W& w, const char* key, Set<Tag>& s) {
    w.key(key).begin_arr();
    for (SetItem<Tag>* it = s.next(NULL); it; it = s.next(it))
        w.begin_arr().i(get_layer(it->value)).i(get_type(it->value)).end_arr();
    w.end_arr();
}

// C17: a file with ONE long record (a polygon of n vertices written unfractured) followed by more
// content; the summary readers against the full reader, by counts (the bytes are not logged)
static void do_biginfo(const J& g, int64_t idx, FILE* out) {
    std::string fn = tmpfile_name("bi");
    int64_t n = g["n"].i();
    Library lib = {};
    lib.init("BIG", 1e-6, 1e-9);
    Cell* c1 = (Cell*)allocate_clear(sizeof(Cell));
    c1->name = copy_string("LONG", NULL);
    Cell* c2 = (Cell*)allocate_clear(sizeof(Cell));
    c2->name = copy_string("AFTER", NULL);
    lib.cell_array.append(c1);
    lib.cell_array.append(c2);
    Polygon* p = (Polygon*)allocate_clear(sizeof(Polygon));
    p->tag = make_tag(5, 1);
    for (int64_t i = 0; i < n; i++) {
        double a = 2 * M_PI * (double)i / (double)n;
        p->point_array.append(Vec2{1000 * cos(a), 1000 * sin(a)});
    }
    c1->polygon_array.append(p);
    Polygon* q = (Polygon*)allocate_clear(sizeof(Polygon));
    q->tag = make_tag(9, 2);
    q->point_array.append(Vec2{0, 0});
    q->point_array.append(Vec2{2, 0});
    q->point_array.append(Vec2{0, 3});
    c1->polygon_array.append(q);
    Label* l = (Label*)allocate_clear(sizeof(Label));
    l->init("after");
    l->tag = make_tag(11, 3);
    l->magnification = 1;
    c2->label_array.append(l);
    tm t0 = {};
    t0.tm_year = 100;
    t0.tm_mday = 1;
    ErrorCode we = lib.write_gds(fn.c_str(), 0, &t0);
    W w;
    w.begin_obj().ks("e", "biginfo").kv("i", idx).kv("n", n).kv("werr", (int64_t)we);
    int fd0 = open_fd_count();
    ErrorCode err = ErrorCode::NoError;
    Library full = read_gds(fn.c_str(), 0, 0, NULL, &err);
    int64_t fp = 0, fl = 0, fmaxv = 0;
    for (uint64_t i = 0; i < full.cell_array.count; i++) {
        fp += (int64_t)full.cell_array[i]->polygon_array.count;
        fl += (int64_t)full.cell_array[i]->label_array.count;
        for (uint64_t k = 0; k < full.cell_array[i]->polygon_array.count; k++)
            fmaxv = std::max(fmaxv, (int64_t)full.cell_array[i]->polygon_array[k]->point_array.count);
    }
    w.key("full").begin_obj().kv("err", (int64_t)err).kv("ncell", (int64_t)full.cell_array.count)
        .kv("npoly", fp).kv("nlabel", fl).kv("maxv", fmaxv).end_obj();
    full.free_all();
    {
        LibraryInfo info = {};
        ErrorCode e = gds_info(fn.c_str(), info);
        w.key("info").begin_obj().kv("err", (int64_t)e).kv("ncell", (int64_t)info.cell_names.count);
        w.kv("npoly", (int64_t)info.num_polygons).kv("nlabel", (int64_t)info.num_labels);
        w_tagset(w, "stags", info.shape_tags);
        w_tagset(w, "ltags", info.label_tags);
        w.end_obj();
        info.clear();
    }
    {
        double unit = 0, prec = 0;
        ErrorCode e = gds_units(fn.c_str(), unit, prec);
        ErrorCode te = ErrorCode::NoError;
        tm t = gds_timestamp(fn.c_str(), NULL, &te);
        w.kv("units_err", (int64_t)e).kv("ts_err", (int64_t)te).kv("ts_year", (int64_t)t.tm_year + 1900);
        ErrorCode re = ErrorCode::NoError;
        Map<RawCell*> raws = read_rawcells(fn.c_str(), &re);
        w.kv("raw_err", (int64_t)re).kv("nraw", (int64_t)raws.count);
        for (MapItem<RawCell*>* it = raws.next(NULL); it; it = raws.next(it)) {
            it->value->clear();
            free_allocation(it->value);
        }
        raws.clear();
    }
    w.kv("fd", open_fd_count() - fd0);
    w.end_obj();
    fputs(w.s.c_str(), out);
    fputc('\n', out);
    lib.free_all();
    unlink(fn.c_str());
}

// C17: every partial / alternative reader on one file
static void do_partial(const J& g, int64_t idx, FILE* out) {
    if (g.has("k") && g["k"].s() == "biginfo") {
        do_biginfo(g, idx, out);
        return;
    }
    std::string fn = tmpfile_name("pt");
    tm t0 = {};
    if (g.has("bytes")) {
        bytes_to_file(g["bytes"], fn);
    } else {
        Built B;
        build_library(B, g["al"]);
        t0 = tm_of(g["ts"]);
        B.lib.write_gds(fn.c_str(), 0, &t0);
    }
    W w;
    w.begin_obj().ks("e", "partial").kv("i", idx).kv("u", g["u"].i());
    int fd0 = open_fd_count();
    w_file(w, "bytes", fn);
    ErrorCode err = ErrorCode::NoError;
    Library full = read_gds(fn.c_str(), 0, 0, NULL, &err);
    w.kv("err", (int64_t)err);
    proj_library(w, "full", full);
    // summary
    {
        LibraryInfo info = {};
        ErrorCode e = gds_info(fn.c_str(), info);
        w.key("info").begin_obj().kv("err", (int64_t)e);
        w.key("cells").begin_arr();
        for (uint64_t i = 0; i < info.cell_names.count; i++) {
            w.begin_arr();
            for (const unsigned char* c = (const unsigned char*)info.cell_names[i]; *c; c++) w.i(*c);
            w.end_arr();
        }
        w.end_arr();
        w.kv("npoly", (int64_t)info.num_polygons).kv("npath", (int64_t)info.num_paths);
        w.kv("nref", (int64_t)info.num_references).kv("nlabel", (int64_t)info.num_labels);
        w_tagset(w, "stags", info.shape_tags);
        w_tagset(w, "ltags", info.label_tags);
        w_dbl8(w, "unit", info.unit);
        w_dbl8(w, "precision", info.precision);
        w.end_obj();
        info.clear();
    }
    {
        double unit = 0, prec = 0;
        ErrorCode e = gds_units(fn.c_str(), unit, prec);
        w.key("units").begin_obj().kv("err", (int64_t)e);
        w_dbl8(w, "unit", unit);
        w_dbl8(w, "precision", prec);
        w.end_obj();
    }
    {
        ErrorCode e = ErrorCode::NoError;
        tm t = gds_timestamp(fn.c_str(), NULL, &e);
        w.key("ts").begin_obj().kv("err", (int64_t)e);
        w_tm(w, "t", t);
        w.end_obj();
    }
    // tag filters: subsets of the shape tags in use (+ a tag nothing uses)
    {
        Set<Tag> all = {};
        full.get_shape_tags(all);
        Array<Tag> tags = {};
        all.to_array(tags);
        std::vector<std::vector<Tag>> subsets;
        subsets.push_back({});
        if (tags.count) subsets.push_back({tags[0]});
        if (tags.count > 1) subsets.push_back({tags[tags.count - 1], make_tag(999, 999)});
        std::vector<Tag> everything(tags.items, tags.items + tags.count);
        subsets.push_back(everything);
        w.key("filters").begin_arr();
        for (auto& sub : subsets) {
            Set<Tag> f = {};
            for (Tag t : sub) f.add(t);
            ErrorCode e = ErrorCode::NoError;
            Library lib = read_gds(fn.c_str(), 0, 0, &f, &e);
            w.begin_obj().kv("err", (int64_t)e);
            w_tagset(w, "tags", f);
            proj_library(w, "proj", lib);
            w.end_obj();
            lib.free_all();
            f.clear();
        }
        w.end_arr();
        all.clear();
        tags.clear();
    }
    // target units
    w.key("targets").begin_arr();
    for (int k = 1; k <= 3; k++) {
        ErrorCode e = ErrorCode::NoError;
        Library lib = read_gds(fn.c_str(), TARGETS[k], 0, NULL, &e);
        w.begin_obj().kv("tgt", k).kv("err", (int64_t)e);
        proj_library(w, "proj", lib);
        w.end_obj();
        lib.free_all();
    }
    w.end_arr();
    // raw cells copied into a new file
    {
        w.key("raws").begin_arr();
        uint64_t ncells = full.cell_array.count;
        std::vector<std::vector<std::string>> subsets;
        std::vector<std::string> allnames;
        for (uint64_t i = 0; i < ncells; i++) allnames.push_back(full.cell_array[i]->name);
        subsets.push_back(allnames);
        for (uint64_t i = 0; i < ncells && i < 3; i++) subsets.push_back({allnames[i]});
        if (ncells > 2) subsets.push_back({allnames[ncells - 1], allnames[0]});
        for (auto& sub : subsets) {
            ErrorCode e = ErrorCode::NoError;
            Map<RawCell*> raws = read_rawcells(fn.c_str(), &e);
            Library nl = {};
            nl.init("RAWLIB", full.unit, full.precision);
            w.begin_obj().kv("err", (int64_t)e).kv("nraw", (int64_t)raws.count);
            w.key("cells").begin_arr();
            for (auto& nm : sub) {
                RawCell* r = raws.get(nm.c_str());
                w.begin_arr();
                for (unsigned char c : nm) w.i(c);
                w.end_arr();
                if (r) nl.rawcell_array.append(r);
            }
            w.end_arr();
            // dependencies as read_rawcells reports them
            w.key("deps").begin_arr();
            for (uint64_t i = 0; i < nl.rawcell_array.count; i++) {
                w.begin_arr();
                for (uint64_t k = 0; k < nl.rawcell_array[i]->dependencies.count; k++) {
                    w.begin_arr();
                    for (const unsigned char* c =
                             (const unsigned char*)nl.rawcell_array[i]->dependencies[k]->name; *c; c++)
                        w.i(*c);
                    w.end_arr();
                }
                w.end_arr();
            }
            w.end_arr();
            std::string fn2 = tmpfile_name("rw");
            tm tt = tm_of(g["ts2"]);
            ErrorCode we = nl.write_gds(fn2.c_str(), 0, &tt);
            w.kv("werr", (int64_t)we);
            ErrorCode re = ErrorCode::NoError;
            Library back = read_gds(fn2.c_str(), 0, 0, NULL, &re);
            w.kv("rerr", (int64_t)re);
            proj_library(w, "proj", back);
            if (&sub == &subsets[0]) {
                // the new file carries the requested stamp in BGNLIB but the raw cells keep the stamps
                // of the file they came from: setting the SAME stamp again must still rewrite every BGNSTR
                w_file(w, "file", fn2);
                ErrorCode te = ErrorCode::NoError;
                gds_timestamp(fn2.c_str(), &tt, &te);
                w.kv("rs_err", (int64_t)te);
                w_tm(w, "rs_new", tt);
                w_file(w, "restamped", fn2);
            }
            w.end_obj();
            back.free_all();
            nl.clear();
            for (MapItem<RawCell*>* it = raws.next(NULL); it; it = raws.next(it)) {
                it->value->clear();
                free_allocation(it->value);
            }
            raws.clear();
            unlink(fn2.c_str());
        }
        w.end_arr();
    }
    // rewriting timestamps
    {
        tm nt = tm_of(g["ts2"]);
        ErrorCode e = ErrorCode::NoError;
        tm old = gds_timestamp(fn.c_str(), &nt, &e);
        w.key("restamp").begin_obj().kv("err", (int64_t)e);
        w_tm(w, "old", old);
        w_tm(w, "new", nt);
        w_file(w, "bytes", fn);
        w.end_obj();
    }
    w.kv("fd", open_fd_count() - fd0);
    w.end_obj();
    fputs(w.s.c_str(), out);
    fputc('\n', out);
    full.free_all();
    unlink(fn.c_str());
}

// C18: every prefix of a file through every reader, twice.  Lines are flushed per cut so that a
// crash loses nothing; the supervisor resumes after the cut that died.
static void do_trunc(const J& g, int64_t idx, FILE*) {
    FILE* out = g_real_out;
    std::string fn = tmpfile_name("tr");
    bool oas = g.has("fmt") && g["fmt"].s() == "oas";
    if (g.has("bytes")) {
        bytes_to_file(g["bytes"], fn);
    } else {
        Built B;
        build_library(B, g["al"]);
        tm t0 = tm_of(g["ts"]);
        if (oas) B.lib.write_oas(fn.c_str(), 0, (uint8_t)g["level"].i(), (uint16_t)g["flags"].i());
        else B.lib.write_gds(fn.c_str(), 0, &t0);
    }
    std::vector<uint8_t> bytes = read_file_bytes(fn.c_str());
    int64_t n = (int64_t)bytes.size();
    if (g_resume_phase < 0) {
        // facts about the complete file
        W w;
        w.begin_obj().ks("e", "file").kv("f", idx).ks("kind", oas ? "oas" : "gds").kv("n", n);
        if (!oas) {
            double unit = 0, prec = 0;
            ErrorCode e = gds_units(fn.c_str(), unit, prec);
            w.kv("uerr", (int64_t)e);
            w_dbl8(w, "unit", unit);
            w_dbl8(w, "precision", prec);
            ErrorCode te = ErrorCode::NoError;
            tm t = gds_timestamp(fn.c_str(), NULL, &te);
            w.kv("terr", (int64_t)te);
            w_tm(w, "ts", t);
        } else {
            double prec = 0;
            ErrorCode e = oas_precision(fn.c_str(), prec);
            w.kv("perr", (int64_t)e);
            w_dbl8(w, "precision", prec);
            uint32_t sig = 0;
            ErrorCode ve = ErrorCode::NoError;
            bool ok = oas_validate(fn.c_str(), &sig, &ve);
            w.kb("valid", ok).kv("verr", (int64_t)ve);
            w.kv("scheme", (g["flags"].i() & 0x40) ? 1 : (g["flags"].i() & 0x80) ? 2 : 0);
        }
        w.end_obj();
        fputs(w.s.c_str(), out);
        fputc('\n', out);
        fflush(out);
    }
    std::string cutfn = tmpfile_name("cut");
    int64_t k0 = g_resume_phase >= 0 ? g_resume_phase : 0;
    int64_t step = g.has("step") ? g["step"].i() : 1;
    for (int64_t k = k0; k < n; k += (k < 64 || k > n - 64 ? 1 : step)) {
        g_shared->phase = k;
        alarm(g_timeout_s);
        std::vector<uint8_t> pre(bytes.begin(), bytes.begin() + k);
        write_file_bytes(cutfn.c_str(), pre);
        W w;
        w.begin_obj().ks("e", "cut").kv("f", idx).kv("k", k).key("calls").begin_arr();
        for (int rep = 0; rep < 2; rep++) {
            if (!oas) {
                {
                    g_shared->phase2 = 1;
                    int fd0 = open_fd_count();
                    ErrorCode e = ErrorCode::NoError;
                    Library lib = read_gds(cutfn.c_str(), 0, 0, NULL, &e);
                    int fd = open_fd_count() - fd0;
                    w.begin_obj().ks("rd", "read_gds").kv("err", (int64_t)e).kv("fd", fd);
                    w.kv("ncells", (int64_t)lib.cell_array.count).kb("named", lib.name != NULL).end_obj();
                    lib.free_all();
                }
                {
                    g_shared->phase2 = 2;
                    int fd0 = open_fd_count();
                    ErrorCode e = ErrorCode::NoError;
                    Map<RawCell*> raws = read_rawcells(cutfn.c_str(), &e);
                    int fd = open_fd_count() - fd0;
                    w.begin_obj().ks("rd", "read_rawcells").kv("err", (int64_t)e).kv("fd", fd);
                    w.kv("n", (int64_t)raws.count).end_obj();
                    for (MapItem<RawCell*>* it = raws.next(NULL); it; it = raws.next(it)) {
                        it->value->clear();
                        free_allocation(it->value);
                    }
                    raws.clear();
                }
                {
                    g_shared->phase2 = 3;
                    int fd0 = open_fd_count();
                    LibraryInfo info = {};
                    ErrorCode e = gds_info(cutfn.c_str(), info);
                    int fd = open_fd_count() - fd0;
                    w.begin_obj().ks("rd", "gds_info").kv("err", (int64_t)e).kv("fd", fd).end_obj();
                    info.clear();
                }
                {
                    g_shared->phase2 = 4;
                    int fd0 = open_fd_count();
                    double unit = 0, prec = 0;
                    ErrorCode e = gds_units(cutfn.c_str(), unit, prec);
                    int fd = open_fd_count() - fd0;
                    w.begin_obj().ks("rd", "gds_units").kv("err", (int64_t)e).kv("fd", fd);
                    w_dbl8(w, "unit", unit);
                    w_dbl8(w, "precision", prec);
                    w.end_obj();
                }
                {
                    g_shared->phase2 = 5;
                    int fd0 = open_fd_count();
                    ErrorCode e = ErrorCode::NoError;
                    tm t = gds_timestamp(cutfn.c_str(), NULL, &e);
                    int fd = open_fd_count() - fd0;
                    w.begin_obj().ks("rd", "gds_timestamp").kv("err", (int64_t)e).kv("fd", fd);
                    w_tm(w, "ts", t);
                    w.end_obj();
                }
            } else {
                {
                    g_shared->phase2 = 6;
                    int fd0 = open_fd_count();
                    double prec = 0;
                    ErrorCode e = oas_precision(cutfn.c_str(), prec);
                    int fd = open_fd_count() - fd0;
                    w.begin_obj().ks("rd", "oas_precision").kv("err", (int64_t)e).kv("fd", fd);
                    w_dbl8(w, "precision", prec);
                    w.end_obj();
                }
                {
                    g_shared->phase2 = 7;
                    int fd0 = open_fd_count();
                    uint32_t sig = 0;
                    ErrorCode e = ErrorCode::NoError;
                    bool ok = oas_validate(cutfn.c_str(), &sig, &e);
                    int fd = open_fd_count() - fd0;
                    w.begin_obj().ks("rd", "oas_validate").kv("err", (int64_t)e).kv("fd", fd);
                    w.kb("valid", ok).end_obj();
                }
            }
        }
        w.end_arr().end_obj();
        alarm(0);
        fputs(w.s.c_str(), out);
        fputc('\n', out);
        fflush(out);
    }
    unlink(cutfn.c_str());
    unlink(fn.c_str());
}

int main(int argc, char** argv) {
    if (argc < 5) return 2;
    gdstk::set_error_logger(NULL);
    std::string mode = argv[1];
    g_tmp = argv[4];
    std::vector<std::string> lines = read_lines(argv[2]);
    if (mode == "trunc") {
        g_resumable = true;
        g_timeout_s = 10;
    }
    return supervise(lines, argv[3], [&](int64_t k, const std::string& line, FILE* out) {
        J g = jparse(line);
        if (mode == "read") do_read(g, line, k, out);
        else if (mode == "write") do_write(g, k, out);
        else if (mode == "partial") do_partial(g, k, out);
        else if (mode == "trunc") do_trunc(g, k, out);
    });
}
