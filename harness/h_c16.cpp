// C16 harness: builds a real gdstk Library from the initial state exported by TLC
// (MC_LibGraph.tla), executes the generated edit history through the public API and logs the
// projected cell graph plus every query after each call.  TLC (C16Trace.tla) is the judge.
#include <gdstk/gdstk.hpp>

#include "common.hpp"

using namespace gdstk;

static std::string g_tmpdir;

// t1 is the all-zero tag (layer 0, type 0): containers keyed by tags must not treat it as "empty"
static Tag tag_of(const std::string& t) {
    int n = atoi(t.c_str() + 1) - 1;
    return make_tag((uint32_t)n, (uint32_t)(2 * n));
}
static std::string tag_name(Tag t) {
    uint32_t n = get_layer(t);
    if (get_type(t) != 2 * n) return "t?" + std::to_string(n) + "/" + std::to_string(get_type(t));
    return "t" + std::to_string(n + 1);
}

struct World {
    std::vector<std::string> cell_ids, raw_ids;
    std::map<std::string, Cell*> cells;
    std::map<std::string, RawCell*> raws;
    Library lib = {};
    std::map<std::string, TagMap> tagmaps;

    std::string id_of(const Cell* c) const {
        for (auto& kv : cells)
            if (kv.second == c) return kv.first;
        return "?cell";
    }
    std::string id_of(const RawCell* r) const {
        for (auto& kv : raws)
            if (kv.second == r) return kv.first;
        return "?raw";
    }
};

static Polygon* mk_poly(Tag tag) {
    Polygon* p = (Polygon*)allocate_clear(sizeof(Polygon));
    p->tag = tag;
    p->point_array.append(Vec2{0, 0});
    p->point_array.append(Vec2{1, 0});
    p->point_array.append(Vec2{0, 1});
    return p;
}
static FlexPath* mk_flex(Tag tag) {
    FlexPath* f = (FlexPath*)allocate_clear(sizeof(FlexPath));
    double w = 0.1, o = 0;
    f->init(Vec2{0, 0}, 1, &w, &o, 0.01, &tag);
    f->segment(Vec2{2, 0}, NULL, NULL, false);
    return f;
}
static RobustPath* mk_robust(Tag tag) {
    RobustPath* r = (RobustPath*)allocate_clear(sizeof(RobustPath));
    double w = 0.1, o = 0;
    r->init(Vec2{0, 0}, 1, &w, &o, 0.01, 1000, &tag);
    r->segment(Vec2{2, 0}, NULL, NULL, false);
    return r;
}
static Label* mk_label(Tag tag) {
    Label* l = (Label*)allocate_clear(sizeof(Label));
    l->tag = tag;
    l->text = copy_string("L", NULL);
    l->magnification = 1;
    return l;
}

static void build_world(World& w, const J& init) {
    w.lib.init("lib", 1e-6, 1e-9);
    const J& names = init["name"];
    for (auto& kv : names.obj) {
        if (kv.first[0] == 'c') w.cell_ids.push_back(kv.first);
        else w.raw_ids.push_back(kv.first);
    }
    // raw cells: one temporary GDSII file per file group, read back with read_rawcells
    std::map<int64_t, std::vector<std::string>> groups;
    for (auto& r : w.raw_ids) groups[init["rawfile"][r.c_str()].i()].push_back(r);
    for (auto& g : groups) {
        Library tmp = {};
        tmp.init("raw", 1e-6, 1e-9);
        for (auto& r : g.second) {
            Cell* c = (Cell*)allocate_clear(sizeof(Cell));
            c->name = copy_string(names[r.c_str()].s().c_str(), NULL);
            c->polygon_array.append(mk_poly(make_tag(9, 9)));
            const J& deps = init["rawdeps"][r.c_str()];
            for (size_t i = 0; i < deps.size(); i++) {
                Reference* ref = (Reference*)allocate_clear(sizeof(Reference));
                ref->init(names[deps[i].s().c_str()].s().c_str());
                c->reference_array.append(ref);
            }
            tmp.cell_array.append(c);
        }
        std::string fn = g_tmpdir + "/raw_" + std::to_string(getpid()) + "_" +
                         std::to_string(g.first) + ".gds";
        tmp.write_gds(fn.c_str(), 0, NULL);
        ErrorCode err = ErrorCode::NoError;
        Map<RawCell*> m = read_rawcells(fn.c_str(), &err);
        for (auto& r : g.second) w.raws[r] = m.get(names[r.c_str()].s().c_str());
        m.clear();
        unlink(fn.c_str());
    }
    for (auto& c : w.cell_ids) {
        Cell* cell = (Cell*)allocate_clear(sizeof(Cell));
        cell->name = copy_string(names[c.c_str()].s().c_str(), NULL);
        w.cells[c] = cell;
    }
    for (auto& c : w.cell_ids) {
        Cell* cell = w.cells[c];
        const J& sh = init["shapes"][c.c_str()];
        for (size_t i = 0; i < sh.size(); i++) {
            Tag t = tag_of(sh[i].s());
            if (i % 3 == 0) cell->polygon_array.append(mk_poly(t));
            else if (i % 3 == 1) cell->flexpath_array.append(mk_flex(t));
            else cell->robustpath_array.append(mk_robust(t));
        }
        const J& lb = init["labels"][c.c_str()];
        for (size_t i = 0; i < lb.size(); i++) cell->label_array.append(mk_label(tag_of(lb[i].s())));
        const J& rf = init["refs"][c.c_str()];
        for (size_t i = 0; i < rf.size(); i++) {
            Reference* ref = (Reference*)allocate_clear(sizeof(Reference));
            const std::string& k = rf[i]["kind"].s();
            const std::string& t = rf[i]["tgt"].s();
            if (k == "cell") ref->init(w.cells[t]);
            else if (k == "raw") ref->init(w.raws[t]);
            else ref->init(t.c_str());
            cell->reference_array.append(ref);
        }
    }
    for (size_t i = 0; i < init["members"].size(); i++)
        w.lib.cell_array.append(w.cells[init["members"][i].s()]);
    for (size_t i = 0; i < init["rmembers"].size(); i++)
        w.lib.rawcell_array.append(w.raws[init["rmembers"][i].s()]);
    for (auto& kv : init["tagmaps"].obj) {
        TagMap tm = {};
        for (auto& e : kv.second.obj) tm.set(tag_of(e.first), tag_of(e.second.s()));
        // entries for tags nothing uses, so that the map has grown past its first capacity
        for (uint32_t q = 0; q < 4; q++) tm.set(make_tag(100 + 2 * q, 1), make_tag(101 + 2 * q, 1));
        // The same abstract map reached through retractions: every real mapping c -> v is taken out,
        // two unused keys whose home slots are c's and the one after it are inserted, c is put back
        // (now displaced past both) and the first unused key is retracted again (set(a, a) / del(a)
        // alternately) while the second stays.  No insertion follows the retractions, so nothing
        // re-hashes the table: lookups of c must survive del's re-packing alone.
        tm.del(make_tag(100, 1));
        tm.del(make_tag(102, 1));
        uint64_t cap = tm.capacity;
        for (int attempt = 0; attempt < 4 && cap > 0; attempt++) {
            TagMap trial = {};
            trial.copy_from(tm);
            std::vector<Tag> first;
            std::vector<std::pair<Tag, Tag>> real;
            for (auto& e : kv.second.obj) {
                Tag c = tag_of(e.first), v = tag_of(e.second.s());
                if (c != v) real.push_back({c, v});
            }
            uint32_t layer = 200;
            for (auto& cv : real) {
                uint64_t h = hash<Tag>(cv.first) % cap;
                Tag ja = 0, jb = 0;
                for (; layer < 60000 && (ja == 0 || jb == 0); layer++) {
                    Tag t = make_tag(layer, 1);
                    uint64_t ht = hash<Tag>(t) % cap;
                    if (ja == 0 && ht == h) ja = t;
                    else if (jb == 0 && ht == (h + 1) % cap) jb = t;
                }
                trial.del(cv.first);
                trial.set(ja, make_tag(9999, 2));
                trial.set(jb, make_tag(9999, 3));
                first.push_back(ja);
            }
            for (auto& cv : real) trial.set(cv.first, cv.second);
            if (trial.capacity != cap) {  // the table grew: home slots were computed for the wrong size
                cap = trial.capacity;
                trial.clear();
                continue;
            }
            for (size_t i = 0; i < first.size(); i++) {
                if (i % 2 == 0) trial.set(first[i], first[i]);
                else trial.del(first[i]);
            }
            tm.clear();
            tm = trial;
            break;
        }
        w.tagmaps[kv.first] = tm;
    }
}

static void log_refs(W& w, const World& wd, const Cell* cell) {
    w.begin_arr();
    for (uint64_t i = 0; i < cell->reference_array.count; i++) {
        Reference* r = cell->reference_array[i];
        w.begin_obj();
        if (r->type == ReferenceType::Cell) w.ks("kind", "cell").ks("tgt", wd.id_of(r->cell));
        else if (r->type == ReferenceType::RawCell)
            w.ks("kind", "raw").ks("tgt", wd.id_of(r->rawcell));
        else w.ks("kind", "name").ks("tgt", r->name);
        w.end_obj();
    }
    w.end_arr();
}
static void log_shapes(W& w, const Cell* cell) {
    w.begin_arr();
    for (uint64_t i = 0; i < cell->polygon_array.count; i++)
        w.str(tag_name(cell->polygon_array[i]->tag));
    for (uint64_t i = 0; i < cell->flexpath_array.count; i++)
        for (uint64_t e = 0; e < cell->flexpath_array[i]->num_elements; e++)
            w.str(tag_name(cell->flexpath_array[i]->elements[e].tag));
    for (uint64_t i = 0; i < cell->robustpath_array.count; i++)
        for (uint64_t e = 0; e < cell->robustpath_array[i]->num_elements; e++)
            w.str(tag_name(cell->robustpath_array[i]->elements[e].tag));
    w.end_arr();
}
static void log_labels(W& w, const Cell* cell) {
    w.begin_arr();
    for (uint64_t i = 0; i < cell->label_array.count; i++)
        w.str(tag_name(cell->label_array[i]->tag));
    w.end_arr();
}
static void log_tagset(W& w, Set<Tag>& s) {
    w.begin_arr();
    for (SetItem<Tag>* it = s.next(NULL); it; it = s.next(it)) w.str(tag_name(it->value));
    w.end_arr();
    s.clear();
}

static void project(W& w, World& wd) {
    Library& lib = wd.lib;
    w.key("members").begin_arr();
    for (uint64_t i = 0; i < lib.cell_array.count; i++) w.str(wd.id_of(lib.cell_array[i]));
    w.end_arr();
    w.key("rmembers").begin_arr();
    for (uint64_t i = 0; i < lib.rawcell_array.count; i++) w.str(wd.id_of(lib.rawcell_array[i]));
    w.end_arr();
    w.key("name").begin_obj();
    for (auto& kv : wd.cells) w.ks(kv.first.c_str(), kv.second->name);
    for (auto& kv : wd.raws) w.ks(kv.first.c_str(), kv.second->name);
    w.end_obj();
    w.key("refs").begin_obj();
    for (auto& kv : wd.cells) {
        w.key(kv.first.c_str());
        log_refs(w, wd, kv.second);
    }
    w.end_obj();
    w.key("shapes").begin_obj();
    for (auto& kv : wd.cells) {
        w.key(kv.first.c_str());
        log_shapes(w, kv.second);
    }
    w.end_obj();
    w.key("labels").begin_obj();
    for (auto& kv : wd.cells) {
        w.key(kv.first.c_str());
        log_labels(w, kv.second);
    }
    w.end_obj();
    // queries
    Array<Cell*> top = {};
    Array<RawCell*> rtop = {};
    lib.top_level(top, rtop);
    w.key("top").begin_arr();
    for (uint64_t i = 0; i < top.count; i++) w.str(wd.id_of(top[i]));
    w.end_arr();
    w.key("rtop").begin_arr();
    for (uint64_t i = 0; i < rtop.count; i++) w.str(wd.id_of(rtop[i]));
    w.end_arr();
    top.clear();
    rtop.clear();
    w.key("deps").begin_obj();
    for (uint64_t i = 0; i < lib.cell_array.count; i++) {
        Cell* c = lib.cell_array[i];
        w.key(wd.id_of(c).c_str()).begin_obj();
        for (int rec = 0; rec < 2; rec++) {
            Map<Cell*> m = {};
            c->get_dependencies(rec, m);
            w.key(rec ? "rec" : "direct").begin_arr();
            for (MapItem<Cell*>* it = m.next(NULL); it; it = m.next(it)) w.str(wd.id_of(it->value));
            w.end_arr();
            m.clear();
            Map<RawCell*> rm = {};
            c->get_raw_dependencies(rec, rm);
            w.key(rec ? "rawrec" : "rawdirect").begin_arr();
            for (MapItem<RawCell*>* it = rm.next(NULL); it; it = rm.next(it))
                w.str(wd.id_of(it->value));
            w.end_arr();
            rm.clear();
        }
        w.end_obj();
    }
    w.end_obj();
    Set<Tag> st = {};
    lib.get_shape_tags(st);
    w.key("stags");
    log_tagset(w, st);
    Set<Tag> lt = {};
    lib.get_label_tags(lt);
    w.key("ltags");
    log_tagset(w, lt);
    w.key("cstags").begin_obj();
    for (uint64_t i = 0; i < lib.cell_array.count; i++) {
        Set<Tag> s = {};
        lib.cell_array[i]->get_shape_tags(s);
        w.key(wd.id_of(lib.cell_array[i]).c_str());
        log_tagset(w, s);
    }
    w.end_obj();
    // get_cell / get_rawcell by name for every name in use
    w.key("bynames").begin_obj();
    for (auto& kv : wd.cells) {
        Cell* c = lib.get_cell(kv.second->name);
        RawCell* r = lib.get_rawcell(kv.second->name);
        w.ks(kv.second->name, c ? wd.id_of(c) : r ? wd.id_of(r) : "none");
    }
    w.end_obj();
}

static void log_copy_cell(W& w, const World& wd, const Cell* c, bool by_id) {
    w.begin_obj().ks("id", by_id ? wd.id_of(c) : "new").ks("name", c->name);
    w.key("refs");
    log_refs(w, wd, c);
    w.key("shapes");
    log_shapes(w, c);
    w.key("labels");
    log_labels(w, c);
    w.end_obj();
}

static void history(const J& g, FILE* out, const std::string& line) {
    World wd;
    build_world(wd, g["init"]);
    fprintf(out, "{\"e\":\"Reset\",\"g\":%s}\n", line.c_str());
    {
        W w;
        w.begin_obj().ks("e", "init").ks("a", "").ks("b", "");
        project(w, wd);
        w.end_obj();
        fputs(w.s.c_str(), out);
        fputc('\n', out);
    }
    const J& h = g["h"];
    for (size_t s = 0; s < h.size(); s++) {
        const std::string& op = h[s]["op"].s();
        const std::string& a = h[s]["a"].s();
        const std::string& b = h[s]["b"].s();
        W w;
        w.begin_obj().ks("e", op).ks("a", a).ks("b", b);
        if (op == "rename") {
            // alternate between the two overloads
            if (s % 2 == 0) wd.lib.rename_cell(wd.cells[a], b.c_str());
            else wd.lib.rename_cell(wd.cells[a]->name, b.c_str());
        } else if (op == "replace") {
            bool ac = a[0] == 'c', bc = b[0] == 'c';
            if (ac && bc) wd.lib.replace_cell(wd.cells[a], wd.cells[b]);
            else if (ac && !bc) wd.lib.replace_cell(wd.cells[a], wd.raws[b]);
            else if (!ac && bc) wd.lib.replace_cell(wd.raws[a], wd.cells[b]);
            else wd.lib.replace_cell(wd.raws[a], wd.raws[b]);
        } else if (op == "remap") {
            wd.lib.remap_tags(wd.tagmaps[a]);
        } else if (op == "add") {
            wd.lib.cell_array.append(wd.cells[a]);
        } else if (op == "remove") {
            wd.lib.cell_array.remove_item(wd.cells[a]);
        } else if (op == "copylib") {
            bool deep = a == "deep";
            Library cp = {};
            cp.copy_from(wd.lib, deep);
            w.key("copy").begin_obj().ks("libname", cp.name);
            w.key("cells").begin_arr();
            for (uint64_t i = 0; i < cp.cell_array.count; i++)
                log_copy_cell(w, wd, cp.cell_array[i], !deep);
            w.end_arr();
            w.key("raws").begin_arr();
            for (uint64_t i = 0; i < cp.rawcell_array.count; i++)
                w.str(wd.id_of(cp.rawcell_array[i]));
            w.end_arr().end_obj();
            // mutate the copy: the source must not notice
            if (deep) {
                for (uint64_t i = 0; i < cp.cell_array.count; i++) {
                    Cell* c = cp.cell_array[i];
                    c->name[0] = 'X';
                    for (uint64_t j = 0; j < c->polygon_array.count; j++)
                        c->polygon_array[j]->tag = make_tag(77, 77);
                    for (uint64_t j = 0; j < c->label_array.count; j++)
                        c->label_array[j]->tag = make_tag(77, 77);
                    for (uint64_t j = 0; j < c->reference_array.count; j++)
                        if (c->reference_array[j]->type == ReferenceType::Name)
                            c->reference_array[j]->name[0] = 'X';
                    if (c->reference_array.count) c->reference_array.remove(0);
                }
            }
            if (cp.cell_array.count) cp.cell_array.remove(0);
            if (cp.rawcell_array.count) cp.rawcell_array.remove(0);
            cp.name[0] = 'X';
        } else if (op == "copycell") {
            bool deep = b == "deep";
            Cell cp = {};
            cp.copy_from(*wd.cells[a], deep ? "cp" : NULL, deep);
            w.key("copy");
            log_copy_cell(w, wd, &cp, false);
            if (deep) {
                for (uint64_t j = 0; j < cp.polygon_array.count; j++)
                    cp.polygon_array[j]->tag = make_tag(77, 77);
                for (uint64_t j = 0; j < cp.flexpath_array.count; j++)
                    cp.flexpath_array[j]->elements[0].tag = make_tag(77, 77);
                for (uint64_t j = 0; j < cp.robustpath_array.count; j++)
                    cp.robustpath_array[j]->elements[0].tag = make_tag(77, 77);
                for (uint64_t j = 0; j < cp.label_array.count; j++)
                    cp.label_array[j]->tag = make_tag(77, 77);
                for (uint64_t j = 0; j < cp.reference_array.count; j++)
                    if (cp.reference_array[j]->type == ReferenceType::Name)
                        cp.reference_array[j]->name[0] = 'X';
            }
            if (cp.polygon_array.count) cp.polygon_array.remove(0);
            if (cp.reference_array.count) cp.reference_array.remove(0);
            if (cp.label_array.count) cp.label_array.remove(0);
            cp.name[0] = 'X';
        }
        project(w, wd);
        w.end_obj();
        fputs(w.s.c_str(), out);
        fputc('\n', out);
    }
}

int main(int argc, char** argv) {
    // h_c16 <gen.ndjson> <obs.ndjson> <tmpdir>
    if (argc < 4) return 2;
    gdstk::set_error_logger(NULL);
    g_tmpdir = argv[3];
    std::vector<std::string> lines = read_lines(argv[1]);
    return supervise(lines, argv[2], [&](int64_t, const std::string& line, FILE* out) {
        J g = jparse(line);
        history(g, out, line);
    });
}
