// C15 harness: curve sections and shape primitives.  The exact state (end point, last control
// point, counts) is logged for TLC to compare with Paths.tla; deviations from the exact curves are
// MEASURED here by dense sampling and logged as quantised integers (the bounds are decided in TLA+).
#include "geo.hpp"

#include <functional>

typedef std::function<Vec2(double)> Param;

static double seg_dist(Vec2 p, Vec2 a, Vec2 b) {
    Vec2 ab = b - a;
    double l2 = ab.length_sq();
    if (l2 == 0) return (p - a).length();
    double t = (p - a).inner(ab) / l2;
    if (t < 0) t = 0;
    if (t > 1) t = 1;
    return (p - (a + ab * t)).length();
}
static double polyline_dist(Vec2 p, const std::vector<Vec2>& pl) {
    double best = 1e300;
    if (pl.size() == 1) return (p - pl[0]).length();
    for (size_t i = 0; i + 1 < pl.size(); i++) best = fmin(best, seg_dist(p, pl[i], pl[i + 1]));
    return best;
}
// closest parameter in [ulo, 1] on a parametric curve by dense sampling + ternary refinement
static double closest_param(const Param& f, Vec2 p, int M, double& dist, double ulo = 0) {
    int bi = 0;
    double bd = 1e300;
    for (int i = 0; i <= M; i++) {
        double u = ulo + (1 - ulo) * (double)i / M;
        double d = (f(u) - p).length_sq();
        if (d < bd) {
            bd = d;
            bi = i;
        }
    }
    double lo = fmax(ulo, ulo + (1 - ulo) * (bi - 1.0) / M), hi = fmin(1.0, ulo + (1 - ulo) * (bi + 1.0) / M);
    for (int it = 0; it < 60; it++) {
        double m1 = lo + (hi - lo) / 3, m2 = hi - (hi - lo) / 3;
        if ((f(m1) - p).length_sq() < (f(m2) - p).length_sq()) hi = m2;
        else lo = m1;
    }
    double u = 0.5 * (lo + hi);
    dist = (f(u) - p).length();
    return u;
}

struct Obs {
    bool finite = true, ordered = true;
    double on = 0, dev = 0, end = 0, start = 0;
};
// V: new vertices appended by the section; p0: the point the section starts from
static Obs measure(const Param& f, Vec2 p0, const std::vector<Vec2>& V, int M = 4000) {
    Obs o;
    for (auto& v : V)
        if (!std::isfinite(v.x) || !std::isfinite(v.y)) o.finite = false;
    if (!o.finite || V.empty()) {
        if (V.empty()) o.finite = false;
        return o;
    }
    // "in order": every vertex is found on the curve at or after the parameter of the previous
    // one.  Forward scan for the FIRST place where the curve passes through the vertex (robust
    // for self-intersecting and multi-turn curves); a vertex that lies on the curve only behind
    // its predecessor, or not at all, shows up with its distance to the rest of the curve.
    std::vector<double> us(M + 1);
    std::vector<Vec2> fs(M + 1);
    for (int i = 0; i <= M; i++) fs[i] = f((double)i / M);
    double span = 0;
    for (int i = 0; i < M; i++) span = fmax(span, (fs[i + 1] - fs[i]).length());
    double prev = 0;
    for (auto& v : V) {
        int i0 = (int)floor(prev * M);
        double found = -1, fd = 1e300;
        for (int i = i0; i <= M; i++) {
            double d = (fs[i] - v).length();
            if (d > 1.5 * span + 1e-12) continue;
            // candidate neighbourhood: refine between the adjacent samples
            double lo = fmax(prev, (i - 1.0) / M), hi = fmin(1.0, (i + 1.0) / M);
            if (hi < lo) continue;
            for (int it = 0; it < 50; it++) {
                double m1 = lo + (hi - lo) / 3, m2 = hi - (hi - lo) / 3;
                if ((f(m1) - v).length_sq() < (f(m2) - v).length_sq()) hi = m2;
                else lo = m1;
            }
            double u = 0.5 * (lo + hi);
            double dd = (f(u) - v).length();
            if (dd < fd) {
                fd = dd;
                found = u;
            }
            if (dd <= 1e-7 * fmax(1.0, span * M)) break;  // first pass through the vertex
        }
        if (found < 0) {
            double d;
            found = closest_param(f, v, M, d, prev);
            fd = d;
        }
        o.on = fmax(o.on, fd);
        prev = found;
    }
    std::vector<Vec2> pl;
    pl.push_back(p0);
    pl.insert(pl.end(), V.begin(), V.end());
    for (int i = 0; i <= M; i++) o.dev = fmax(o.dev, polyline_dist(f((double)i / M), pl));
    o.end = (V.back() - f(1.0)).length();
    o.start = (p0 - f(0.0)).length();
    return o;
}

static Vec2 bezier_eval(const std::vector<Vec2>& c, double t) {
    std::vector<Vec2> p = c;
    for (size_t k = 1; k < c.size(); k++)
        for (size_t i = 0; i + k < c.size(); i++) p[i] = p[i] * (1 - t) + p[i + 1] * t;
    return p[0];
}
static Vec2 wave(double u, void*) { return Vec2{4 * u, 2 * sin(M_PI * u)}; }

static void w_obs(W& w, const Obs& o, double tol, double scale) {
    auto q = [](double x, double unit) { return std::isfinite(x) ? (int64_t)fmin(ceil(x / unit), 2e9) : (int64_t)2e9; };
    w.key("obs").begin_obj().kb("finite", o.finite).kb("ordered", o.ordered);
    w.kv("on_nano", q(o.on, 1e-9 * scale)).kv("dev_milli", q(o.dev, tol * 1e-3));
    w.kv("end_nano", q(o.end, 1e-9 * scale)).kv("start_nano", q(o.start, 1e-9 * scale)).end_obj();
}
static Vec2 jp(const J& p) { return Vec2{(double)p[(size_t)0].i(), (double)p[(size_t)1].i()}; }
static double deg(int64_t a) { return (double)a * M_PI / 180.0; }

// exact elliptical arc as gdstk defines it: geometric angles a0..a1 (minus rotation) mapped to the
// ellipse parameter, rotated, and translated so that it starts at p0
static Param arc_param(double rx, double ry, double a0, double a1, double rot, Vec2 p0) {
    auto ell = [=](double ang) {
        if (ang == 0 || ang == M_PI || rx == ry) return ang;
        double m = fmod(ang + M_PI, 2 * M_PI);
        if (m < 0) m += 2 * M_PI;
        double frac = ang - (m - M_PI);
        return frac + atan2(rx * sin(ang), ry * cos(ang));
    };
    double t0 = ell(a0 - rot), t1 = ell(a1 - rot);
    double cr = cos(rot), sr = sin(rot);
    auto pt = [=](double t) {
        double x = rx * cos(t), y = ry * sin(t);
        return Vec2{x * cr - y * sr, x * sr + y * cr};
    };
    Vec2 d = p0 - pt(t0);
    return [=](double u) { return pt(t0 + (t1 - t0) * u) + d; };
}

static void log_state(W& w, Curve& c) {
    bool ok = true;
    Vec2 last = c.point_array[c.point_array.count - 1];
    w.key("last").begin_arr().i(lat(last.x, 1000, ok)).i(lat(last.y, 1000, ok)).end_arr();
    w.kb("last_exact", ok);
    ok = true;
    w.key("lctrl").begin_arr().i(lat(c.last_ctrl.x, 1000, ok)).i(lat(c.last_ctrl.y, 1000, ok)).end_arr();
    w.kb("lctrl_exact", ok);
    w.kv("n", (int64_t)c.point_array.count);
}

// one instruction through Curve::commands; returns whether every item was reported as processed
static bool via_commands(Curve& c, char letter, std::initializer_list<double> nums) {
    std::vector<CurveInstruction> items(1 + nums.size());
    items[0].command = letter;
    size_t i = 1;
    for (double v : nums) items[i++].number = v;
    return c.commands(items.data(), items.size()) == items.size();
}

static void do_curve(const J& g, W& w) {
    double tol = pow(10.0, -(double)g["tol"].i());
    Curve c = {};
    c.init(Vec2{0, 0}, tol);
    // cmd: every section that has a command letter is issued through Curve::commands
    bool cmd = g.has("cmd") && g["cmd"].t();
    bool cmd_ok = true;
    std::vector<CurveInstruction> all_items;
    auto note = [&](char letter, std::initializer_list<double> nums) {
        CurveInstruction ci;
        ci.command = letter;
        all_items.push_back(ci);
        for (double v : nums) {
            CurveInstruction cn;
            cn.number = v;
            all_items.push_back(cn);
        }
        cmd_ok = via_commands(c, letter, nums) && cmd_ok;
    };
    bool all_cmd = true;
    w.key("steps").begin_arr();
    for (size_t si = 0; si < g["secs"].size(); si++) {
        const J& a = g["secs"][si];
        const J& s = a["sec"];
        const std::string& k = s["k"].s();
        g_shared->phase = (int64_t)si;
        uint64_t n0 = c.point_array.count;
        Vec2 p0 = c.point_array[n0 - 1];
        Vec2 lc0 = c.last_ctrl;
        bool rel = s["rel"].t();
        Param f;
        double scale = 1;
        // exact curve: the control polygon computed by the specification when available,
        // otherwise (state not exactly known after an arc-like section) from the actual state
        std::vector<Vec2> ctrl;
        for (size_t i = 0; i < a["ctrl"].size(); i++) ctrl.push_back(jp(a["ctrl"][i]));
        bool spec_ctrl = !ctrl.empty();
        auto absp = [&](const J& p) { return rel ? p0 + jp(p) : jp(p); };
        if (k == "segment") {
            if (!spec_ctrl) ctrl = {p0, absp(s["p"])};
            if (cmd) note(rel ? 'l' : 'L', {jp(s["p"]).x, jp(s["p"]).y});
            else c.segment(jp(s["p"]), rel);
        } else if (k == "horizontal") {
            if (!spec_ctrl) ctrl = {p0, Vec2{rel ? p0.x + s["x"].i() : (double)s["x"].i(), p0.y}};
            if (cmd) note(rel ? 'h' : 'H', {(double)s["x"].i()});
            else c.horizontal((double)s["x"].i(), rel);
        } else if (k == "vertical") {
            if (!spec_ctrl) ctrl = {p0, Vec2{p0.x, rel ? p0.y + s["y"].i() : (double)s["y"].i()}};
            if (cmd) note(rel ? 'v' : 'V', {(double)s["y"].i()});
            else c.vertical((double)s["y"].i(), rel);
        } else if (k == "cubic") {
            if (!spec_ctrl) ctrl = {p0, absp(s["c1"]), absp(s["c2"]), absp(s["e"])};
            Array<Vec2> pts = {};
            pts.append(jp(s["c1"]));
            pts.append(jp(s["c2"]));
            pts.append(jp(s["e"]));
            if (cmd) note(rel ? 'c' : 'C', {pts[0].x, pts[0].y, pts[1].x, pts[1].y, pts[2].x, pts[2].y});
            else c.cubic(pts, rel);
        } else if (k == "cubic_smooth") {
            if (!spec_ctrl) ctrl = {p0, p0 * 2 - lc0, absp(s["c2"]), absp(s["e"])};
            Array<Vec2> pts = {};
            pts.append(jp(s["c2"]));
            pts.append(jp(s["e"]));
            if (cmd) note(rel ? 's' : 'S', {pts[0].x, pts[0].y, pts[1].x, pts[1].y});
            else c.cubic_smooth(pts, rel);
        } else if (k == "quadratic") {
            if (!spec_ctrl) ctrl = {p0, absp(s["c"]), absp(s["e"])};
            Array<Vec2> pts = {};
            pts.append(jp(s["c"]));
            pts.append(jp(s["e"]));
            if (cmd) note(rel ? 'q' : 'Q', {pts[0].x, pts[0].y, pts[1].x, pts[1].y});
            else c.quadratic(pts, rel);
        } else if (k == "quadratic_smooth") {
            if (!spec_ctrl) ctrl = {p0, p0 * 2 - lc0, absp(s["e"])};
            if (cmd) note(rel ? 't' : 'T', {jp(s["e"]).x, jp(s["e"]).y});
            else c.quadratic_smooth(jp(s["e"]), rel);
        } else if (k == "bezier") {
            if (!spec_ctrl) {
                ctrl = {p0};
                for (size_t i = 0; i < s["pts"].size(); i++) ctrl.push_back(absp(s["pts"][i]));
            }
            Array<Vec2> pts = {};
            for (size_t i = 0; i < s["pts"].size(); i++) pts.append(jp(s["pts"][i]));
            c.bezier(pts, rel);
            all_cmd = false;
        } else if (k == "arc") {
            double rx = (double)s["rx"].i(), ry = (double)s["ry"].i();
            f = arc_param(rx, ry, deg(s["a0"].i()), deg(s["a1"].i()), deg(s["rot"].i()), p0);
            scale = fmax(rx, ry);
            if (cmd) note('E', {rx, ry, deg(s["a0"].i()), deg(s["a1"].i()), deg(s["rot"].i())});
            else c.arc(rx, ry, deg(s["a0"].i()), deg(s["a1"].i()), deg(s["rot"].i()));
        } else if (k == "turn") {
            double r = (double)s["r"].i(), ang = deg(s["a"].i());
            Vec2 dir = p0 - lc0;
            double a0 = atan2(dir.y, dir.x) + (ang < 0 ? 0.5 * M_PI : -0.5 * M_PI);
            f = arc_param(r, r, a0, a0 + ang, 0, p0);
            scale = r;
            if (cmd) note('a', {r, ang});
            else c.turn(r, ang);
        } else if (k == "parametric") {
            Vec2 ref = rel ? p0 : Vec2{0, 0};
            f = [=](double u) { return wave(u, NULL) + ref; };
            scale = 4;
            c.parametric(wave, NULL, rel);
            all_cmd = false;
        } else if (k == "interpolation") {
            size_t np = s["pts"].size();
            Array<Vec2> pts = {};
            for (size_t i = 0; i < np; i++) pts.append(jp(s["pts"][i]));
            std::vector<double> angles(np + 1, 0.0);
            std::vector<char> cons(np + 1, 0);
            std::vector<Vec2> tens(np + 1, Vec2{1, 1});
            c.interpolation(pts, angles.data(), (bool*)cons.data(), tens.data(), 1, 1, false, rel);
            all_cmd = false;
        }
        std::vector<Vec2> V(c.point_array.items + n0, c.point_array.items + c.point_array.count);
        w.begin_obj().ks("k", k).kb("spec_ctrl", spec_ctrl).kv("added", (int64_t)V.size());
        log_state(w, c);
        if (!ctrl.empty()) {
            std::vector<Vec2> cc = ctrl;
            f = [cc](double u) { return bezier_eval(cc, u); };
            for (auto& p : ctrl) scale = fmax(scale, fmax(fabs(p.x - ctrl[0].x), fabs(p.y - ctrl[0].y)));
        }
        if (k == "interpolation") {
            // the exact curve is not specified (spline solver); what is: finite vertices and a curve
            // that passes through the given points, ending at the last one
            Obs o;
            double worst = 0;
            std::vector<Vec2> pl;
            pl.push_back(p0);
            pl.insert(pl.end(), V.begin(), V.end());
            for (auto& v : V)
                if (!std::isfinite(v.x) || !std::isfinite(v.y)) o.finite = false;
            if (V.empty()) o.finite = false;
            if (o.finite) {
                for (size_t i = 0; i < s["pts"].size(); i++) worst = fmax(worst, polyline_dist(absp(s["pts"][i]), pl));
                o.dev = worst;
                o.end = (V.back() - absp(s["pts"][s["pts"].size() - 1])).length();
            }
            w_obs(w, o, tol, 5);
        } else {
            Obs o = measure(f, p0, V);
            w_obs(w, o, tol, scale);
        }
        // direction of (last - last_ctrl) vs. the exact end tangent, for arc-like sections
        if (k == "arc" || k == "turn") {
            Vec2 t1 = f(1.0) - f(1.0 - 1e-6);
            Vec2 d = c.point_array[c.point_array.count - 1] - c.last_ctrl;
            double cr = fabs(t1.cross(d)) / (t1.length() * d.length() + 1e-300);
            w.kb("ctrl_behind", t1.inner(d) > 0).kv("ctrl_dir_milli", (int64_t)ceil(cr * 1000));
        }
        w.end_obj();
    }
    w.end_arr();
    {
        // Array overloads: the same history on a fresh curve with every maximal run of consecutive
        // sections of one polynomial kind and one placement mode issued as ONE call (relative points
        // are relative to the end point before the call, so they are re-expressed from the positions
        // the single calls reached).  Coordinates are small integers: the vertices must be identical.
        Curve c3 = {};
        c3.init(Vec2{0, 0}, tol);
        bool batchable = true;
        int64_t runs = 0;
        size_t si = 0, nsec = g["secs"].size();
        auto poly_kind = [](const std::string& k) {
            return k == "segment" || k == "cubic" || k == "cubic_smooth" || k == "quadratic" || k == "quadratic_smooth";
        };
        while (si < nsec && batchable) {
            const J& s = g["secs"][si]["sec"];
            const std::string k = s["k"].s();
            if (!poly_kind(k)) { batchable = false; break; }
            bool rel = s["rel"].t();
            size_t sj = si;
            while (sj + 1 < nsec && g["secs"][sj + 1]["sec"]["k"].s() == k && g["secs"][sj + 1]["sec"]["rel"].t() == rel) sj++;
            if (sj > si) runs++;
            Vec2 ref = c3.point_array[c3.point_array.count - 1];
            Vec2 cur = ref;  // end point the single calls would have reached
            Array<Vec2> pts = {};
            for (size_t q = si; q <= sj; q++) {
                const J& t = g["secs"][q]["sec"];
                auto conv = [&](const J& pj) { return rel ? cur + jp(pj) - ref : jp(pj); };
                if (k == "segment") pts.append(conv(t["p"]));
                else if (k == "cubic") { pts.append(conv(t["c1"])); pts.append(conv(t["c2"])); pts.append(conv(t["e"])); }
                else if (k == "cubic_smooth") { pts.append(conv(t["c2"])); pts.append(conv(t["e"])); }
                else if (k == "quadratic") { pts.append(conv(t["c"])); pts.append(conv(t["e"])); }
                else pts.append(conv(t["e"]));
                const J& pe = k == "segment" ? t["p"] : t["e"];
                cur = rel ? cur + jp(pe) : jp(pe);
            }
            if (k == "segment") c3.segment(pts, rel);
            else if (k == "cubic") c3.cubic(pts, rel);
            else if (k == "cubic_smooth") c3.cubic_smooth(pts, rel);
            else if (k == "quadratic") c3.quadratic(pts, rel);
            else c3.quadratic_smooth(pts, rel);
            pts.clear();
            si = sj + 1;
        }
        bool same = true;
        if (batchable && !cmd) {
            same = c3.point_array.count == c.point_array.count;
            for (uint64_t i = 0; same && i < c.point_array.count; i++)
                same = c3.point_array[i].x == c.point_array[i].x && c3.point_array[i].y == c.point_array[i].y;
            same = same && c3.last_ctrl.x == c.last_ctrl.x && c3.last_ctrl.y == c.last_ctrl.y;
        }
        c3.clear();
        w.kb("batchable", batchable && !cmd).kv("batch_runs", runs).kb("batch_same", same);
    }
    if (cmd) {
        // the whole history as ONE command array on a fresh curve gives the same vertices
        bool same = true;
        if (all_cmd) {
            Curve c2 = {};
            c2.init(Vec2{0, 0}, tol);
            uint64_t done = c2.commands(all_items.data(), all_items.size());
            same = done == all_items.size() && c2.point_array.count == c.point_array.count;
            for (uint64_t i = 0; same && i < c.point_array.count; i++)
                same = c2.point_array[i].x == c.point_array[i].x && c2.point_array[i].y == c.point_array[i].y;
            c2.clear();
        }
        w.kb("cmd_ok", cmd_ok).kb("cmd_same", same);
    }
}

// ---------------------------------------------------------------- shape primitives
static double ring_dev(const std::vector<Param>& bnd, const Polygon& p, int M = 4000) {
    // max over boundary samples of distance to the polygon outline (closed)
    std::vector<Vec2> pl(p.point_array.items, p.point_array.items + p.point_array.count);
    if (!pl.empty()) pl.push_back(pl[0]);
    double dev = 0;
    for (auto& f : bnd)
        for (int i = 0; i <= M; i++) dev = fmax(dev, polyline_dist(f((double)i / M), pl));
    return dev;
}
static double verts_on(const std::vector<Param>& bnd, const Polygon& p, int M = 4000) {
    double worst = 0;
    for (uint64_t i = 0; i < p.point_array.count; i++) {
        double best = 1e300;
        for (auto& f : bnd) {
            double d;
            closest_param(f, p.point_array[i], M, d);
            best = fmin(best, d);
        }
        worst = fmax(worst, best);
    }
    return worst;
}

static void do_prim(const J& g, W& w) {
    double tol = pow(10.0, -(double)g["tol"].i());
    const std::string& p = g["p"].s();
    Tag tag = make_tag(4, 2);
    Polygon poly = {};
    std::vector<Param> bnd;
    double scale = 1;
    bool exact = false;
    if (p == "rectangle") {
        poly = rectangle(jp(g["a"]), jp(g["b"]), tag);
        exact = true;
    } else if (p == "cross") {
        poly = cross(jp(g["c"]), (double)g["full"].i(), (double)g["arm"].i(), tag);
        exact = true;
    } else if (p == "regular_polygon") {
        poly = regular_polygon(jp(g["c"]), (double)g["side"].i(), (uint64_t)g["n"].i(), deg(g["rot"].i()), tag);
        // measured: side lengths and centre
        double worst = 0;
        Vec2 cen = {0, 0};
        for (uint64_t i = 0; i < poly.point_array.count; i++) {
            Vec2 a = poly.point_array[i], b = poly.point_array[(i + 1) % poly.point_array.count];
            worst = fmax(worst, fabs((b - a).length() - (double)g["side"].i()));
            cen += a;
        }
        if (poly.point_array.count) cen = cen * (1.0 / poly.point_array.count);
        worst = fmax(worst, (cen - jp(g["c"])).length());
        w.kv("regular_nano", (int64_t)ceil(worst / 1e-9));
    } else if (p == "ellipse") {
        Vec2 c = jp(g["c"]);
        double rx = (double)g["rx"].i(), ry = (double)g["ry"].i(), irx = (double)g["irx"].i(), iry = (double)g["iry"].i();
        double a0 = deg(g["a0"].i()), a1 = deg(g["a1"].i());
        poly = ellipse(c, rx, ry, irx, iry, a0, a1, tol, tag);
        scale = fmax(rx, ry);
        bool full = a0 == a1;
        double b0 = full ? 0 : a0, b1 = full ? 2 * M_PI : a1;
        auto mk = [=](double qx, double qy) {
            Param arc0 = arc_param(qx, qy, b0, b1, 0, Vec2{0, 0});
            Vec2 start = Vec2{0, 0};
            // arc_param translates to start at p0: undo by anchoring at the true start point
            double t0 = (b0 == 0 || b0 == M_PI || qx == qy) ? b0 : b0;
            (void)t0;
            Vec2 s0 = arc0(0);
            (void)s0;
            (void)start;
            // recompute: true start point on the ellipse at geometric angle b0
            double m = fmod(b0 + M_PI, 2 * M_PI);
            if (m < 0) m += 2 * M_PI;
            double tt = (b0 == 0 || b0 == M_PI || qx == qy) ? b0 : (b0 - (m - M_PI)) + atan2(qx * sin(b0), qy * cos(b0));
            Vec2 p0 = c + Vec2{qx * cos(tt), qy * sin(tt)};
            return arc_param(qx, qy, b0, b1, 0, p0);
        };
        bnd.push_back(mk(rx, ry));
        if (irx > 0) bnd.push_back(mk(irx, iry));
        if (!full) {
            // straight sides of a slice
            Param o = bnd[0];
            Vec2 e0 = o(0), e1 = o(1);
            Vec2 i0 = irx > 0 ? bnd[1](0) : c, i1 = irx > 0 ? bnd[1](1) : c;
            bnd.push_back([=](double u) { return i0 * (1 - u) + e0 * u; });
            bnd.push_back([=](double u) { return i1 * (1 - u) + e1 * u; });
        }
    } else if (p == "racetrack") {
        Vec2 c = jp(g["c"]);
        double L = (double)g["len"].i(), r = (double)g["r"].i(), ir = (double)g["ir"].i();
        bool vert = g["vertical"].t();
        poly = racetrack(c, L, r, ir, vert, tol, tag);
        scale = L + r;
        auto track = [=](double rr) {
            std::vector<Param> v;
            Vec2 d = vert ? Vec2{0, L / 2} : Vec2{L / 2, 0};
            double base = vert ? 0 : -M_PI / 2;
            v.push_back([=](double u) { double a = base + M_PI * u; return c + d + Vec2{rr * cos(a), rr * sin(a)}; });
            v.push_back([=](double u) { double a = base + M_PI + M_PI * u; return c - d + Vec2{rr * cos(a), rr * sin(a)}; });
            Vec2 n = vert ? Vec2{rr, 0} : Vec2{0, rr};
            v.push_back([=](double u) { return (c - d + n) * (1 - u) + (c + d + n) * u; });
            v.push_back([=](double u) { return (c - d - n) * (1 - u) + (c + d - n) * u; });
            return v;
        };
        for (auto& f : track(r)) bnd.push_back(f);
        if (ir > 0) for (auto& f : track(ir)) bnd.push_back(f);
    } else if (p == "fillet") {
        // rectangle a x b with all four corners rounded; a radius that does not fit is clamped to
        // half the shorter side (the arcs of neighbouring corners then meet)
        double a = (double)g["side"].i(), b = g.has("side2") ? (double)g["side2"].i() : a;
        double r0 = (double)g["r"].i();
        poly = rectangle(Vec2{0, 0}, Vec2{a, b}, tag);
        Array<double> radii = {};
        for (int i = 0; i < 4; i++) radii.append(r0);
        poly.fillet(radii, tol);
        radii.clear();
        scale = fmax(a, b);
        double r = fmin(r0, 0.5 * fmin(a, b));
        Vec2 cs[4] = {Vec2{r, r}, Vec2{a - r, r}, Vec2{a - r, b - r}, Vec2{r, b - r}};
        double st[4] = {M_PI, 1.5 * M_PI, 0, 0.5 * M_PI};
        for (int i = 0; i < 4; i++) {
            Vec2 cc = cs[i];
            double s0 = st[i];
            bnd.push_back([=](double u) { double ang = s0 + 0.5 * M_PI * u; return cc + Vec2{r * cos(ang), r * sin(ang)}; });
        }
        bnd.push_back([=](double u) { return Vec2{r + (a - 2 * r) * u, 0}; });
        bnd.push_back([=](double u) { return Vec2{a, r + (b - 2 * r) * u}; });
        bnd.push_back([=](double u) { return Vec2{r + (a - 2 * r) * u, b}; });
        bnd.push_back([=](double u) { return Vec2{0, r + (b - 2 * r) * u}; });
    }
    bool ok = true, fin = true;
    for (uint64_t i = 0; i < poly.point_array.count; i++)
        if (!std::isfinite(poly.point_array[i].x) || !std::isfinite(poly.point_array[i].y)) fin = false;
    w.kv("count", (int64_t)poly.point_array.count).kb("finite", fin);
    w.kv("tagid", (int64_t)get_layer(poly.tag) * 100 + get_type(poly.tag));
    if (exact) {
        w.key("pts").begin_arr();
        for (uint64_t i = 0; i < poly.point_array.count; i++)
            w.begin_arr().i(lat(poly.point_array[i].x, 2, ok)).i(lat(poly.point_array[i].y, 2, ok)).end_arr();
        w.end_arr().kb("lat", ok);
    }
    if (!bnd.empty() && fin) {
        double von = verts_on(bnd, poly);
        w.kv("on_nano", (int64_t)fmin(ceil(von / (1e-9 * scale)), 2e9));
        w.kv("on_milli", (int64_t)fmin(ceil(von / (tol * 1e-3)), 2e9));
        w.kv("dev_milli", (int64_t)fmin(ceil(ring_dev(bnd, poly) / (tol * 1e-3)), 2e9));
    }
    poly.clear();
}

// closed Hobby interpolation: the curve through knots p0..p(n-1) (cycle) is the same curve whichever
// knot it is started from, with the angle constraints and tensions rotated along
static void closed_itp(const J& g, size_t shift, std::vector<Vec2>& poly, bool& fin) {
    size_t n = g["pts"].size();
    std::vector<Vec2> P(n);
    std::vector<double> ang(n);
    std::vector<char> con(n);
    std::vector<Vec2> ten(n);
    for (size_t i = 0; i < n; i++) {
        size_t k = (i + shift) % n;
        P[i] = Vec2{(double)g["pts"][k][(size_t)0].i(), (double)g["pts"][k][(size_t)1].i()};
        ang[i] = (double)g["ang"][k].i() * M_PI / 180.0;
        con[i] = g["cons"][k].t() ? 1 : 0;
        ten[i] = Vec2{(double)g["tens"][k][(size_t)0].i() / 4.0, (double)g["tens"][k][(size_t)1].i() / 4.0};
    }
    double tol = pow(10.0, -(double)g["tol"].i());
    Curve c = {};
    c.init(P[0], tol);
    Array<Vec2> rest = {};
    for (size_t i = 1; i < n; i++) rest.append(P[i]);
    // arrays have one entry per knot, the current point first
    c.interpolation(rest, ang.data(), (bool*)con.data(), ten.data(), 1, 1, true, false);
    poly.assign(c.point_array.items, c.point_array.items + c.point_array.count);
    for (auto& v : poly)
        if (!std::isfinite(v.x) || !std::isfinite(v.y)) fin = false;
    rest.clear();
    c.clear();
}
static void do_itpclosed(const J& g, W& w) {
    double tol = pow(10.0, -(double)g["tol"].i());
    std::vector<Vec2> A, B;
    bool fin = true;
    closed_itp(g, 0, A, fin);
    closed_itp(g, (size_t)g["shift"].i(), B, fin);
    double dev = 1e6, knots = 0, closed = 1e6;
    if (fin && A.size() >= 2 && B.size() >= 2) {
        std::vector<Vec2> Ac = A, Bc = B;
        Ac.push_back(A[0]);
        Bc.push_back(B[0]);
        dev = 0;
        for (auto& p : A) dev = fmax(dev, polyline_dist(p, Bc));
        for (auto& p : B) dev = fmax(dev, polyline_dist(p, Ac));
        for (size_t i = 0; i < g["pts"].size(); i++) {
            Vec2 k = Vec2{(double)g["pts"][i][(size_t)0].i(), (double)g["pts"][i][(size_t)1].i()};
            knots = fmax(knots, fmax(polyline_dist(k, Ac), polyline_dist(k, Bc)));
        }
        closed = fmax((A.back() - A.front()).length(), (B.back() - B.front()).length());
    }
    w.kb("finite", fin).kv("na", (int64_t)A.size()).kv("nb", (int64_t)B.size());
    w.kv("dev_milli", (int64_t)fmin(2e9, ceil(dev / (tol * 1e-3))));
    w.kv("knots_milli", (int64_t)fmin(2e9, ceil(knots / (tol * 1e-3))));
    w.kv("closed_milli", (int64_t)fmin(2e9, ceil(closed / (tol * 1e-3))));
}

int main(int argc, char** argv) {
    if (argc < 3) return 2;
    gdstk::set_error_logger(NULL);
    std::vector<std::string> lines = read_lines(argv[1]);
    g_timeout_s = 60;
    return supervise(lines, argv[2], [&](int64_t, const std::string& line, FILE* out) {
        J g = jparse(line);
        W w;
        w.begin_obj().ks("e", g["k"].s()).key("g").raw(line);
        if (g["k"].s() == "curve") do_curve(g, w);
        else if (g["k"].s() == "prim") do_prim(g, w);
        else if (g["k"].s() == "itpclosed") do_itpclosed(g, w);
        w.end_obj();
        fputs(w.s.c_str(), out);
        fputc('\n', out);
    });
}
