// Projection of a gdstk Library onto the abstract layout the specifications talk about:
// names, tags, integer coordinates on the database grid (checked to be on the lattice),
// widths / extensions, placement parameters, repetitions as offset lists, properties.
// Strings are logged as arrays of byte codes (TLC has no character operations).
#pragma once
#include "geo.hpp"

struct ProjCtx {
    double real_per_dbu = 0;   // precision / unit, never divided by `fine`
    double per_dbu;   // user units per database unit = precision / unit
    bool ok = true;   // false if something that should be on the lattice is not
    int64_t g(double x) { return lat(x, 1.0 / per_dbu, ok); }
};

static inline void w_str(W& w, const char* key, const char* s) {
    w.key(key).begin_arr();
    if (s)
        for (const unsigned char* c = (const unsigned char*)s; *c; c++) w.i(*c);
    w.end_arr();
}
static inline void w_bytes_arr(W& w, const char* key, const uint8_t* b, uint64_t n) {
    w.key(key).begin_arr();
    for (uint64_t i = 0; i < n; i++) w.i(b[i]);
    w.end_arr();
}
static inline void w_dbl8(W& w, const char* key, double d) {
    uint8_t b[8];
    memcpy(b, &d, 8);
    w_bytes_arr(w, key, b, 8);
}
static inline std::string j_str(const J& a) {
    std::string s;
    for (size_t i = 0; i < a.size(); i++) s += (char)a[i].i();
    return s;
}

// GDSII properties only (attribute, value without the terminating NUL), in list order
static inline void proj_gds_props(W& w, const Property* p) {
    w.key("props").begin_arr();
    for (; p; p = p->next) {
        if (strcmp(p->name, "S_GDS_PROPERTY") != 0 || !p->value || !p->value->next) continue;
        PropertyValue* a = p->value;
        PropertyValue* v = a->next;
        if (a->type != PropertyType::UnsignedInteger || v->type != PropertyType::String) continue;
        uint64_t n = v->count;
        if (n > 0 && v->bytes[n - 1] == 0) n--;
        w.begin_arr().i((int64_t)a->unsigned_integer);
        w.begin_arr();
        for (uint64_t i = 0; i < n; i++) w.i(v->bytes[i]);
        w.end_arr();
        w.end_arr();
    }
    w.end_arr();
}

// all properties with typed values (OASIS keeps them)
static inline void proj_all_props(W& w, const Property* p) {
    w.key("aprops").begin_arr();
    for (; p; p = p->next) {
        w.begin_obj();
        w_str(w, "name", p->name);
        w.key("vals").begin_arr();
        for (PropertyValue* v = p->value; v; v = v->next) {
            w.begin_obj();
            switch (v->type) {
                case PropertyType::UnsignedInteger:
                    w.ks("t", "u");
                    w_bytes_arr(w, "x", (const uint8_t*)&v->unsigned_integer, 8);
                    break;
                case PropertyType::Integer: {
                    w.ks("t", "i");
                    uint64_t mag = v->integer < 0 ? (uint64_t)(-(v->integer + 1)) + 1 : (uint64_t)v->integer;
                    w.kb("neg", v->integer < 0);
                    w_bytes_arr(w, "x", (const uint8_t*)&mag, 8);
                } break;
                case PropertyType::Real:
                    w.ks("t", "r");
                    w_dbl8(w, "x", v->real);
                    break;
                case PropertyType::String:
                    w.ks("t", "s");
                    w_bytes_arr(w, "x", v->bytes, v->count);
                    break;
            }
            w.end_obj();
        }
        w.end_arr().end_obj();
    }
    w.end_arr();
}

static inline void proj_rep(W& w, const Repetition& rep, ProjCtx& c) {
    w.key("rep").begin_obj().ks("type", rep_type_name(rep));
    if (rep.type != RepetitionType::None) {
        Array<Vec2> offs = {};
        rep.get_offsets(offs);
        w.key("offs").begin_arr();
        for (uint64_t i = 0; i < offs.count; i++)
            w.begin_arr().i(c.g(offs[i].x)).i(c.g(offs[i].y)).end_arr();
        w.end_arr();
        offs.clear();
        if (rep.type == RepetitionType::Rectangular || rep.type == RepetitionType::Regular)
            w.kv("cols", (int64_t)rep.columns).kv("rows", (int64_t)rep.rows);
    }
    w.end_obj();
}

static inline void proj_pts(W& w, const char* key, const Array<Vec2>& a, ProjCtx& c) {
    w.key(key).begin_arr();
    for (uint64_t i = 0; i < a.count; i++) w.begin_arr().i(c.g(a[i].x)).i(c.g(a[i].y)).end_arr();
    w.end_arr();
}

static inline int end_type_code(EndType t) {
    switch (t) {
        case EndType::Flush: return 0;
        case EndType::Round: return 1;
        case EndType::HalfWidth: return 2;
        case EndType::Extended: return 4;
        case EndType::Smooth: return 5;
        case EndType::Function: return 6;
    }
    return -1;
}

// magnification in 1/1024, angle in 1/64 degree
static inline int64_t mag1024(double m, bool& ok) { return lat(m, 1024, ok); }
static inline int64_t ang64(double rot, bool& ok) { return lat(rot * (180.0 / M_PI), 64, ok); }

static inline void proj_cell(W& w, const Cell* cell, ProjCtx& c, bool all_props) {
    w.begin_obj();
    w_str(w, "name", cell->name);
    w.key("polys").begin_arr();
    for (uint64_t i = 0; i < cell->polygon_array.count; i++) {
        Polygon* p = cell->polygon_array[i];
        w.begin_obj().kv("l", get_layer(p->tag)).kv("t", get_type(p->tag));
        proj_pts(w, "xy", p->point_array, c);
        proj_gds_props(w, p->properties);
        if (all_props) proj_all_props(w, p->properties);
        proj_rep(w, p->repetition, c);
        w.end_obj();
    }
    w.end_arr();
    w.key("paths").begin_arr();
    for (uint64_t i = 0; i < cell->flexpath_array.count; i++) {
        FlexPath* f = cell->flexpath_array[i];
        w.begin_obj().kb("simple", f->simple_path).kb("sw", f->scale_width);
        w.kv("nel", (int64_t)f->num_elements);
        // spine tolerance in 1/1000 database unit (a loader's default is one database unit)
        {
            bool ign = true;
            w.kv("tolp", c.real_per_dbu > 0 ? lat(f->spine.tolerance / c.real_per_dbu, 1000, ign) : 0);
        }
        proj_pts(w, "spine", f->spine.point_array, c);
        w.key("els").begin_arr();
        for (uint64_t e = 0; e < f->num_elements; e++) {
            FlexPathElement* el = f->elements + e;
            w.begin_obj().kv("l", get_layer(el->tag)).kv("t", get_type(el->tag));
            w.kv("pt", end_type_code(el->end_type));
            // constant width / offset of the first spine point (simple paths)
            w.kv("w", el->half_width_and_offset.count
                          ? c.g(2 * el->half_width_and_offset[0].u) : 0);
            w.kv("off", el->half_width_and_offset.count ? c.g(el->half_width_and_offset[0].v) : 0);
            w.kv("nwo", (int64_t)el->half_width_and_offset.count);
            w.key("ext").begin_arr().i(c.g(el->end_extensions.u)).i(c.g(el->end_extensions.v)).end_arr();
            w.end_obj();
        }
        w.end_arr();
        proj_gds_props(w, f->properties);
        if (all_props) proj_all_props(w, f->properties);
        proj_rep(w, f->repetition, c);
        w.end_obj();
    }
    w.end_arr();
    w.kv("nrobust", (int64_t)cell->robustpath_array.count);
    // robust paths made of straight segments with constant widths / offsets, in the shape of a path
    // entry ("seg": false marks anything else; then only the count above is meaningful)
    w.key("rpaths").begin_arr();
    for (uint64_t i = 0; i < cell->robustpath_array.count; i++) {
        RobustPath* r = cell->robustpath_array[i];
        bool seg = r->subpath_array.count > 0;
        for (uint64_t k = 0; k < r->subpath_array.count; k++)
            seg = seg && r->subpath_array[k].type == SubPathType::Segment;
        for (uint64_t e = 0; e < r->num_elements; e++)
            seg = seg && r->elements[e].width_array.count == r->subpath_array.count &&
                  r->elements[e].width_array[0].type == InterpolationType::Constant &&
                  r->elements[e].offset_array[0].type == InterpolationType::Constant;
        w.begin_obj().kb("seg", seg).kb("simple", r->simple_path).kb("sw", r->scale_width);
        w.kv("nel", (int64_t)r->num_elements);
        w.key("spine").begin_arr();
        if (seg) {
            Vec2 p0 = r->subpath_array[0].begin;
            w.begin_arr().i(c.g(p0.x)).i(c.g(p0.y)).end_arr();
            for (uint64_t k = 0; k < r->subpath_array.count; k++) {
                Vec2 p = r->subpath_array[k].end;
                w.begin_arr().i(c.g(p.x)).i(c.g(p.y)).end_arr();
            }
        }
        w.end_arr();
        w.key("els").begin_arr();
        for (uint64_t e = 0; e < r->num_elements; e++) {
            RobustPathElement* el = r->elements + e;
            w.begin_obj().kv("l", get_layer(el->tag)).kv("t", get_type(el->tag));
            w.kv("pt", end_type_code(el->end_type));
            w.kv("w", seg ? c.g(el->width_array[0].value * r->width_scale) : 0);  // width_array holds full widths
            w.kv("off", seg ? c.g(el->offset_array[0].value * r->offset_scale) : 0);
            w.kv("nwo", (int64_t)0);
            w.key("ext").begin_arr().i(c.g(el->end_extensions.u)).i(c.g(el->end_extensions.v)).end_arr();
            w.end_obj();
        }
        w.end_arr();
        proj_gds_props(w, r->properties);
        if (all_props) proj_all_props(w, r->properties);
        proj_rep(w, r->repetition, c);
        w.end_obj();
    }
    w.end_arr();
    w.key("refs").begin_arr();
    for (uint64_t i = 0; i < cell->reference_array.count; i++) {
        Reference* r = cell->reference_array[i];
        w.begin_obj();
        const char* nm = r->type == ReferenceType::Cell ? r->cell->name
                         : r->type == ReferenceType::RawCell ? r->rawcell->name : r->name;
        w.ks("kind", r->type == ReferenceType::Cell ? "cell"
                     : r->type == ReferenceType::RawCell ? "raw" : "name");
        w_str(w, "sname", nm);
        w.kb("refl", r->x_reflection).kv("mag", mag1024(r->magnification, c.ok));
        w.kv("ang", ang64(r->rotation, c.ok));
        w.key("xy").begin_arr().i(c.g(r->origin.x)).i(c.g(r->origin.y)).end_arr();
        proj_gds_props(w, r->properties);
        if (all_props) proj_all_props(w, r->properties);
        proj_rep(w, r->repetition, c);
        w.end_obj();
    }
    w.end_arr();
    w.key("labels").begin_arr();
    for (uint64_t i = 0; i < cell->label_array.count; i++) {
        Label* l = cell->label_array[i];
        w.begin_obj().kv("l", get_layer(l->tag)).kv("t", get_type(l->tag));
        w.kv("anchor", (int64_t)l->anchor).kb("refl", l->x_reflection);
        w.kv("mag", mag1024(l->magnification, c.ok)).kv("ang", ang64(l->rotation, c.ok));
        w.key("xy").begin_arr().i(c.g(l->origin.x)).i(c.g(l->origin.y)).end_arr();
        w_str(w, "text", l->text);
        proj_gds_props(w, l->properties);
        if (all_props) proj_all_props(w, l->properties);
        proj_rep(w, l->repetition, c);
        w.end_obj();
    }
    w.end_arr();
    if (all_props) proj_all_props(w, cell->properties);
    w.end_obj();
}

// fine > 1: coordinates in 1/fine database units (no lattice claim: `lat` is then meaningless)
static inline void proj_library(W& w, const char* key, const Library& lib, bool all_props = false,
                                double fine = 1.0) {
    ProjCtx c;
    c.real_per_dbu = lib.unit > 0 ? lib.precision / lib.unit : 1;
    c.per_dbu = c.real_per_dbu / fine;
    if (key) w.key(key);
    w.begin_obj();
    w_str(w, "name", lib.name);
    w_dbl8(w, "unit", lib.unit);
    w_dbl8(w, "precision", lib.precision);
    w.key("cells").begin_arr();
    for (uint64_t i = 0; i < lib.cell_array.count; i++) proj_cell(w, lib.cell_array[i], c, all_props);
    w.end_arr();
    w.kv("nraw", (int64_t)lib.rawcell_array.count);
    if (all_props) proj_all_props(w, lib.properties);
    w.kb("lat", c.ok);
    w.end_obj();
}

static inline std::vector<uint8_t> read_file_bytes(const char* path) {
    std::vector<uint8_t> v;
    FILE* f = fopen(path, "rb");
    if (!f) return v;
    uint8_t buf[65536];
    size_t n;
    while ((n = fread(buf, 1, sizeof buf, f)) > 0) v.insert(v.end(), buf, buf + n);
    fclose(f);
    return v;
}
static inline void write_file_bytes(const char* path, const std::vector<uint8_t>& v) {
    FILE* f = fopen(path, "wb");
    if (v.size()) fwrite(v.data(), 1, v.size(), f);
    fclose(f);
}
