// C14 harness: point-in-polygon queries and measures on TLC-enumerated polygons.
// Coordinates arrive doubled (so that query points between grid lines are integers);
// user coordinate = value / 2, exactly representable.
#include "geo.hpp"

static Vec2 pt(const J& p) { return Vec2{(double)p[(size_t)0].i() / 2.0, (double)p[(size_t)1].i() / 2.0}; }
static Polygon* mk(const J& pts) {
    Polygon* p = (Polygon*)allocate_clear(sizeof(Polygon));
    for (size_t i = 0; i < pts.size(); i++) p->point_array.append(pt(pts[i]));
    return p;
}

int main(int argc, char** argv) {
    if (argc < 3) return 2;
    gdstk::set_error_logger(NULL);
    std::vector<std::string> lines = read_lines(argv[1]);
    return supervise(lines, argv[2], [&](int64_t, const std::string& line, FILE* out) {
        J g = jparse(line);
        W w;
        w.begin_obj().ks("e", g["k"].s()).key("g").raw(line);
        if (g["k"].s() == "poly" || g["k"].s() == "far") {
            Polygon* p = mk(g["pts"]);
            int64_t lo = g["lo"].i(), hi = g["hi"].i();
            // "far": the whole figure, query points included, displaced by an exactly representable
            // vector of magnitude 2^e + f/8
            Vec2 sh = {0, 0};
            if (g["k"].s() == "far") {
                double m = ldexp(1.0, (int)g["e"].i()) + (double)g["f"].i() / 8.0;
                sh = Vec2{(double)g["sx"].i() * m, (double)g["sy"].i() * m};
                for (uint64_t i = 0; i < p->point_array.count; i++) p->point_array[i] += sh;
            }
            w.key("res").begin_arr();
            for (int64_t x = lo; x <= hi; x++)
                for (int64_t y = lo; y <= hi; y++)
                    w.i(p->contain(Vec2{(double)x / 2.0 + sh.x, (double)y / 2.0 + sh.y}) ? 1 : 0);
            w.end_arr();
            // measures in doubled units: twice the area = 8 * real area; perimeter * 2
            bool ok = true;
            w.kv("sarea", lat(p->signed_area() * 8.0, 1, ok));
            w.kv("area0", lat(p->area() * 8.0, 1, ok));
            w.kv("perim0", (int64_t)floor(p->perimeter() * 2.0 * 1000.0 + 1e-9));
            // with a repetition: area and perimeter are multiplied by the number of copies
            p->repetition.type = RepetitionType::Rectangular;
            p->repetition.columns = 3;
            p->repetition.rows = 2;
            p->repetition.spacing = Vec2{10, 10};
            w.kv("count", (int64_t)p->repetition.get_count());
            w.kv("area", lat(p->area() * 8.0, 1, ok));
            w.kv("perim1000", (int64_t)floor(p->perimeter() * 2.0 * 1000.0 + 1e-9));
            w.kb("lat", ok);
        } else {
            Array<Polygon*> polys = {};
            for (size_t i = 0; i < g["polys"].size(); i++) polys.append(mk(g["polys"][i]));
            Array<Vec2> pts = {};
            for (size_t i = 0; i < g["list"].size(); i++) pts.append(pt(g["list"][i]));
            std::vector<char> res(pts.count + 1, 2);
            bool* r = (bool*)allocate_clear(pts.count + 1);
            inside(pts, polys, r);
            w.key("inside").begin_arr();
            for (uint64_t i = 0; i < pts.count; i++) w.i(r[i] ? 1 : 0);
            w.end_arr();
            // the answer may not depend on what the caller's buffer held (python/gdstk_module.cpp
            // passes an uninitialised allocation): ask again with every entry preset to true
            memset(r, 1, pts.count + 1);
            inside(pts, polys, r);
            w.key("inside1").begin_arr();
            for (uint64_t i = 0; i < pts.count; i++) w.i(r[i] ? 1 : 0);
            w.end_arr();
            w.kb("all", all_inside(pts, polys)).kb("any", any_inside(pts, polys));
            w.key("call").begin_arr();
            for (uint64_t i = 0; i < polys.count; i++) w.b(polys[i]->contain_all(pts));
            w.end_arr();
            w.key("cany").begin_arr();
            for (uint64_t i = 0; i < polys.count; i++) w.b(polys[i]->contain_any(pts));
            w.end_arr();
        }
        w.end_obj();
        fputs(w.s.c_str(), out);
        fputc('\n', out);
    });
}
