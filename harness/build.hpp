// Builds a real gdstk Library through the public C++ API from an abstract library description
// ("AL") exported by TLC (MC_GdsApi.tla / MC_OasApi.tla).  Coordinates arrive in QUANTA =
// quarter database units; user coordinate = quanta / (4 * unit / precision).
#pragma once
#include "proj.hpp"

struct Built {
    Library lib = {};
    std::map<std::string, Cell*> cells;
    Quant Q;  // quanta per user unit
};

static inline Tag j_tag(const J& e) { return make_tag((uint32_t)e["l"].i(), (uint32_t)e["t"].i()); }

static inline void build_props(Property*& p, const J& props) {
    // props: sequence of [k |-> "gds", a, s] | [k |-> "gen", n (name codes), v (typed values)]
    // set_* prepend: apply in reverse so that the list order equals the description's order
    for (size_t i = props.size(); i-- > 0;) {
        const J& pr = props[i];
        if (pr["k"].s() == "gds" && pr.has("raw") && pr["raw"].t()) {
            // the same property built through the generic interface: the string carries NO terminating
            // NUL (as a b-string imported from an OASIS file would), the attribute is prepended to it
            std::string v = j_str(pr["s"]);
            set_property(p, "S_GDS_PROPERTY", (const uint8_t*)v.data(), (uint64_t)v.size(), true);
            set_property(p, "S_GDS_PROPERTY", (uint64_t)pr["a"].i(), false);
        } else if (pr["k"].s() == "gds") {
            set_gds_property(p, (uint16_t)pr["a"].i(), j_str(pr["s"]).c_str());
        } else {
            std::string name = j_str(pr["n"]);
            const J& vals = pr["v"];
            // values are prepended too: add last value first, creating the entry with it
            for (size_t k = vals.size(); k-- > 0;) {
                const J& v = vals[k];
                bool create = k == vals.size() - 1;
                const std::string& t = v["t"].s();
                if (t == "u") set_property(p, name.c_str(), (uint64_t)v["x"].i(), create);
                else if (t == "i") set_property(p, name.c_str(), (int64_t)v["x"].i(), create);
                else if (t == "r") set_property(p, name.c_str(), (double)v["x"].i() / 8.0, create);
                else {
                    std::string s = j_str(v["x"]);
                    set_property(p, name.c_str(), (const uint8_t*)s.data(), (uint64_t)s.size(), create);
                }
            }
        }
    }
}

static inline EndType end_of_code(int64_t c) {
    switch (c) {
        case 0: return EndType::Flush;
        case 1: return EndType::Round;
        case 2: return EndType::HalfWidth;
        case 4: return EndType::Extended;
        case 5: return EndType::Smooth;
    }
    return EndType::Flush;
}

static inline void build_cell_content(Built& B, Cell* cell, const J& c) {
    const Quant& Q = B.Q;
    const J& polys = c["polys"];
    for (size_t i = 0; i < polys.size(); i++) {
        const J& e = polys[i];
        Polygon* p = (Polygon*)allocate_clear(sizeof(Polygon));
        p->tag = j_tag(e);
        for (size_t k = 0; k < e["pts"].size(); k++) p->point_array.append(Q.u2(e["pts"][k]));
        if (e.has("ellipse")) {  // a polygonal circle from the library's own generator
            const J& el = e["ellipse"];
            *p = ellipse(Q.u2(el["c"]), Q.u(el["r"].i()), Q.u(el["r"].i()), 0, 0, 0, 0,
                         Q.u(4 * el["tol"].i()) / 100.0, p->tag);
            if (el.has("seg")) {
                // keep only the vertices on the arc a0..a1 (degrees): a circular segment closed by a
                // chord; every vertex lies on the circle but the polygon is no circle
                double a0 = (double)el["seg"][(size_t)0].i(), a1 = (double)el["seg"][(size_t)1].i();
                Vec2 c = Q.u2(el["c"]);
                Array<Vec2> keep = {};
                for (uint64_t k = 0; k < p->point_array.count; k++) {
                    Vec2 d = p->point_array[k] - c;
                    double a = atan2(d.y, d.x) * 180.0 / M_PI;
                    if (a < 0) a += 360;
                    if (a >= a0 && a <= a1) keep.append(p->point_array[k]);
                }
                p->point_array.clear();
                p->point_array = keep;
            }
        }
        set_repetition(p->repetition, e["rep"], Q);
        build_props(p->properties, e["props"]);
        cell->polygon_array.append(p);
    }
    const J& paths = c["paths"];
    for (size_t i = 0; i < paths.size(); i++) {
        const J& e = paths[i];
        const J& els = e["els"];
        size_t n = els.size();
        std::vector<double> w(n), o(n);
        std::vector<Tag> tags(n);
        for (size_t k = 0; k < n; k++) {
            w[k] = Q.u(els[k]["w"].i());
            o[k] = Q.u(els[k]["off"].i());
            tags[k] = j_tag(els[k]);
        }
        Array<Vec2> pts = {};
        for (size_t k = 1; k < e["spine"].size(); k++) pts.append(Q.u2(e["spine"][k]));
        if (e["robust"].t()) {
            RobustPath* r = (RobustPath*)allocate_clear(sizeof(RobustPath));
            r->init(Q.u2(e["spine"][(size_t)0]), n, w.data(), o.data(), 0.01, 1000, tags.data());
            for (uint64_t k = 0; k < pts.count; k++) r->segment(pts[k], NULL, NULL, false);
            r->simple_path = e["simple"].t();
            r->scale_width = e["sw"].t();
            for (size_t k = 0; k < n; k++) {
                r->elements[k].end_type = end_of_code(els[k]["pt"].i());
                r->elements[k].end_extensions = Q.u2(els[k]["ext"]);
            }
            set_repetition(r->repetition, e["rep"], Q);
            build_props(r->properties, e["props"]);
            cell->robustpath_array.append(r);
        } else {
            FlexPath* f = (FlexPath*)allocate_clear(sizeof(FlexPath));
            f->init(Q.u2(e["spine"][(size_t)0]), n, w.data(), o.data(), 0.01, tags.data());
            f->segment(pts, NULL, NULL, false);
            f->simple_path = e["simple"].t();
            f->scale_width = e["sw"].t();
            for (size_t k = 0; k < n; k++) {
                f->elements[k].end_type = end_of_code(els[k]["pt"].i());
                f->elements[k].end_extensions = Q.u2(els[k]["ext"]);
                if (els[k].has("join")) f->elements[k].join_type = (JoinType)els[k]["join"].i();
            }
            set_repetition(f->repetition, e["rep"], Q);
            build_props(f->properties, e["props"]);
            cell->flexpath_array.append(f);
        }
        pts.clear();
    }
    const J& labels = c["labels"];
    for (size_t i = 0; i < labels.size(); i++) {
        const J& e = labels[i];
        Label* l = (Label*)allocate_clear(sizeof(Label));
        l->init(j_str(e["text"]).c_str());
        l->tag = j_tag(e);
        l->origin = Q.u2(e["xy"]);
        l->anchor = (Anchor)e["anchor"].i();
        l->x_reflection = e["refl"].t();
        l->magnification = (double)e["mag"].i() / 1024.0;
        l->rotation = (double)e["ang"].i() / 64.0 * (M_PI / 180.0);
        set_repetition(l->repetition, e["rep"], Q);
        build_props(l->properties, e["props"]);
        cell->label_array.append(l);
    }
}

static inline void build_refs(Built& B, Cell* cell, const J& c) {
    const J& refs = c["refs"];
    for (size_t i = 0; i < refs.size(); i++) {
        const J& e = refs[i];
        Reference* r = (Reference*)allocate_clear(sizeof(Reference));
        std::string nm = j_str(e["sname"]);
        if (e["kind"].s() == "cell" && B.cells.count(nm)) r->init(B.cells[nm]);
        else r->init(nm.c_str());
        r->origin = B.Q.u2(e["xy"]);
        r->x_reflection = e["refl"].t();
        r->magnification = (double)e["mag"].i() / 1024.0;
        r->rotation = (double)e["ang"].i() / 64.0 * (M_PI / 180.0);
        set_repetition(r->repetition, e["rep"], B.Q);
        build_props(r->properties, e["props"]);
        cell->reference_array.append(r);
    }
}

// al: [name, unit (8 bytes), prec (8 bytes), cells: [...], outside: [...] cells NOT added to the lib]
static inline void build_library(Built& B, const J& al) {
    double unit, prec;
    uint8_t ub[8], pb[8];
    for (int i = 0; i < 8; i++) {
        ub[i] = (uint8_t)al["unit"][(size_t)i].i();
        pb[i] = (uint8_t)al["prec"][(size_t)i].i();
    }
    memcpy(&unit, ub, 8);
    memcpy(&prec, pb, 8);
    B.lib.init(j_str(al["name"]).c_str(), unit, prec);
    // quanta per database unit: 4 unless the description asks for a finer lattice
    B.Q.q = (al.has("qd") ? (double)al["qd"].i() : 4.0) * (double)llround(unit / prec);
    for (const char* key : {"cells", "outside"}) {
        const J& cs = al[key];
        for (size_t i = 0; i < cs.size(); i++) {
            Cell* cell = (Cell*)allocate_clear(sizeof(Cell));
            cell->name = copy_string(j_str(cs[i]["name"]).c_str(), NULL);
            B.cells[j_str(cs[i]["name"])] = cell;
            if (strcmp(key, "cells") == 0) B.lib.cell_array.append(cell);
            build_cell_content(B, cell, cs[i]);
            if (cs[i].has("cprops")) build_props(cell->properties, cs[i]["cprops"]);
        }
    }
    for (const char* key : {"cells", "outside"}) {
        const J& cs = al[key];
        for (size_t i = 0; i < cs.size(); i++) build_refs(B, B.cells[j_str(cs[i]["name"])], cs[i]);
    }
    if (al.has("lprops")) build_props(B.lib.properties, al["lprops"]);
}
