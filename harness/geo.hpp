// Shared geometry helpers for the geometric harnesses (C06 C09 C10 C11 ...): element factories
// driven by JSON descriptions, repetitions, outlines and property digests.
#pragma once
#include <gdstk/gdstk.hpp>

#include "common.hpp"

using namespace gdstk;

// All specification coordinates are integers in quanta; user units = quanta / Q.
struct Quant {
    double q = 10;
    double u(int64_t v) const { return (double)v / q; }
    Vec2 u2(const J& p) const { return Vec2{u(p[(size_t)0].i()), u(p[(size_t)1].i())}; }
};

static inline void set_repetition(Repetition& rep, const J& r, const Quant& Q) {
    memset(&rep, 0, sizeof rep);
    const std::string& t = r["type"].s();
    if (t == "none" || t.empty()) return;
    if (t == "rect") {
        rep.type = RepetitionType::Rectangular;
        rep.columns = (uint64_t)r["cols"].i();
        rep.rows = (uint64_t)r["rows"].i();
        rep.spacing = Q.u2(r["sp"]);
    } else if (t == "regular") {
        rep.type = RepetitionType::Regular;
        rep.columns = (uint64_t)r["cols"].i();
        rep.rows = (uint64_t)r["rows"].i();
        rep.v1 = Q.u2(r["v1"]);
        rep.v2 = Q.u2(r["v2"]);
    } else if (t == "explicit") {
        rep.type = RepetitionType::Explicit;
        for (size_t i = 0; i < r["offs"].size(); i++) rep.offsets.append(Q.u2(r["offs"][i]));
    } else if (t == "explicitx" || t == "explicity") {
        rep.type = t == "explicitx" ? RepetitionType::ExplicitX : RepetitionType::ExplicitY;
        for (size_t i = 0; i < r["coords"].size(); i++) rep.coords.append(Q.u(r["coords"][i].i()));
    }
}

static inline const char* rep_type_name(const Repetition& rep) {
    switch (rep.type) {
        case RepetitionType::None: return "none";
        case RepetitionType::Rectangular: return "rect";
        case RepetitionType::Regular: return "regular";
        case RepetitionType::Explicit: return "explicit";
        case RepetitionType::ExplicitX: return "explicitx";
        case RepetitionType::ExplicitY: return "explicity";
    }
    return "?";
}

// rotation [c,s,d] -> radians
static inline double rot_angle(const J& rot) { return atan2((double)rot["s"].i(), (double)rot["c"].i()); }
static inline double mag_value(const J& mag) { return (double)mag["n"].i() / (double)mag["d"].i(); }

// log a point list on the lattice; sets ok=false when a value is off-lattice / not finite
static inline void log_points(W& w, const Vec2* pts, uint64_t n, const Quant& Q, bool& ok) {
    w.begin_arr();
    for (uint64_t i = 0; i < n; i++)
        w.begin_arr().i(lat(pts[i].x, Q.q, ok)).i(lat(pts[i].y, Q.q, ok)).end_arr();
    w.end_arr();
}

// canonical digest of a property list (names, typed values, order)
static inline std::string props_digest(const Property* p) {
    std::string s;
    for (; p; p = p->next) {
        s += p->name;
        s += "=";
        for (PropertyValue* v = p->value; v; v = v->next) {
            switch (v->type) {
                case PropertyType::UnsignedInteger: s += "u" + std::to_string(v->unsigned_integer); break;
                case PropertyType::Integer: s += "i" + std::to_string(v->integer); break;
                case PropertyType::Real: s += "r" + std::to_string(v->real); break;
                case PropertyType::String: s += "s" + std::string((const char*)v->bytes, v->count); break;
            }
            s += ",";
        }
        s += ";";
    }
    return s;
}

static inline void add_two_props(Property*& p) {
    set_property(p, "pa", (uint64_t)7, true);
    set_property(p, "pa", "txt", false);
    set_gds_property(p, 3, "gdsval");
}

// ---- element factories (fixed small shapes; coordinates in user units) ----------------------
static inline Polygon* make_polygon(Tag tag) {
    Polygon* p = (Polygon*)allocate_clear(sizeof(Polygon));
    p->tag = tag;
    p->point_array.append(Vec2{0, 0});
    p->point_array.append(Vec2{3, 0});
    p->point_array.append(Vec2{3, 1});
    p->point_array.append(Vec2{1, 2});
    return p;
}
// two parallel elements with offsets +-0.5, constant widths: L-shaped spine
static inline FlexPath* make_flexpath(Tag tag0, Tag tag1) {
    FlexPath* f = (FlexPath*)allocate_clear(sizeof(FlexPath));
    double w[2] = {0.4, 0.2}, o[2] = {-0.5, 0.5};
    Tag tags[2] = {tag0, tag1};
    f->init(Vec2{0, 0}, 2, w, o, 0.01, tags);
    f->segment(Vec2{4, 0}, NULL, NULL, false);
    f->segment(Vec2{4, 3}, NULL, NULL, false);
    f->scale_width = true;   // widths follow magnifications (the Python default)
    f->elements[1].end_type = EndType::HalfWidth;   // a cap whose length follows the (scaled) width
    return f;
}
static inline RobustPath* make_robustpath(Tag tag0, Tag tag1) {
    RobustPath* r = (RobustPath*)allocate_clear(sizeof(RobustPath));
    double w[2] = {0.4, 0.2}, o[2] = {-0.5, 0.5};
    Tag tags[2] = {tag0, tag1};
    r->init(Vec2{0, 0}, 2, w, o, 0.01, 1000, tags);
    r->segment(Vec2{4, 0}, NULL, NULL, false);
    r->segment(Vec2{4, 3}, NULL, NULL, false);
    r->scale_width = true;
    r->elements[1].end_type = EndType::HalfWidth;   // a cap whose length follows the (scaled) width
    return r;
}
static inline Label* make_label(Tag tag) {
    Label* l = (Label*)allocate_clear(sizeof(Label));
    l->tag = tag;
    l->text = copy_string("lbl", NULL);
    l->origin = Vec2{1, 2};
    l->magnification = 1;
    l->anchor = Anchor::NE;
    l->rotation = 0.5;
    return l;
}

// outline of an element as a flat list of polygons (paths through to_polygons)
static inline void outline_polygons(Polygon* p, Array<Polygon*>& out) {
    Polygon* c = (Polygon*)allocate_clear(sizeof(Polygon));
    c->copy_from(*p);
    c->repetition.clear();
    out.append(c);
}

// vertex lists are compared after dropping consecutive (near-)duplicate vertices, which denote
// the same closed region: the path code may or may not keep a doubled corner depending on
// floating-point noise
static inline std::vector<Vec2> dedup_points(const Array<Vec2>& a, double tol = 1e-9) {
    std::vector<Vec2> r;
    for (uint64_t i = 0; i < a.count; i++) {
        if (!r.empty() && fabs(r.back().x - a[i].x) <= tol && fabs(r.back().y - a[i].y) <= tol)
            continue;
        r.push_back(a[i]);
    }
    while (r.size() > 1 && fabs(r.back().x - r[0].x) <= tol && fabs(r.back().y - r[0].y) <= tol)
        r.pop_back();
    return r;
}
static inline bool same_points_shifted(const Array<Vec2>& a_, const Array<Vec2>& b_, Vec2 d,
                                       double tol = 1e-9) {
    std::vector<Vec2> a = dedup_points(a_), b = dedup_points(b_);
    if (a.size() != b.size()) return false;
    for (size_t i = 0; i < a.size(); i++) {
        if (fabs(a[i].x + d.x - b[i].x) > tol || fabs(a[i].y + d.y - b[i].y) > tol) return false;
    }
    return true;
}

static inline bool same_outlines_shifted(Array<Polygon*>& a, Array<Polygon*>& b, Vec2 d) {
    if (a.count != b.count) return false;
    for (uint64_t i = 0; i < a.count; i++) {
        if (a[i]->tag != b[i]->tag) return false;
        if (!same_points_shifted(a[i]->point_array, b[i]->point_array, d)) return false;
    }
    return true;
}

static inline void free_polys(Array<Polygon*>& a) {
    for (uint64_t i = 0; i < a.count; i++) {
        a[i]->clear();
        free_allocation(a[i]);
    }
    a.clear();
}
