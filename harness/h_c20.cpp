// C20 harness: replays TLC-generated (and seeded random) operation histories on gdstk's real
// Map<T>, Set<T>, TagMap, StyleMap, property lists and sort routines, and logs what the public
// API shows after every call.  TLC (C20*Trace.tla) validates the log; nothing is decided here.
#include <gdstk/gdstk.hpp>
#include <gdstk/map.hpp>
#include <gdstk/set.hpp>
#include <gdstk/sort.hpp>
#include <gdstk/tagmap.hpp>

#include <random>

#include "common.hpp"

using namespace gdstk;

static const uint64_t CAPS[] = {8, 16, 32, 64, 128};

// ---------------------------------------------------------------- homes
// Candidate keys and their measured home slots, computed with the library's own hash.
static void cmd_homes() {
    W w;
    w.begin_obj();
    w.key("map").begin_arr();
    for (int i = 0; i < 400; i++) {
        char key[16];
        snprintf(key, sizeof key, "k%d", i);
        w.begin_obj().ks("key", key).key("h").begin_arr();
        for (uint64_t c : CAPS) w.i((int64_t)(hash((const char*)key) % c));
        w.end_arr().end_obj();
    }
    w.end_arr();
    // Set<uint64_t>, TagMap and StyleMap all hash 8 raw bytes
    w.key("u64").begin_arr();
    for (uint64_t i = 0; i < 400; i++) {
        // tags: layer = i % 20, type = i / 20 ; the first candidate is the zero tag
        uint64_t t = make_tag((uint32_t)(i % 20), (uint32_t)(i / 20));
        w.begin_obj().ks("key", std::to_string(t)).key("h").begin_arr();
        for (uint64_t c : CAPS) w.i((int64_t)(hash(t) % c));
        w.end_arr().end_obj();
    }
    w.end_arr();
    w.end_obj();
    puts(w.s.c_str());
}

// ---------------------------------------------------------------- table adapters
// index <-> real key mapping; index 0.. ; value indices are small integers
struct Keys {
    std::vector<std::string> skeys;  // for map
    std::vector<uint64_t> ukeys;     // for the others
    int find_s(const char* s) const {
        for (size_t i = 0; i < skeys.size(); i++)
            if (skeys[i] == s) return (int)i;
        return -1;
    }
    int find_u(uint64_t u) const {
        for (size_t i = 0; i < ukeys.size(); i++)
            if (ukeys[i] == u) return (int)i;
        return -1;
    }
};

struct Table {
    virtual ~Table() {}
    virtual void set(int k, int v) = 0;
    virtual int del(int k) = 0;
    virtual int get(int k) = 0;
    virtual int has(int k) = 0;
    virtual void clear() = 0;
    virtual void copy() = 0;
    virtual int64_t count() = 0;
    virtual void content(W& w) = 0;  // [[k,v],...] by next() iteration
};

struct TMap : Table {
    Map<uint64_t> m = {};
    const Keys& K;
    TMap(const Keys& k) : K(k) {}
    ~TMap() { m.clear(); }
    void set(int k, int v) override { m.set(K.skeys[k].c_str(), (uint64_t)v); }
    int del(int k) override { return m.del(K.skeys[k].c_str()); }
    int get(int k) override { return (int)m.get(K.skeys[k].c_str()); }
    int has(int k) override { return m.has_key(K.skeys[k].c_str()); }
    void clear() override { m.clear(); }
    void copy() override {
        Map<uint64_t> c = {};
        c.copy_from(m);
        m.clear();
        m = c;
    }
    int64_t count() override { return (int64_t)m.count; }
    void content(W& w) override {
        w.begin_arr();
        for (MapItem<uint64_t>* it = m.next(NULL); it; it = m.next(it))
            w.begin_arr().i(K.find_s(it->key)).i((int64_t)it->value).end_arr();
        w.end_arr();
    }
};

struct TSet : Table {
    Set<uint64_t> m = {};
    const Keys& K;
    TSet(const Keys& k) : K(k) {}
    ~TSet() { m.clear(); }
    void set(int k, int v) override { m.add(K.ukeys[k]); }
    int del(int k) override { return m.del(K.ukeys[k]); }
    int get(int k) override { return m.has_value(K.ukeys[k]) ? 1 : 0; }
    int has(int k) override { return m.has_value(K.ukeys[k]); }
    void clear() override { m.clear(); }
    void copy() override {
        Set<uint64_t> c = {};
        c.copy_from(m);
        m.clear();
        m = c;
    }
    int64_t count() override { return (int64_t)m.count; }
    void content(W& w) override {
        w.begin_arr();
        for (SetItem<uint64_t>* it = m.next(NULL); it; it = m.next(it))
            w.begin_arr().i(K.find_u(it->value)).i(1).end_arr();
        w.end_arr();
    }
};

struct TTag : Table {
    TagMap m = {};
    const Keys& K;
    TTag(const Keys& k) : K(k) {}
    ~TTag() { m.clear(); }
    void set(int k, int v) override { m.set(K.ukeys[k], K.ukeys[v]); }
    int del(int k) override { return m.del(K.ukeys[k]); }
    int get(int k) override { return K.find_u(m.get(K.ukeys[k])); }
    int has(int k) override { return m.has_key(K.ukeys[k]); }
    void clear() override { m.clear(); }
    void copy() override {
        TagMap c = {};
        c.copy_from(m);
        m.clear();
        m = c;
    }
    int64_t count() override { return (int64_t)m.count; }
    void content(W& w) override {
        w.begin_arr();
        for (TagMapItem* it = m.next(NULL); it; it = m.next(it))
            w.begin_arr().i(K.find_u(it->key)).i(K.find_u(it->value)).end_arr();
        w.end_arr();
    }
};

static int style_val(const char* s) { return s ? atoi(s + 1) : 0; }
struct TStyle : Table {
    StyleMap m = {};
    const Keys& K;
    TStyle(const Keys& k) : K(k) {}
    ~TStyle() { m.clear(); }
    void set(int k, int v) override {
        char buf[16];
        snprintf(buf, sizeof buf, "s%d", v);
        m.set(K.ukeys[k], buf);
    }
    int del(int k) override { return m.del(K.ukeys[k]); }
    int get(int k) override { return style_val(m.get(K.ukeys[k])); }
    int has(int k) override { return m.get(K.ukeys[k]) != NULL; }
    void clear() override { m.clear(); }
    void copy() override {
        StyleMap c = {};
        c.copy_from(m);
        m.clear();
        m = c;
    }
    int64_t count() override { return (int64_t)m.count; }
    void content(W& w) override {
        w.begin_arr();
        for (Style* it = m.next(NULL); it; it = m.next(it))
            w.begin_arr().i(K.find_u(it->tag)).i(style_val(it->value)).end_arr();
        w.end_arr();
    }
};

static Table* make_table(const std::string& kind, const Keys& K) {
    if (kind == "map") return new TMap(K);
    if (kind == "set") return new TSet(K);
    if (kind == "tagmap") return new TTag(K);
    return new TStyle(K);
}

static void table_history(const std::string& kind, const Keys& K, const J& h, int nkeys,
                          int key0, FILE* out, const std::string& line) {
    Table* t = make_table(kind, K);
    fprintf(out, "{\"e\":\"Reset\",\"g\":%s}\n", line.c_str());
    for (size_t s = 0; s < h.size(); s++) {
        const J& op = h[s];
        const std::string& o = op["op"].s();
        int k = (int)op["k"].i(), v = (int)op["v"].i();
        W w;
        w.begin_obj().ks("e", o).kv("k", k).kv("v", v);
        if (o == "set") {
            t->set(k, v);
        } else if (o == "del") {
            w.kb("r", t->del(k));
        } else if (o == "get") {
            w.kv("r", t->get(k));
        } else if (o == "clear") {
            t->clear();
        } else if (o == "copy") {
            t->copy();
        }
        w.kv("count", t->count());
        w.key("content");
        t->content(w);
        w.key("gets").begin_arr();
        for (int q = key0; q < nkeys; q++) w.i(t->get(q));
        w.end_arr();
        w.key("has").begin_arr();
        for (int q = key0; q < nkeys; q++) w.b(t->has(q));
        w.end_arr();
        w.end_obj();
        fputs(w.s.c_str(), out);
        fputc('\n', out);
    }
    delete t;
}

static int cmd_tables(int argc, char** argv) {
    // tables <kind> <keys.json> <gen.ndjson> <obs.ndjson> <seed> <nrand> <randlen>
    std::string kind = argv[2];
    J kj = jparse(read_lines(argv[3])[0]);
    const J& kk = kj[kind.c_str()]["keys"];
    Keys K;
    for (size_t i = 0; i < kk.size(); i++) {
        K.skeys.push_back(kk[i].s());
        K.ukeys.push_back(strtoull(kk[i].s().c_str(), NULL, 10));
    }
    int nkeys = (int)kk.size();
    int key0 = kind == "tagmap" ? 0 : 1;  // index 0 is the zero tag; unused for the other kinds
    std::vector<std::string> lines;
    if (strcmp(argv[4], "-") != 0) lines = read_lines(argv[4]);
    // seeded random histories over the whole key universe (long: reaches capacity 64)
    uint64_t seed = strtoull(argv[6], NULL, 10);
    int nrand = atoi(argv[7]), randlen = atoi(argv[8]);
    std::mt19937_64 rng(seed * 7919 + std::hash<std::string>()(kind));
    for (int r = 0; r < nrand; r++) {
        W w;
        w.begin_obj().key("h").begin_arr();
        int live_bias = (int)(rng() % 3);  // 0: grow, 1: churn, 2: shrink-heavy
        for (int s = 0; s < randlen; s++) {
            int k = key0 + (int)(rng() % (nkeys - key0));
            int v = kind == "tagmap" ? (int)(rng() % nkeys) : 1 + (int)(rng() % 3);
            if (kind == "set") v = 1;
            unsigned dice = (unsigned)(rng() % 100);
            const char* op = "set";
            unsigned pdel = live_bias == 0 ? 15 : live_bias == 1 ? 40 : 55;
            if (dice < pdel) op = "del";
            else if (dice < pdel + 2) op = "clear";
            else if (dice < pdel + 6) op = "copy";
            w.begin_obj().ks("op", op).kv("k", k).kv("v", v).end_obj();
        }
        w.end_arr().end_obj();
        lines.push_back(w.s);
    }
    return supervise(lines, argv[5], [&](int64_t, const std::string& line, FILE* out) {
        J g = jparse(line);
        table_history(kind, K, g["h"], nkeys, key0, out, line);
    });
}

// ---------------------------------------------------------------- property lists
static void log_plist(W& w, Property* p) {
    w.begin_arr();
    for (; p; p = p->next) {
        w.begin_obj().ks("name", p->name).key("vals").begin_arr();
        for (PropertyValue* v = p->value; v; v = v->next) {
            w.begin_obj();
            switch (v->type) {
                case PropertyType::UnsignedInteger:
                    w.ks("t", "u").kv("x", (int64_t)v->unsigned_integer).kb("z", false);
                    break;
                case PropertyType::Integer:
                    w.ks("t", "i").kv("x", v->integer).kb("z", false);
                    break;
                case PropertyType::Real:
                    // generator reals are small integers and halves: log twice the value
                    w.ks("t", "r").kv("x", (int64_t)llround(v->real * 2)).kb("z", false);
                    break;
                case PropertyType::String: {
                    bool z = v->count > 0 && v->bytes[v->count - 1] == 0;
                    std::string s((const char*)v->bytes, (size_t)(z ? v->count - 1 : v->count));
                    w.ks("t", "s").ks("x", s).kb("z", z);
                }
            }
            w.end_obj();
        }
        w.end_arr().end_obj();
    }
    w.end_arr();
}

static void log_vals(W& w, PropertyValue* v) {
    if (!v) {
        w.begin_arr().begin_obj().ks("t", "null").kv("x", 0).kb("z", false).end_obj().end_arr();
        return;
    }
    Property tmp = {(char*)"", v, NULL};
    W inner;
    log_plist(inner, &tmp);
    // inner.s is [{"name":"","vals":[...]}] : extract the vals array
    size_t a = inner.s.find("\"vals\":") + 7;
    w.raw(inner.s.substr(a, inner.s.size() - a - 2));
}

static void props_history(const J& h, FILE* out, const std::string& line) {
    Property* pl = NULL;
    fprintf(out, "{\"e\":\"Reset\",\"g\":%s}\n", line.c_str());
    for (size_t s = 0; s < h.size(); s++) {
        const J& op = h[s];
        const std::string& o = op["op"].s();
        const std::string& n = op["n"].s();
        const J& v = op["v"];
        bool f = op["f"].t();
        W w;
        w.begin_obj().ks("e", o).ks("n", n).kb("f", f);
        w.key("v").begin_obj().ks("t", v["t"].s());
        if (v["t"].s() == "s") w.ks("x", v["x"].s()); else w.kv("x", v["x"].i());
        w.kb("z", false).end_obj();
        if (o == "set") {
            const std::string& t = v["t"].s();
            if (t == "u") set_property(pl, n.c_str(), (uint64_t)v["x"].i(), f);
            else if (t == "i") set_property(pl, n.c_str(), (int64_t)v["x"].i(), f);
            else if (t == "r") set_property(pl, n.c_str(), (double)v["x"].i() / 2.0, f);
            else set_property(pl, n.c_str(), v["x"].s().c_str(), f);
        } else if (o == "setbytes") {
            const std::string& x = v["x"].s();
            set_property(pl, n.c_str(), (const uint8_t*)x.data(), (uint64_t)x.size(), f);
        } else if (o == "setgds") {
            w.ks("s", op["s"].s());
            set_gds_property(pl, (uint16_t)v["x"].i(), op["s"].s().c_str());
        } else if (o == "remove") {
            g_shared->phase = 1;
            uint64_t r = remove_property(pl, n.c_str(), f);
            w.kv("r", (int64_t)r);
        } else if (o == "removegds") {
            w.kb("r", remove_gds_property(pl, (uint16_t)v["x"].i()));
        } else if (o == "copy") {
            Property* c = properties_copy(pl);
            properties_clear(pl);
            pl = c;
        } else if (o == "clear") {
            properties_clear(pl);
        }
        w.key("list");
        log_plist(w, pl);
        // queries for the whole (small) universe that the history mentions
        w.key("gets").begin_arr();
        for (const char* qn : {"a", "b", "S_GDS_PROPERTY"}) {
            w.begin_obj().ks("n", qn).key("r");
            log_vals(w, get_property(pl, qn));
            w.end_obj();
        }
        w.end_arr();
        w.key("ggets").begin_arr();
        for (int a = 1; a <= 2; a++) {
            w.begin_obj().kv("a", a).key("r");
            log_vals(w, get_gds_property(pl, (uint16_t)a));
            w.end_obj();
        }
        w.end_arr();
        w.end_obj();
        fputs(w.s.c_str(), out);
        fputc('\n', out);
    }
    properties_clear(pl);
}

static int cmd_props(int argc, char** argv) {
    // props <gen.ndjson> <obs.ndjson>
    std::vector<std::string> lines = read_lines(argv[2]);
    return supervise(lines, argv[3], [&](int64_t, const std::string& line, FILE* out) {
        J g = jparse(line);
        props_history(g["h"], out, line);
    });
}

// ---------------------------------------------------------------- sorting
static int g_cmp = 0;
static bool cmp_fn(const int64_t& a, const int64_t& b) {
    switch (g_cmp) {
        case 0: return a < b;
        case 1: return a > b;
        case 2: return (a % 2) < (b % 2);
        default: return (a / 3) < (b / 3);
    }
}
static const char* CMP_NAMES[] = {"lt", "gt", "mod", "div"};

static std::vector<int64_t> make_pattern(const std::string& pat, int64_t n, int64_t vals,
                                         std::mt19937_64& rng) {
    std::vector<int64_t> a((size_t)n);
    for (int64_t i = 0; i < n; i++) {
        if (pat == "sorted") a[i] = i % vals;
        else if (pat == "reversed") a[i] = (n - 1 - i) % vals;
        else if (pat == "constant") a[i] = 1;
        else if (pat == "organ") a[i] = (i < n / 2 ? i : n - 1 - i) % vals;
        else if (pat == "sawtooth") a[i] = i % 4;
        else if (pat == "median3killer") {
            // classic adversary for median-of-three: forces deep recursion
            int64_t k = n / 2;
            if (i < k) a[i] = (i % 2 == 0) ? i + 1 : k + i;
            else a[i] = 2 * (i - k) + 2;
            a[i] %= vals;
        } else a[i] = (int64_t)(rng() % (uint64_t)vals);
    }
    if (pat == "sorted") std::sort(a.begin(), a.end());
    if (pat == "reversed") std::sort(a.begin(), a.end(), std::greater<int64_t>());
    return a;
}

static void sort_case(const J& g, std::mt19937_64& rng, FILE* out) {
    // {"arr":[...]} explicit, or {"n":..,"pat":..,"vals":..}; "cmp": comparator id; "algo"
    std::vector<int64_t> a;
    if (g.has("arr")) {
        for (size_t i = 0; i < g["arr"].size(); i++) a.push_back(g["arr"][i].i());
    } else {
        a = make_pattern(g["pat"].s(), g["n"].i(), g["vals"].i(), rng);
    }
    const std::string cmp = g["cmp"].s();
    g_cmp = cmp == "lt" ? 0 : cmp == "gt" ? 1 : cmp == "mod" ? 2 : 3;
    const std::string algo = g["algo"].s();
    std::vector<int64_t> in = a;
    // guard words around the buffer so an out-of-bounds write is visible
    std::vector<int64_t> buf(a.size() + 4, INT64_MIN + 7);
    memcpy(buf.data() + 2, a.data(), a.size() * sizeof(int64_t));
    int64_t* items = buf.data() + 2;
    int64_t n = (int64_t)a.size();
    if (algo == "sort") gdstk::sort(items, n, cmp_fn);
    else if (algo == "heap") gdstk::heap_sort(items, n, cmp_fn);
    else if (algo == "insertion") gdstk::insertion_sort(items, n, cmp_fn);
    else if (algo == "intro0") gdstk::intro_sort(items, n, (int64_t)0, cmp_fn);
    else if (algo == "intro1") gdstk::intro_sort(items, n, (int64_t)1, cmp_fn);
    else if (algo == "array") {
        Array<int64_t> arr = {};
        for (int64_t x : a) arr.append(x);
        gdstk::sort(arr, cmp_fn);
        memcpy(items, arr.items, (size_t)n * sizeof(int64_t));
        arr.clear();
    } else if (algo == "default") {
        gdstk::sort(items, n);
        g_cmp = 0;
    }
    bool guards = buf[0] == INT64_MIN + 7 && buf[1] == INT64_MIN + 7 &&
                  buf[n + 2] == INT64_MIN + 7 && buf[n + 3] == INT64_MIN + 7;
    W w;
    w.begin_obj().ks("e", "sort").ks("algo", algo).ks("cmp", algo == "default" ? "lt" : cmp);
    w.kv("n", n).kb("guards", guards);
    w.key("in").begin_arr();
    for (int64_t x : in) w.i(x);
    w.end_arr();
    w.key("out").begin_arr();
    for (int64_t i = 0; i < n; i++) w.i(items[i]);
    w.end_arr().end_obj();
    fputs(w.s.c_str(), out);
    fputc('\n', out);
}

static int cmd_sort(int argc, char** argv) {
    // sort <gen.ndjson> <obs.ndjson> <seed>
    std::vector<std::string> lines = read_lines(argv[2]);
    uint64_t seed = strtoull(argv[4], NULL, 10);
    return supervise(lines, argv[3], [&](int64_t k, const std::string& line, FILE* out) {
        std::mt19937_64 rng(seed * 1000003 + (uint64_t)k);
        J g = jparse(line);
        sort_case(g, rng, out);
    });
}

int main(int argc, char** argv) {
    if (argc < 2) return 2;
    gdstk::set_error_logger(NULL);
    std::string cmd = argv[1];
    if (cmd == "homes") {
        cmd_homes();
        return 0;
    }
    if (cmd == "tables" && argc >= 9) return cmd_tables(argc, argv);
    if (cmd == "props" && argc >= 4) return cmd_props(argc, argv);
    if (cmd == "sort" && argc >= 5) return cmd_sort(argc, argv);
    fprintf(stderr, "usage\n");
    return 2;
}
