// Hierarchy harness (C10 C06 C09): element transforms, hierarchy queries, flattening,
// bounding boxes and convex hulls on TLC-generated cases.  Q quanta per user unit.
#include "geo.hpp"

static Quant Q;
static const Tag T0 = make_tag(1, 2), T1 = make_tag(3, 4), TP = make_tag(5, 6), TL = make_tag(7, 8);

static int64_t tagid(Tag t) { return (int64_t)get_layer(t) * 100 + (int64_t)get_type(t); }

// outline of a polygon list as parts [tag, ring] with consecutive duplicates removed
static void w_ring(W& w, const Array<Vec2>& pts, bool& ok) {
    std::vector<Vec2> d = dedup_points(pts, 1e-7);
    w.begin_arr();
    for (auto& p : d) w.begin_arr().i(lat(p.x, Q.q, ok)).i(lat(p.y, Q.q, ok)).end_arr();
    w.end_arr();
}
static void w_offsets(W& w, const char* key, const Repetition& rep, bool& ok) {
    w.key(key).begin_arr();
    if (rep.type != RepetitionType::None) {
        Array<Vec2> offs = {};
        rep.get_offsets(offs);
        for (uint64_t i = 0; i < offs.count; i++)
            w.begin_arr().i(lat(offs[i].x, Q.q, ok)).i(lat(offs[i].y, Q.q, ok)).end_arr();
        offs.clear();
    } else {
        w.begin_arr().i(0).i(0).end_arr();
    }
    w.end_arr();
}
static void w_polys_parts(W& w, Array<Polygon*>& a, bool& ok) {
    for (uint64_t i = 0; i < a.count; i++) {
        w.begin_obj().kv("tag", tagid(a[i]->tag)).key("ring");
        w_ring(w, a[i]->point_array, ok);
        w.end_obj();
    }
}

struct Elem {
    std::string kind;
    Polygon* poly = NULL;
    FlexPath* flex = NULL;
    RobustPath* robust = NULL;
    Label* label = NULL;
    Reference* ref = NULL;
    Cell* refcell = NULL;
};

static Elem make_elem(const std::string& kind) {
    Elem e;
    e.kind = kind;
    if (kind == "polygon") e.poly = make_polygon(TP);
    else if (kind == "flexpath" || kind == "flexpath_nosw") {
        e.flex = make_flexpath(T0, T1);
        e.flex->scale_width = kind == "flexpath";
    } else if (kind == "robustpath" || kind == "robustpath_nosw") {
        e.robust = make_robustpath(T0, T1);
        e.robust->scale_width = kind == "robustpath";
    } else if (kind == "label") {
        e.label = make_label(TL);
        e.label->rotation = 0;
    } else if (kind == "reference") {
        e.refcell = (Cell*)allocate_clear(sizeof(Cell));
        e.refcell->name = copy_string("sub", NULL);
        e.refcell->polygon_array.append(make_polygon(TP));
        e.ref = (Reference*)allocate_clear(sizeof(Reference));
        e.ref->init(e.refcell);
        e.ref->origin = Vec2{2, -1};
    }
    return e;
}
static Repetition& rep_of(Elem& e) {
    if (e.poly) return e.poly->repetition;
    if (e.flex) return e.flex->repetition;
    if (e.robust) return e.robust->repetition;
    if (e.label) return e.label->repetition;
    return e.ref->repetition;
}

// geometry + fields of an element
static void log_elem(W& w, Elem& e, bool& ok) {
    w.begin_obj();
    w.key("parts").begin_arr();
    if (e.poly) {
        Array<Polygon*> a = {};
        a.append(e.poly);
        w_polys_parts(w, a, ok);
        a.clear();
    } else if (e.flex) {
        FlexPath tmp = {};
        tmp.copy_from(*e.flex);
        tmp.repetition.clear();
        Array<Polygon*> a = {};
        tmp.to_polygons(false, 0, a);
        w_polys_parts(w, a, ok);
        free_polys(a);
    } else if (e.robust) {
        RobustPath tmp = {};
        tmp.copy_from(*e.robust);
        tmp.repetition.clear();
        Array<Polygon*> a = {};
        tmp.to_polygons(false, 0, a);
        w_polys_parts(w, a, ok);
        free_polys(a);
    } else if (e.label) {
        w.begin_obj().kv("tag", tagid(e.label->tag)).key("ring").begin_arr();
        w.begin_arr().i(lat(e.label->origin.x, Q.q, ok)).i(lat(e.label->origin.y, Q.q, ok)).end_arr();
        w.end_arr().end_obj();
    }
    w.end_arr();
    w_offsets(w, "offs", rep_of(e), ok);
    if (e.flex) {
        w.key("spine").begin_arr();
        for (uint64_t i = 0; i < e.flex->spine.point_array.count; i++)
            w.begin_arr().i(lat(e.flex->spine.point_array[i].x, Q.q, ok))
                .i(lat(e.flex->spine.point_array[i].y, Q.q, ok)).end_arr();
        w.end_arr();
        w.key("els").begin_arr();
        for (uint64_t k = 0; k < e.flex->num_elements; k++) {
            FlexPathElement& el = e.flex->elements[k];
            w.begin_obj().kv("hw", lat(el.half_width_and_offset[0].u, Q.q * 10, ok));
            w.kv("off", lat(el.half_width_and_offset[0].v, Q.q * 10, ok));
            bool uniform = true;
            for (uint64_t i = 1; i < el.half_width_and_offset.count; i++)
                uniform = uniform && el.half_width_and_offset[i] == el.half_width_and_offset[0];
            w.kb("uniform", uniform).kv("n", (int64_t)el.half_width_and_offset.count).end_obj();
        }
        w.end_arr();
    }
    if (e.robust) {
        // trafo = [xx xy tx; yx yy ty]: linear part in 1/1000, translation in quanta
        w.key("trafo").begin_arr();
        w.i(lat(e.robust->trafo[0], 1000, ok)).i(lat(e.robust->trafo[1], 1000, ok));
        w.i(lat(e.robust->trafo[2], Q.q, ok)).i(lat(e.robust->trafo[3], 1000, ok));
        w.i(lat(e.robust->trafo[4], 1000, ok)).i(lat(e.robust->trafo[5], Q.q, ok));
        w.end_arr();
        w.kv("wscale", lat(e.robust->width_scale, 1000, ok));
        w.kv("oscale", lat(e.robust->offset_scale, 1000, ok));
    }
    if (e.label || e.ref) {
        Vec2 o = e.label ? e.label->origin : e.ref->origin;
        double rot = e.label ? e.label->rotation : e.ref->rotation;
        double mag = e.label ? e.label->magnification : e.ref->magnification;
        bool refl = e.label ? e.label->x_reflection : e.ref->x_reflection;
        w.key("place").begin_obj();
        w.key("o").begin_arr().i(lat(o.x, Q.q, ok)).i(lat(o.y, Q.q, ok)).end_arr();
        w.kv("mag", lat(mag, 64, ok)).kb("refl", refl);
        w.kv("c", lat(cos(rot), 125, ok)).kv("s", lat(sin(rot), 125, ok));
        w.end_obj();
    }
    w.end_obj();
}

static void apply_op(Elem& e, const J& o) {
    const std::string& op = o["op"].s();
    if (op == "translate") {
        Vec2 v = Q.u2(o["v"]);
        if (e.poly) e.poly->translate(v);
        if (e.flex) e.flex->translate(v);
        if (e.robust) e.robust->translate(v);
    } else if (op == "scale") {
        double s = mag_value(o["s"]);
        Vec2 c = Q.u2(o["c"]);
        if (e.poly) e.poly->scale(Vec2{s, s}, c);
        if (e.flex) e.flex->scale(s, c);
        if (e.robust) e.robust->scale(s, c);
    } else if (op == "mirror") {
        Vec2 p0 = Q.u2(o["p0"]), p1 = Q.u2(o["p1"]);
        if (e.poly) e.poly->mirror(p0, p1);
        if (e.flex) e.flex->mirror(p0, p1);
        if (e.robust) e.robust->mirror(p0, p1);
    } else if (op == "rotate") {
        double a = rot_angle(o["rot"]);
        Vec2 c = Q.u2(o["c"]);
        if (e.poly) e.poly->rotate(a, c);
        if (e.flex) e.flex->rotate(a, c);
        if (e.robust) e.robust->rotate(a, c);
    } else if (op == "transform") {
        double m = mag_value(o["mag"]), a = rot_angle(o["rot"]);
        bool f = o["refl"].t();
        Vec2 orig = Q.u2(o["o"]);
        if (e.poly) e.poly->transform(m, f, a, orig);
        if (e.flex) e.flex->transform(m, f, a, orig);
        if (e.robust) e.robust->transform(m, f, a, orig);
        if (e.label) e.label->transform(m, f, a, orig);
        if (e.ref) e.ref->transform(m, f, a, orig);
    }
}

static void do_xform(const J& g, W& w) {
    Elem e = make_elem(g["kind"].s());
    set_repetition(rep_of(e), g["rep"], Q);
    bool ok = true;
    w.key("base");
    log_elem(w, e, ok);
    for (size_t i = 0; i < g["ops"].size(); i++) apply_op(e, g["ops"][i]);
    w.key("after");
    log_elem(w, e, ok);
    w.kb("lat", ok);
}

// ------------------------------------------------------------------ hierarchies (C06 C09)
static Polygon* make_line(const char* kind) {
    Polygon* p = (Polygon*)allocate_clear(sizeof(Polygon));
    p->tag = TP;
    if (!strcmp(kind, "diag")) {
        p->point_array.append(Vec2{0, 3});
        p->point_array.append(Vec2{1, 2});
        p->point_array.append(Vec2{3, 0});
    } else if (!strcmp(kind, "hline")) {
        p->point_array.append(Vec2{0, 0});
        p->point_array.append(Vec2{2, 0});
        p->point_array.append(Vec2{5, 0});
    } else {
        p->point_array.append(Vec2{0, 0});
        p->point_array.append(Vec2{0, 4});
    }
    return p;
}

struct Hier {
    std::map<std::string, Cell*> cells;
};

static void add_shape(Cell* cell, const J& sh) {
    const std::string& kind = sh["kind"].s();
    Vec2 at = Q.u2(sh["at"]);
    if (kind == "polygon" || kind == "diag" || kind == "hline" || kind == "vline") {
        Polygon* p = kind == "polygon" ? make_polygon(TP) : make_line(kind.c_str());
        p->translate(at);
        set_repetition(p->repetition, sh["rep"], Q);
        cell->polygon_array.append(p);
    } else if (kind == "flexpath") {
        FlexPath* f = make_flexpath(T0, T1);
        f->translate(at);
        set_repetition(f->repetition, sh["rep"], Q);
        cell->flexpath_array.append(f);
    } else if (kind == "robustpath") {
        RobustPath* r = make_robustpath(T0, T1);
        r->translate(at);
        set_repetition(r->repetition, sh["rep"], Q);
        cell->robustpath_array.append(r);
    } else if (kind == "label") {
        Label* l = make_label(TL);
        l->origin = at;
        set_repetition(l->repetition, sh["rep"], Q);
        cell->label_array.append(l);
    }
}

static void build_hier(Hier& H, const J& cells) {
    for (size_t i = 0; i < cells.size(); i++) {
        Cell* c = (Cell*)allocate_clear(sizeof(Cell));
        c->name = copy_string(cells[i]["name"].s().c_str(), NULL);
        H.cells[cells[i]["name"].s()] = c;
        for (size_t k = 0; k < cells[i]["shapes"].size(); k++) add_shape(c, cells[i]["shapes"][k]);
    }
    for (size_t i = 0; i < cells.size(); i++) {
        Cell* c = H.cells[cells[i]["name"].s()];
        const J& refs = cells[i]["refs"];
        for (size_t k = 0; k < refs.size(); k++) {
            const J& r = refs[k];
            Reference* ref = (Reference*)allocate_clear(sizeof(Reference));
            if (H.cells.count(r["to"].s())) ref->init(H.cells[r["to"].s()]);
            else ref->init(r["to"].s().c_str());
            ref->magnification = mag_value(r["mag"]);
            ref->x_reflection = r["refl"].t();
            ref->rotation = rot_angle(r["rot"]);
            ref->origin = Q.u2(r["origin"]);
            set_repetition(ref->repetition, r["rep"], Q);
            c->reference_array.append(ref);
        }
    }
}

// base outlines of the factory shapes (untranslated, no repetition)
static void log_base(W& w, bool& ok) {
    w.key("base").begin_obj();
    for (const char* kind : {"polygon", "flexpath", "robustpath", "label", "diag", "hline", "vline"}) {
        Cell tmp = {};
        W sh;
        std::string js = std::string("{\"kind\":\"") + kind + "\",\"rep\":{\"type\":\"none\"},\"at\":[0,0]}";
        J j = jparse(js);
        add_shape(&tmp, j);
        w.key(kind).begin_arr();
        Array<Polygon*> a = {};
        tmp.get_polygons(false, true, 0, false, 0, a);
        w_polys_parts(w, a, ok);
        free_polys(a);
        for (uint64_t i = 0; i < tmp.label_array.count; i++) {
            w.begin_obj().kv("tag", tagid(tmp.label_array[i]->tag)).key("ring").begin_arr();
            w.begin_arr().i(lat(tmp.label_array[i]->origin.x, Q.q, ok)).i(lat(tmp.label_array[i]->origin.y, Q.q, ok)).end_arr();
            w.end_arr().end_obj();
        }
        w.end_arr();
    }
    w.end_obj();
}

template <class T>
static void log_path_items(W& w, Array<T*>& arr, bool& ok) {
    w.key("items").begin_arr();
    for (uint64_t i = 0; i < arr.count; i++) {
        w.begin_obj();
        w_offsets(w, "offs", arr[i]->repetition, ok);
        T tmp = {};
        tmp.copy_from(*arr[i]);
        tmp.repetition.clear();
        Array<Polygon*> a = {};
        tmp.to_polygons(false, 0, a);
        w.key("parts").begin_arr();
        w_polys_parts(w, a, ok);
        w.end_arr();
        free_polys(a);
        w.end_obj();
    }
    w.end_arr();
}

static void log_box(W& w, Vec2 mn, Vec2 mx, bool& ok) {
    if (mn.x > mx.x) {
        w.kb("empty", true).key("box").begin_arr().end_arr();
    } else {
        w.kb("empty", false).key("box").begin_arr();
        w.i(lat(mn.x, Q.q, ok)).i(lat(mn.y, Q.q, ok)).i(lat(mx.x, Q.q, ok)).i(lat(mx.y, Q.q, ok)).end_arr();
    }
}
static void log_hull(W& w, Array<Vec2>& h, bool& ok) {
    w.key("hull");
    w_ring(w, h, ok);
}

static void do_hier(const J& g, W& w) {
    Hier H;
    build_hier(H, g["cells"]);
    Cell* top = H.cells[g["top"].s()];
    bool ok = true;
    log_base(w, ok);
    Map<GeometryInfo> cache = {};
    auto clear_cache = [&]() {
        for (MapItem<GeometryInfo>* it = cache.next(NULL); it; it = cache.next(it)) it->value.clear();
        cache.clear();
    };
    w.key("steps").begin_arr();
    for (size_t si = 0; si < g["steps"].size(); si++) {
        const J& st = g["steps"][si];
        const std::string& s = st["s"].s();
        g_shared->phase = (int64_t)si;
        w.begin_obj().ks("s", s);
        if (s == "get") {
            const std::string& what = st["what"].s();
            bool apply = st["apply"].t();
            int64_t depth = st["depth"].i();
            bool filter = st["filter"].i() >= 0;
            Tag tag = make_tag((uint32_t)(st["filter"].i() / 100), (uint32_t)(st["filter"].i() % 100));
            if (what == "polygons" || what == "polygons_paths") {
                Array<Polygon*> a = {};
                top->get_polygons(apply, what == "polygons_paths", depth, filter, tag, a);
                w.key("items").begin_arr();
                for (uint64_t i = 0; i < a.count; i++) {
                    w.begin_obj();
                    w_offsets(w, "offs", a[i]->repetition, ok);
                    w.key("parts").begin_arr();
                    w.begin_obj().kv("tag", tagid(a[i]->tag)).key("ring");
                    w_ring(w, a[i]->point_array, ok);
                    w.end_obj().end_arr().end_obj();
                }
                w.end_arr();
                free_polys(a);
            } else if (what == "flexpaths") {
                Array<FlexPath*> a = {};
                top->get_flexpaths(apply, depth, filter, tag, a);
                log_path_items<FlexPath>(w, a, ok);
                a.clear();
            } else if (what == "robustpaths") {
                Array<RobustPath*> a = {};
                top->get_robustpaths(apply, depth, filter, tag, a);
                log_path_items<RobustPath>(w, a, ok);
                a.clear();
            } else if (what == "labels") {
                Array<Label*> a = {};
                top->get_labels(apply, depth, filter, tag, a);
                w.key("items").begin_arr();
                for (uint64_t i = 0; i < a.count; i++) {
                    w.begin_obj();
                    w_offsets(w, "offs", a[i]->repetition, ok);
                    w.key("parts").begin_arr().begin_obj().kv("tag", tagid(a[i]->tag)).key("ring").begin_arr();
                    w.begin_arr().i(lat(a[i]->origin.x, Q.q, ok)).i(lat(a[i]->origin.y, Q.q, ok)).end_arr();
                    w.end_arr().end_obj().end_arr().end_obj();
                }
                w.end_arr();
                a.clear();
            }
        } else if (s == "bbox") {
            Vec2 mn, mx;
            top->bounding_box(mn, mx);
            log_box(w, mn, mx, ok);
        } else if (s == "bbox_c") {
            GeometryInfo info = top->bounding_box(cache);
            log_box(w, info.bounding_box_min, info.bounding_box_max, ok);
        } else if (s == "hull") {
            Array<Vec2> h = {};
            top->convex_hull(h);
            log_hull(w, h, ok);
            h.clear();
        } else if (s == "hull_c") {
            GeometryInfo info = top->convex_hull(cache);
            log_hull(w, info.convex_hull, ok);
        } else if (s == "ref_bbox") {
            Vec2 mn, mx;
            top->reference_array[0]->bounding_box(mn, mx);
            log_box(w, mn, mx, ok);
        } else if (s == "ref_hull") {
            Array<Vec2> h = {};
            top->reference_array[0]->convex_hull(h);
            log_hull(w, h, ok);
            h.clear();
        } else if (s == "flatten_apply" || s == "flatten_keep") {
            clear_cache();
            Array<Reference*> removed = {};
            top->flatten(s == "flatten_apply", removed);
            w.kv("removed", (int64_t)removed.count);
            w.kv("refs_left", (int64_t)top->reference_array.count);
            removed.clear();
        } else if (s == "copy_mutate") {
            // a deep copy must be independent of its source: wreck the copy
            Cell cp = {};
            cp.copy_from(*top, "COPY", true);
            for (uint64_t i = 0; i < cp.polygon_array.count; i++) {
                cp.polygon_array[i]->translate(Vec2{100, 100});
                cp.polygon_array[i]->repetition.clear();
                cp.polygon_array[i]->tag = make_tag(9, 9);
            }
            for (uint64_t i = 0; i < cp.flexpath_array.count; i++) cp.flexpath_array[i]->translate(Vec2{50, 50});
            for (uint64_t i = 0; i < cp.robustpath_array.count; i++) cp.robustpath_array[i]->translate(Vec2{50, 50});
            for (uint64_t i = 0; i < cp.label_array.count; i++) cp.label_array[i]->origin = Vec2{77, 77};
            for (uint64_t i = 0; i < cp.reference_array.count; i++) {
                cp.reference_array[i]->origin = Vec2{-40, -40};
                cp.reference_array[i]->repetition.clear();
                cp.reference_array[i]->rotation += 1.0;
            }
            w.kv("copied", (int64_t)(cp.polygon_array.count + cp.reference_array.count));
        }
        w.end_obj();
    }
    w.end_arr();
    w.kb("lat", ok);
}

int main(int argc, char** argv) {
    // h_hier <gen.ndjson> <obs.ndjson> <Q>
    if (argc < 4) return 2;
    gdstk::set_error_logger(NULL);
    Q.q = atof(argv[3]);
    std::vector<std::string> lines = read_lines(argv[1]);
    return supervise(lines, argv[2], [&](int64_t, const std::string& line, FILE* out) {
        J g = jparse(line);
        W w;
        w.begin_obj().ks("e", g["k"].s()).key("g").raw(line);
        const std::string& k = g["k"].s();
        if (k == "xform") do_xform(g, w);
        else if (k == "hier") do_hier(g, w);
        w.end_obj();
        fputs(w.s.c_str(), out);
        fputc('\n', out);
    });
}
