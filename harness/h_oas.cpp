// OASIS harness (C04 C02).
//   h_oas dec <gen.ndjson> <obs.ndjson> <tmpdir>   specification-emitted files -> read_oas -> projection
//   h_oas enc <gen.ndjson> <obs.ndjson> <tmpdir>   abstract library -> write_oas (options) -> bytes,
//                                                  read_oas, oas_validate, further save/load cycles
// Projections are in 1/1000 database unit ("fine"), so that the grid rounding of the writer and the
// polygonal circles of the reader are visible to the specification.
#include "build.hpp"

static std::string g_tmp;
static const double FINE = 1000.0;

static std::string tmpfile_name(const char* tag) {
    return g_tmp + "/" + tag + "_" + std::to_string(getpid()) + ".oas";
}
static void w_file(W& w, const char* key, const std::string& fn) {
    std::vector<uint8_t> v = read_file_bytes(fn.c_str());
    w_bytes_arr(w, key, v.data(), v.size());
}

static void w_validate(W& w, const char* key, const std::string& fn);
static void do_dec(const J& g, int64_t idx, FILE* out) {
    std::string fn = tmpfile_name("rd");
    std::vector<uint8_t> v;
    for (size_t i = 0; i < g["bytes"].size(); i++) v.push_back((uint8_t)g["bytes"][i].i());
    write_file_bytes(fn.c_str(), v);
    ErrorCode err = ErrorCode::NoError;
    int fd0 = open_fd_count();
    g_shared->phase = 1;
    Library lib = read_oas(fn.c_str(), 0, 0, &err);
    g_shared->phase = 2;
    int fd1 = open_fd_count();
    W w;
    w.begin_obj().ks("e", "dec").kv("i", idx).kv("id", g["id"].i());
    w.kv("err", (int64_t)err).kv("fd", fd1 - fd0);
    w_bytes_arr(w, "bytes", v.data(), v.size());
    w_validate(w, "valid", fn);
    proj_library(w, "lib", lib, true, FINE);
    w.end_obj();
    fputs(w.s.c_str(), out);
    fputc('\n', out);
    lib.free_all();
    unlink(fn.c_str());
}

static void w_validate(W& w, const char* key, const std::string& fn) {
    uint32_t sig = 0;
    ErrorCode err = ErrorCode::NoError;
    bool ok = oas_validate(fn.c_str(), &sig, &err);
    w.key(key).begin_obj().kb("ok", ok).kv("err", (int64_t)err);
    uint8_t b[4] = {(uint8_t)(sig & 255), (uint8_t)((sig >> 8) & 255), (uint8_t)((sig >> 16) & 255),
                    (uint8_t)(sig >> 24)};
    w_bytes_arr(w, "sig", b, 4);
    w.end_obj();
}

static void do_enc(const J& g, int64_t idx, FILE* out) {
    Built B;
    build_library(B, g["al"]);
    const J& o = g["opts"];
    uint16_t flags = (uint16_t)o["flags"].i();
    uint8_t level = (uint8_t)o["level"].i();
    double tol = (double)o["tol"].i() / 1000.0;   // in user units: thousandths
    std::string fn = tmpfile_name("wr");
    W w;
    w.begin_obj().ks("e", "enc").kv("i", idx).kv("id", g["id"].i());
    w.key("opts").begin_obj().kv("flags", (int64_t)flags).kv("level", (int64_t)level)
        .kv("tol", o["tol"].i()).end_obj();
    proj_library(w, "pre", B.lib, true, FINE);
    int fd0 = open_fd_count();
    g_shared->phase = 1;
    ErrorCode werr = B.lib.write_oas(fn.c_str(), tol, level, flags);
    g_shared->phase = 2;
    w.kv("werr", (int64_t)werr);
    w_file(w, "bytes", fn);
    // the writer adds the standard properties to the source library: show it afterwards too
    proj_library(w, "src_after", B.lib, true, FINE);
    w_validate(w, "valid", fn);
    int cycles = g.has("cycles") ? (int)g["cycles"].i() : 2;
    w.key("back").begin_arr();
    std::vector<int64_t> errs;
    std::vector<std::vector<uint8_t>> files;
    for (int c = 0; c < cycles; c++) {
        ErrorCode err = ErrorCode::NoError;
        g_shared->phase = 10 + c;
        Library lib = read_oas(fn.c_str(), 0, 0, &err);
        errs.push_back((int64_t)err);
        proj_library(w, NULL, lib, true, FINE);
        if (c + 1 < cycles) {
            ErrorCode e2 = lib.write_oas(fn.c_str(), tol, level, flags);
            errs.push_back((int64_t)e2);
            files.push_back(read_file_bytes(fn.c_str()));
        }
        lib.free_all();
    }
    w.end_arr();
    w.key("errs").begin_arr();
    for (int64_t e : errs) w.i(e);
    w.end_arr();
    w.key("files").begin_arr();
    for (auto& f : files) {
        w.begin_arr();
        for (uint8_t b : f) w.i(b);
        w.end_arr();
    }
    w.end_arr();
    w.kv("fd", open_fd_count() - fd0);
    w.end_obj();
    fputs(w.s.c_str(), out);
    fputc('\n', out);
    unlink(fn.c_str());
    // B.lib owns cells inside and outside: leak deliberately (short-lived child process)
}

int main(int argc, char** argv) {
    if (argc < 5) return 2;
    gdstk::set_error_logger(NULL);
    std::string mode = argv[1];
    g_tmp = argv[4];
    g_timeout_s = 20;
    std::vector<std::string> lines = read_lines(argv[2]);
    return supervise(lines, argv[3], [&](int64_t k, const std::string& line, FILE* out) {
        J g = jparse(line);
        if (mode == "dec") do_dec(g, k, out);
        else if (mode == "enc") do_enc(g, k, out);
    });
}
