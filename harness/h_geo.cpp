// Region harness (C05 C12 C13): boolean / offset / slice / fracture on TLC-enumerated operands.
// Operands arrive in user integer coordinates; results are logged on the 1/scaling grid.
#include "geo.hpp"

static Polygon* mk(const J& pts, double div = 1.0) {
    Polygon* p = (Polygon*)allocate_clear(sizeof(Polygon));
    for (size_t i = 0; i < pts.size(); i++)
        p->point_array.append(Vec2{(double)pts[i][(size_t)0].i() / div, (double)pts[i][(size_t)1].i() / div});
    return p;
}
static void mk_group(const J& g, Array<Polygon*>& out, double div = 1.0) {
    for (size_t i = 0; i < g.size(); i++) out.append(mk(g[i], div));
}
static void log_polys(W& w, const char* key, Array<Polygon*>& a, double S, bool& ok) {
    w.key(key).begin_arr();
    for (uint64_t i = 0; i < a.count; i++) {
        w.begin_arr();
        for (uint64_t k = 0; k < a[i]->point_array.count; k++)
            w.begin_arr().i(lat(a[i]->point_array[k].x, S, ok)).i(lat(a[i]->point_array[k].y, S, ok)).end_arr();
        w.end_arr();
    }
    w.end_arr();
}

static void do_bool(const J& g, W& w) {
    Array<Polygon*> A = {}, B = {};
    mk_group(g["a"], A);
    mk_group(g["b"], B);
    double S = (double)g["s"].i();
    bool ok = true;
    int64_t err = 0;
    const char* names[] = {"or", "and", "xor", "not"};
    Operation ops[] = {Operation::Or, Operation::And, Operation::Xor, Operation::Not};
    for (int k = 0; k < 4; k++) {
        Array<Polygon*> res = {};
        ErrorCode e = boolean(A, B, ops[k], S, res);
        if (e != ErrorCode::NoError) err = (int64_t)e;
        log_polys(w, names[k], res, S, ok);
        free_polys(res);
    }
    Array<Polygon*> ma = {}, mb = {};
    merge(A, S, ma);
    merge(B, S, mb);
    log_polys(w, "ma", ma, S, ok);
    log_polys(w, "mb", mb, S, ok);
    w.kb("lat", ok).kv("err", err);
}

int main(int argc, char** argv) {
    if (argc < 3) return 2;
    gdstk::set_error_logger(NULL);
    std::vector<std::string> lines = read_lines(argv[1]);
    g_timeout_s = 30;
    return supervise(lines, argv[2], [&](int64_t, const std::string& line, FILE* out) {
        J g = jparse(line);
        W w;
        w.begin_obj().ks("e", g["k"].s()).key("g").raw(line);
        const std::string& k = g["k"].s();
        if (k == "bool") do_bool(g, w);
        w.end_obj();
        fputs(w.s.c_str(), out);
        fputc('\n', out);
    });
}
