// Region harness (C05 C12 C13): boolean / offset / slice / fracture on TLC-enumerated operands.
// Operands arrive in user integer coordinates; results are logged on the 1/scaling grid.
#include "geo.hpp"

static Polygon* mk(const J& pts, double div = 1.0) {
    Polygon* p = (Polygon*)allocate_clear(sizeof(Polygon));
    for (size_t i = 0; i < pts.size(); i++)
        p->point_array.append(Vec2{(double)pts[i][(size_t)0].i() / div, (double)pts[i][(size_t)1].i() / div});
    return p;
}
static void mk_group(const J& g, Array<Polygon*>& out, double div = 1.0) {
    for (size_t i = 0; i < g.size(); i++) out.append(mk(g[i], div));
}
static void log_polys(W& w, const char* key, Array<Polygon*>& a, double S, bool& ok) {
    w.key(key).begin_arr();
    for (uint64_t i = 0; i < a.count; i++) {
        w.begin_arr();
        for (uint64_t k = 0; k < a[i]->point_array.count; k++)
            w.begin_arr().i(lat(a[i]->point_array[k].x, S, ok)).i(lat(a[i]->point_array[k].y, S, ok)).end_arr();
        w.end_arr();
    }
    w.end_arr();
}

static void do_bool(const J& g, W& w) {
    Array<Polygon*> A = {}, B = {};
    mk_group(g["a"], A);
    mk_group(g["b"], B);
    double S = (double)g["s"].i();
    bool ok = true;
    int64_t err = 0;
    const char* names[] = {"or", "and", "xor", "not"};
    Operation ops[] = {Operation::Or, Operation::And, Operation::Xor, Operation::Not};
    for (int k = 0; k < 4; k++) {
        Array<Polygon*> res = {};
        ErrorCode e = boolean(A, B, ops[k], S, res);
        if (e != ErrorCode::NoError) err = (int64_t)e;
        log_polys(w, names[k], res, S, ok);
        free_polys(res);
    }
    Array<Polygon*> ma = {}, mb = {};
    merge(A, S, ma);
    merge(B, S, mb);
    log_polys(w, "ma", ma, S, ok);
    log_polys(w, "mb", mb, S, ok);
    w.kb("lat", ok).kv("err", err);
    // the same operations on a 1e9 grid (scaled coordinates beyond 32 bits): signed areas of the
    // results in 1/1000 square user unit [or, and, xor, not, merged a, merged b], and the error code
    {
        const double BIG = 1e9;
        auto area_of = [](Array<Polygon*>& r) {
            double a = 0;
            for (uint64_t i = 0; i < r.count; i++) a += fabs(r[i]->area());
            return a;
        };
        int64_t berr = 0;
        w.key("big").begin_arr();
        for (int k = 0; k < 4; k++) {
            Array<Polygon*> res = {};
            ErrorCode e = boolean(A, B, ops[k], BIG, res);
            if (e != ErrorCode::NoError) berr = (int64_t)e;
            w.i((int64_t)llround(area_of(res) * 1000));
            free_polys(res);
        }
        Array<Polygon*> ba = {}, bb = {};
        merge(A, BIG, ba);
        merge(B, BIG, bb);
        w.i((int64_t)llround(area_of(ba) * 1000)).i((int64_t)llround(area_of(bb) * 1000));
        w.end_arr();
        w.kv("big_err", berr);
        free_polys(ba);
        free_polys(bb);
        // once more on a power-of-two grid (2^34) with both operands mapped by (x, y) -> (x / 256, y - 40):
        // every scaled x stays within 2^30 while every scaled y lies below -2^30 (the only coordinate
        // that asks for wide arithmetic is a negative one), and edge products are multiples of 2^60, so
        // that arithmetic wrapping at 64 bits would produce exact zeros; areas shrink by exactly 256
        Array<Polygon*> A2 = {}, B2 = {};
        mk_group(g["a"], A2);
        mk_group(g["b"], B2);
        for (Array<Polygon*>* G : {&A2, &B2})
            for (uint64_t i = 0; i < G->count; i++)
                for (uint64_t k = 0; k < (*G)[i]->point_array.count; k++) {
                    Vec2& v = (*G)[i]->point_array[k];
                    v = Vec2{v.x / 256.0, v.y - 40.0};
                }
        int64_t b2err = 0;
        w.key("big2").begin_arr();
        for (int k = 0; k < 4; k++) {
            Array<Polygon*> res = {};
            ErrorCode e = boolean(A2, B2, ops[k], 17179869184.0, res);
            if (e != ErrorCode::NoError) b2err = (int64_t)e;
            w.i((int64_t)llround(area_of(res) * 256000));
            free_polys(res);
        }
        w.end_arr();
        w.kv("big2_err", b2err);
        free_polys(A2);
        free_polys(B2);
        // and on the grid 2^-29 with both operands moved by (-6, -6): scaled coordinates stay within
        // +-3 * 2^30, between the two ranges of the clipping arithmetic (2^30 < |c| < 2^32), while
        // coordinate differences reach 1.5 * 2^32 and their products are multiples of 2^58 beyond 2^64
        // (8 x 8 grid steps wrap to exactly zero in 64-bit arithmetic)
        Array<Polygon*> A3 = {}, B3 = {};
        mk_group(g["a"], A3);
        mk_group(g["b"], B3);
        for (Array<Polygon*>* G : {&A3, &B3})
            for (uint64_t i = 0; i < G->count; i++)
                for (uint64_t k = 0; k < (*G)[i]->point_array.count; k++) (*G)[i]->point_array[k] -= Vec2{6, 6};
        int64_t b3err = 0;
        w.key("big3").begin_arr();
        for (int k = 0; k < 4; k++) {
            Array<Polygon*> res = {};
            ErrorCode e = boolean(A3, B3, ops[k], 536870912.0, res);
            if (e != ErrorCode::NoError) b3err = (int64_t)e;
            w.i((int64_t)llround(area_of(res) * 1000));
            free_polys(res);
        }
        w.end_arr();
        free_polys(A3);
        free_polys(B3);
        w.kv("big3_err", b3err);
    }
}

static void do_fracture(const J& g, W& w) {
    Polygon* p = mk(g["p"]);
    p->tag = make_tag(7, 3);
    add_two_props(p->properties);
    p->repetition.type = RepetitionType::Rectangular;
    p->repetition.columns = 2;
    p->repetition.rows = 3;
    p->repetition.spacing = Vec2{100, 50};
    double S = (double)g["s"].i();
    Array<Polygon*> res = {};
    p->fracture((uint64_t)g["limit"].i(), 1.0 / S, res);
    bool ok = true;
    log_polys(w, "pieces", res, S, ok);
    bool same = true;
    for (uint64_t i = 0; i < res.count; i++) {
        same = same && res[i]->tag == p->tag && res[i]->repetition.type == RepetitionType::Rectangular &&
               res[i]->repetition.columns == 2 && res[i]->repetition.rows == 3 &&
               res[i]->repetition.spacing == p->repetition.spacing &&
               props_digest(res[i]->properties) == props_digest(p->properties) &&
               res[i]->properties != p->properties;
    }
    w.kb("same_meta", same).kb("lat", ok).kv("err", 0);
    free_polys(res);
    // the same call on a grid of 1e-9 (scaled coordinates beyond 32 bits, the precision write_gds
    // passes): total area in 1/1000 square unit, largest piece, number of pieces
    {
        Polygon* q = mk(g["p"]);
        Array<Polygon*> big = {};
        q->fracture((uint64_t)g["limit"].i(), 1e-9, big);
        double a = 0;
        uint64_t mx = 0;
        for (uint64_t i = 0; i < big.count; i++) {
            a += fabs(big[i]->area());
            if (big[i]->point_array.count > mx) mx = big[i]->point_array.count;
        }
        w.kv("big_area", (int64_t)llround(a * 1000)).kv("big_max", (int64_t)mx).kv("big_n", (int64_t)big.count);
        free_polys(big);
    }
}

// C01: a polygon longer than the vertex limit goes through write_gds(max_points) and read_gds;
// the re-loaded plain polygons must cover the same region
static std::string g_tmpdir = "/tmp";
static void do_gdsfrac(const J& g, W& w) {
    double S = (double)g["s"].i();
    Library lib = {};
    lib.init("L", 1e-6, 1e-6 / S);
    Cell* cell = (Cell*)allocate_clear(sizeof(Cell));
    cell->name = copy_string("C", NULL);
    lib.cell_array.append(cell);
    Polygon* p = mk(g["p"]);
    p->tag = make_tag(7, 3);
    set_gds_property(p->properties, 5, "pq");
    cell->polygon_array.append(p);
    std::string fn = g_tmpdir + "/gdsfrac_" + std::to_string(getpid()) + ".gds";
    tm t = {};
    t.tm_year = 100;
    t.tm_mday = 1;
    ErrorCode e1 = lib.write_gds(fn.c_str(), (uint64_t)g["limit"].i(), &t);
    ErrorCode e2 = ErrorCode::NoError;
    Library back = read_gds(fn.c_str(), 0, 0, NULL, &e2);
    bool ok = true, same = back.cell_array.count == 1;
    Array<Polygon*> res = {};
    if (same) res.extend(back.cell_array[0]->polygon_array);
    log_polys(w, "pieces", res, S, ok);
    for (uint64_t i = 0; i < res.count; i++) {
        const Property* q = res[i]->properties;
        same = same && res[i]->tag == p->tag && q && strcmp(q->name, "S_GDS_PROPERTY") == 0 && q->next == NULL &&
               q->value && q->value->next &&
               q->value->unsigned_integer == 5 && q->value->next->count >= 2 &&
               memcmp(q->value->next->bytes, "pq", 2) == 0 &&
               res[i]->repetition.type == RepetitionType::None;
    }
    w.kb("same_meta", same).kb("lat", ok).kv("err", (int64_t)e1 * 100 + (int64_t)e2);
    res.clear();
    back.free_all();
    lib.free_all();
    unlink(fn.c_str());
}

// C01: a non-simple path is stored as polygons; they must cover the region of its outline
static void do_gdspath(const J& g, W& w) {
    double S = (double)g["s"].i();
    Library lib = {};
    lib.init("L", 1e-6, 1e-6 / S);
    Cell* cell = (Cell*)allocate_clear(sizeof(Cell));
    cell->name = copy_string("C", NULL);
    lib.cell_array.append(cell);
    const J& sp = g["spine"];
    size_t n = g["widths"].size();
    std::vector<double> wd(n), of(n);
    std::vector<Tag> tags(n);
    for (size_t k = 0; k < n; k++) {
        wd[k] = (double)g["widths"][k].i();
        of[k] = (double)g["offs"][k].i();
        tags[k] = make_tag(7 + (uint32_t)k, 3);
    }
    Array<Vec2> pts = {};
    for (size_t k = 1; k < sp.size(); k++)
        pts.append(Vec2{(double)sp[k][(size_t)0].i(), (double)sp[k][(size_t)1].i()});
    bool ok = true;
    Array<Polygon*> pre = {};
    ErrorCode e0 = ErrorCode::NoError;
    if (g["robust"].t()) {
        RobustPath* r = (RobustPath*)allocate_clear(sizeof(RobustPath));
        r->init(Vec2{(double)sp[(size_t)0][(size_t)0].i(), (double)sp[(size_t)0][(size_t)1].i()}, n, wd.data(),
                of.data(), 0.01, 1000, tags.data());
        for (uint64_t k = 0; k < pts.count; k++) r->segment(pts[k], NULL, NULL, false);
        r->simple_path = false;
        for (size_t k = 0; k < n; k++) r->elements[k].end_type = (EndType)g["end"].i();
        set_gds_property(r->properties, 5, "pq");
        cell->robustpath_array.append(r);
        e0 = r->to_polygons(false, 0, pre);
    } else {
        FlexPath* f = (FlexPath*)allocate_clear(sizeof(FlexPath));
        f->init(Vec2{(double)sp[(size_t)0][(size_t)0].i(), (double)sp[(size_t)0][(size_t)1].i()}, n, wd.data(),
                of.data(), 0.01, tags.data());
        f->segment(pts, NULL, NULL, false);
        f->simple_path = false;
        for (size_t k = 0; k < n; k++) {
            f->elements[k].end_type = (EndType)g["end"].i();
            f->elements[k].join_type = (JoinType)g["join"].i();
        }
        set_gds_property(f->properties, 5, "pq");
        cell->flexpath_array.append(f);
        e0 = f->to_polygons(false, 0, pre);
    }
    pts.clear();
    log_polys(w, "pre", pre, 16 * S, ok);        // outline before saving, 1/16 grid unit
    bool ignore = true;
    std::string fn = g_tmpdir + "/gdspath_" + std::to_string(getpid()) + ".gds";
    tm t = {};
    t.tm_year = 100;
    t.tm_mday = 1;
    ErrorCode e1 = lib.write_gds(fn.c_str(), (uint64_t)g["limit"].i(), &t);
    ErrorCode e2 = ErrorCode::NoError;
    Library back = read_gds(fn.c_str(), 0, 0, NULL, &e2);
    bool lat_ok = true, same = back.cell_array.count == 1;
    Array<Polygon*> res = {};
    if (same) {
        res.extend(back.cell_array[0]->polygon_array);
        same = back.cell_array[0]->flexpath_array.count == 0 && back.cell_array[0]->robustpath_array.count == 0;
    }
    log_polys(w, "post", res, S, lat_ok);
    w.key("ptags").begin_arr();
    for (uint64_t i = 0; i < res.count; i++) w.i((int64_t)get_layer(res[i]->tag));
    w.end_arr();
    w.key("pretags").begin_arr();
    for (uint64_t i = 0; i < pre.count; i++) w.i((int64_t)get_layer(pre[i]->tag));
    w.end_arr();
    for (uint64_t i = 0; i < res.count; i++) {
        const Property* q = res[i]->properties;
        same = same && q && strcmp(q->name, "S_GDS_PROPERTY") == 0 && q->next == NULL && q->value &&
               q->value->next && q->value->unsigned_integer == 5 && get_type(res[i]->tag) == 3;
    }
    (void)ignore;
    w.kb("same_meta", same).kb("lat", lat_ok).kv("err", (int64_t)e0 * 10000 + (int64_t)e1 * 100 + (int64_t)e2);
    free_polys(pre);
    res.clear();
    back.free_all();
    lib.free_all();
    unlink(fn.c_str());
}

static void do_slice(const J& g, W& w) {
    Polygon* p = mk(g["p"]);
    double S = (double)g["s"].i();
    Array<double> pos = {};
    for (size_t i = 0; i < g["cuts"].size(); i++) pos.append((double)g["cuts"][i].i() / 2.0);
    uint64_t nb = pos.count + 1;
    Array<Polygon*>* bins = (Array<Polygon*>*)allocate_clear(nb * sizeof(Array<Polygon*>));
    ErrorCode e = slice(*p, pos, g["axis"].s() == "x", S, bins);
    bool ok = true;
    w.key("bins").begin_arr();
    for (uint64_t b = 0; b < nb; b++) {
        W inner;
        log_polys(inner, "x", bins[b], S, ok);
        w.raw(inner.s.substr(4));
        free_polys(bins[b]);
    }
    w.end_arr();
    w.kb("lat", ok).kv("err", (int64_t)e);
    // the same call on a grid of 1e-9: total area of all bins in 1/1000 square unit
    {
        Array<Polygon*>* bb = (Array<Polygon*>*)allocate_clear(nb * sizeof(Array<Polygon*>));
        ErrorCode e2 = slice(*p, pos, g["axis"].s() == "x", 1e9, bb);
        double a = 0;
        for (uint64_t b = 0; b < nb; b++) {
            for (uint64_t i = 0; i < bb[b].count; i++) a += fabs(bb[b][i]->area());
            free_polys(bb[b]);
        }
        w.kv("big_area", (int64_t)llround(a * 1000)).kv("big_err", (int64_t)e2);
    }
}

static void do_offset(const J& g, W& w) {
    Array<Polygon*> A = {};
    mk_group(g["polys"], A);
    double S = (double)g["s"].i();
    const std::string& j = g["join"].s();
    OffsetJoin join = j == "round" ? OffsetJoin::Round : j == "miter" ? OffsetJoin::Miter : OffsetJoin::Bevel;
    Array<Polygon*> res = {};
    ErrorCode e = offset(A, (double)g["d"].i(), join, (double)g["tol"].i(), S, g["union"].t(), res);
    bool ok = true;
    log_polys(w, "res", res, S, ok);
    w.kb("lat", ok).kv("err", (int64_t)e);
    free_polys(res);
}

int main(int argc, char** argv) {
    if (argc < 3) return 2;
    gdstk::set_error_logger(NULL);
    std::vector<std::string> lines = read_lines(argv[1]);
    if (argc > 3) g_tmpdir = argv[3];
    g_timeout_s = 30;
    return supervise(lines, argv[2], [&](int64_t, const std::string& line, FILE* out) {
        J g = jparse(line);
        W w;
        w.begin_obj().ks("e", g["k"].s()).key("g").raw(line);
        const std::string& k = g["k"].s();
        if (k == "bool") do_bool(g, w);
        else if (k == "fracture" || k == "stair") do_fracture(g, w);
        else if (k == "gdsfrac") do_gdsfrac(g, w);
        else if (k == "gdspath") do_gdspath(g, w);
        else if (k == "slice") do_slice(g, w);
        else if (k == "offset") do_offset(g, w);
        w.end_obj();
        fputs(w.s.c_str(), out);
        fputc('\n', out);
    });
}
