// Region harness (C05 C12 C13): boolean / offset / slice / fracture on TLC-enumerated operands.
// Operands arrive in user integer coordinates; results are logged on the 1/scaling grid.
#include "geo.hpp"

static Polygon* mk(const J& pts, double div = 1.0) {
    Polygon* p = (Polygon*)allocate_clear(sizeof(Polygon));
    for (size_t i = 0; i < pts.size(); i++)
        p->point_array.append(Vec2{(double)pts[i][(size_t)0].i() / div, (double)pts[i][(size_t)1].i() / div});
    return p;
}
static void mk_group(const J& g, Array<Polygon*>& out, double div = 1.0) {
    for (size_t i = 0; i < g.size(); i++) out.append(mk(g[i], div));
}
static void log_polys(W& w, const char* key, Array<Polygon*>& a, double S, bool& ok) {
    w.key(key).begin_arr();
    for (uint64_t i = 0; i < a.count; i++) {
        w.begin_arr();
        for (uint64_t k = 0; k < a[i]->point_array.count; k++)
            w.begin_arr().i(lat(a[i]->point_array[k].x, S, ok)).i(lat(a[i]->point_array[k].y, S, ok)).end_arr();
        w.end_arr();
    }
    w.end_arr();
}

static void do_bool(const J& g, W& w) {
    Array<Polygon*> A = {}, B = {};
    mk_group(g["a"], A);
    mk_group(g["b"], B);
    double S = (double)g["s"].i();
    bool ok = true;
    int64_t err = 0;
    const char* names[] = {"or", "and", "xor", "not"};
    Operation ops[] = {Operation::Or, Operation::And, Operation::Xor, Operation::Not};
    for (int k = 0; k < 4; k++) {
        Array<Polygon*> res = {};
        ErrorCode e = boolean(A, B, ops[k], S, res);
        if (e != ErrorCode::NoError) err = (int64_t)e;
        log_polys(w, names[k], res, S, ok);
        free_polys(res);
    }
    Array<Polygon*> ma = {}, mb = {};
    merge(A, S, ma);
    merge(B, S, mb);
    log_polys(w, "ma", ma, S, ok);
    log_polys(w, "mb", mb, S, ok);
    w.kb("lat", ok).kv("err", err);
}

static void do_fracture(const J& g, W& w) {
    Polygon* p = mk(g["p"]);
    p->tag = make_tag(7, 3);
    add_two_props(p->properties);
    p->repetition.type = RepetitionType::Rectangular;
    p->repetition.columns = 2;
    p->repetition.rows = 3;
    p->repetition.spacing = Vec2{100, 50};
    double S = (double)g["s"].i();
    Array<Polygon*> res = {};
    p->fracture((uint64_t)g["limit"].i(), 1.0 / S, res);
    bool ok = true;
    log_polys(w, "pieces", res, S, ok);
    bool same = true;
    for (uint64_t i = 0; i < res.count; i++) {
        same = same && res[i]->tag == p->tag && res[i]->repetition.type == RepetitionType::Rectangular &&
               res[i]->repetition.columns == 2 && res[i]->repetition.rows == 3 &&
               res[i]->repetition.spacing == p->repetition.spacing &&
               props_digest(res[i]->properties) == props_digest(p->properties) &&
               res[i]->properties != p->properties;
    }
    w.kb("same_meta", same).kb("lat", ok).kv("err", 0);
    free_polys(res);
}

static void do_slice(const J& g, W& w) {
    Polygon* p = mk(g["p"]);
    double S = (double)g["s"].i();
    Array<double> pos = {};
    for (size_t i = 0; i < g["cuts"].size(); i++) pos.append((double)g["cuts"][i].i() / 2.0);
    uint64_t nb = pos.count + 1;
    Array<Polygon*>* bins = (Array<Polygon*>*)allocate_clear(nb * sizeof(Array<Polygon*>));
    ErrorCode e = slice(*p, pos, g["axis"].s() == "x", S, bins);
    bool ok = true;
    w.key("bins").begin_arr();
    for (uint64_t b = 0; b < nb; b++) {
        W inner;
        log_polys(inner, "x", bins[b], S, ok);
        w.raw(inner.s.substr(4));
        free_polys(bins[b]);
    }
    w.end_arr();
    w.kb("lat", ok).kv("err", (int64_t)e);
}

static void do_offset(const J& g, W& w) {
    Array<Polygon*> A = {};
    mk_group(g["polys"], A);
    double S = (double)g["s"].i();
    const std::string& j = g["join"].s();
    OffsetJoin join = j == "round" ? OffsetJoin::Round : j == "miter" ? OffsetJoin::Miter : OffsetJoin::Bevel;
    Array<Polygon*> res = {};
    ErrorCode e = offset(A, (double)g["d"].i(), join, (double)g["tol"].i(), S, g["union"].t(), res);
    bool ok = true;
    log_polys(w, "res", res, S, ok);
    w.kb("lat", ok).kv("err", (int64_t)e);
    free_polys(res);
}

int main(int argc, char** argv) {
    if (argc < 3) return 2;
    gdstk::set_error_logger(NULL);
    std::vector<std::string> lines = read_lines(argv[1]);
    g_timeout_s = 30;
    return supervise(lines, argv[2], [&](int64_t, const std::string& line, FILE* out) {
        J g = jparse(line);
        W w;
        w.begin_obj().ks("e", g["k"].s()).key("g").raw(line);
        const std::string& k = g["k"].s();
        if (k == "bool") do_bool(g, w);
        else if (k == "fracture") do_fracture(g, w);
        else if (k == "slice") do_slice(g, w);
        else if (k == "offset") do_offset(g, w);
        w.end_obj();
        fputs(w.s.c_str(), out);
        fputc('\n', out);
    });
}
