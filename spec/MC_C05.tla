------------------------------- MODULE MC_C05 -------------------------------
(* Operand enumeration for boolean operations: pairs of polygon groups from a    *)
(* palette on a 12x12 grid (user integer coordinates) x scalings.                *)
EXTENDS Region, Json, IOUtils
CONSTANTS Depth
VARIABLES case

R(x0, y0, x1, y1) == << <<x0, y0>>, <<x1, y0>>, <<x1, y1>>, <<x0, y1>> >>
Rev(s) == [i \in DOMAIN s |-> s[Len(s) + 1 - i]]
Shift(P, d) == [i \in DOMAIN P |-> VAdd(P[i], d)]
LShape == << <<0, 0>>, <<8, 0>>, <<8, 3>>, <<3, 3>>, <<3, 9>>, <<0, 9>> >>
UShape == << <<1, 1>>, <<11, 1>>, <<11, 10>>, <<8, 10>>, <<8, 4>>, <<4, 4>>, <<4, 10>>, <<1, 10>> >>
Comb == << <<0, 0>>, <<11, 0>>, <<11, 8>>, <<9, 8>>, <<9, 2>>, <<7, 2>>, <<7, 8>>, <<5, 8>>, <<5, 2>>,
           <<3, 2>>, <<3, 8>>, <<0, 8>> >>
Tri == << <<0, 0>>, <<9, 0>>, <<0, 6>> >>
Tri2 == << <<2, 1>>, <<11, 5>>, <<4, 11>> >>
Diamond == << <<6, 0>>, <<12, 6>>, <<6, 12>>, <<0, 6>> >>
\* a square frame written as one polygon with a zero-width slit (what an earlier NOT returns)
Keyhole == << <<0, 0>>, <<12, 0>>, <<12, 12>>, <<0, 12>>, <<0, 4>>, <<4, 4>>, <<4, 8>>, <<8, 8>>,
              <<8, 4>>, <<0, 4>> >>

Groups == << <<R(0, 0, 6, 4)>>,                       \* 1  rectangle
             <<R(3, 2, 9, 8)>>,                       \* 2  overlapping rectangle
             <<Rev(R(3, 2, 9, 8))>>,                  \* 3  same, clockwise
             <<R(6, 0, 10, 4)>>,                      \* 4  shares an edge with 1
             <<R(6, 4, 9, 7)>>,                       \* 5  touches 1 at a vertex
             <<R(0, 0, 12, 12)>>,                     \* 6  big square
             <<R(2, 2, 10, 10)>>,                     \* 7  nested in 6
             <<R(4, 4, 8, 8)>>,                       \* 8  nested in 7
             <<LShape>>, <<UShape>>, <<Comb>>,        \* 9 10 11
             <<Tri>>, <<Tri2>>, <<Diamond>>,          \* 12 13 14  (non-Manhattan edges)
             <<Keyhole>>,                             \* 15
             <<R(0, 0, 6, 4), R(3, 2, 9, 8)>>,        \* 16 overlapping pair as one group
             <<R(0, 0, 12, 12), Rev(R(4, 4, 8, 8))>>, \* 17 nested, opposite orientation (still OR)
             <<R(0, 0, 4, 4), R(4, 0, 8, 4), R(8, 0, 12, 4)>>,   \* 18 abutting tiles
             <<>>,                                    \* 19 empty group
             <<R(0, 5, 12, 7), R(5, 0, 7, 12)>> >>    \* 20 cross made of two bars
Quick == {<<i, j>> : i \in 1..Len(Groups), j \in 1..Len(Groups)}
Scalings(i, j) == IF Depth = "thorough" THEN {1, 8, 100}
                  ELSE IF (i + j) % 5 = 0 THEN {1, 8, 100} ELSE {1}
Init == \E p \in Quick : \E s \in Scalings(p[1], p[2]) :
           case = [k |-> "bool", a |-> Groups[p[1]], b |-> Groups[p[2]], s |-> s, ia |-> p[1], ib |-> p[2]]
Next == UNCHANGED case

\* sanity theorems about the specification's own operators on the palette
Laws == LET A2 == [i \in DOMAIN case.a |-> [k \in DOMAIN case.a[i] |-> <<2 * case.a[i][k][1], 2 * case.a[i][k][2]>>]]
        IN  \* winding of every palette polygon is in {-1, 0, 1} at every sample (simple polygons)
            \A q \in Samples(-1, 12) : \A i \in DOMAIN A2 : Winding(A2[i], q) \in {-1, 0, 1}

AppendOpts == [format |-> "TXT", charset |-> "UTF-8",
               openOptions |-> <<"WRITE", "CREATE", "APPEND">>]
Export == Serialize(ToJson(case) \o "\n", IOEnv.GEN_OUT, AppendOpts).exitValue = 0
=============================================================================
