------------------------------ MODULE C18Trace ------------------------------
(* C18: a truncated file is never read as complete and never crashes a reader.    *)
(* Log: a "file" line (facts about the complete file: units, timestamp, OASIS      *)
(* precision, validation scheme) followed by one "cut" line per prefix length k,    *)
(* each listing two rounds of calls to every reader with its error code and the      *)
(* change in the number of open file descriptors.  Crash / Hang lines are written    *)
(* by the supervisor when a reader does not return.                                  *)
(* Outcome relation per reader (the property):                                       *)
(*   read_gds, read_rawcells, gds_info  : an error (code >= ChecksumError = 9)        *)
(*   gds_units, gds_timestamp           : an error, or exactly the complete file's     *)
(*   oas_precision, oas_validate        : return; no "valid" verdict without error on  *)
(*                                        a truncated signed file                      *)
(*   all                                : no descriptor left open, on every call       *)
EXTENDS Integers, Sequences, FiniteSets, TLC, Json, IOUtils

Log == ndJsonDeserialize(IOEnv.TRACE)
VARIABLES l, file
Ev == Log[l]

IsError(code) == code >= 9
CallOK(c, f) ==
    /\ c.fd = 0
    /\ CASE c.rd \in {"read_gds", "read_rawcells", "gds_info"} -> IsError(c.err)
         [] c.rd = "gds_units" -> IsError(c.err)
                                  \/ (c.err = 0 /\ c.unit = f.unit /\ c.precision = f.precision)
         [] c.rd = "gds_timestamp" -> IsError(c.err) \/ (c.err = 0 /\ c.ts = f.ts)
         [] c.rd = "oas_precision" -> TRUE
         [] c.rd = "oas_validate" -> ~(f.scheme # 0 /\ c.valid /\ c.err = 0)
         [] OTHER -> FALSE
BadCalls(ev, f) == {<<ev.calls[i].rd, ev.calls[i].err, ev.calls[i].fd>> :
                       i \in {j \in DOMAIN ev.calls : ~CallOK(ev.calls[j], f)}}
FileOK(ev) == IF ev.kind = "gds" THEN ev.uerr = 0 /\ ev.terr = 0
              ELSE ev.perr = 0 /\ (ev.scheme # 0 => ev.valid /\ ev.verr = 0)

TInit == l = 1 /\ file = [f |-> -1]
TNext == /\ l <= Len(Log) /\ l' = l + 1
         /\ CASE Ev.e = "file" ->
                    /\ file' = Ev
                    /\ IF FileOK(Ev) THEN TRUE
                       ELSE PrintT("REJECT " \o ToString(l) \o " " \o ToString(<<"complete_file">>))
              [] Ev.e = "cut" ->
                    /\ UNCHANGED file
                    /\ LET bad == IF file.f = Ev.f THEN BadCalls(Ev, file) ELSE {<<"no_file_line">>} IN
                       IF bad = {} THEN TRUE
                       ELSE PrintT("REJECT " \o ToString(l) \o " " \o ToString(bad))
              [] OTHER ->
                    /\ UNCHANGED file
                    /\ PrintT("REJECT " \o ToString(l) \o " " \o ToString(<<Ev.e>>))
=============================================================================
