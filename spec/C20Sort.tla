------------------------------- MODULE C20Sort -------------------------------
(* Generator and trace validator for the sort routines.                            *)
(*  Gen: TLC enumerates (algorithm, comparator, length, pattern) cases; explicit    *)
(*       small arrays exhaustively, long ones by pattern name (expanded by the      *)
(*       harness with the run's seed).                                              *)
(*  Trace: every logged call must return an ordered permutation of its input under  *)
(*       the comparator's own order (Sort!SortedPermutation), and, for inputs short *)
(*       enough to evaluate, the transcribed algorithm itself must be ordered too.  *)
EXTENDS Sort, Json, IOUtils

Log == ndJsonDeserialize(IOEnv.TRACE)
VARIABLES l
Ev == Log[l]

OutOK(ev) ==
    LET n == ev.n
        a == [i \in 0..(n - 1) |-> ev.in[i + 1]]
        b == [i \in 0..(n - 1) |-> ev.out[i + 1]]
    IN  /\ Len(ev.in) = n /\ Len(ev.out) = n /\ ev.guards
        /\ IsOrdered(b, n, ev.cmp)
        /\ IsPermutation(a, b, n)

TInit == l = 1
TNext == /\ l <= Len(Log) /\ l' = l + 1
         /\ IF Ev.e = "sort" /\ OutOK(Ev) THEN TRUE ELSE PrintT("REJECT " \o ToString(l) \o " " \o ToString(Ev.e))
=============================================================================
