------------------------------ MODULE C16Trace ------------------------------
(* Validates logs of Library edits / queries recorded from gdstk against          *)
(* LibGraph.tla.  Each line is one public call: the model takes the same action   *)
(* and the projected cell graph, every reference's designation and every query    *)
(* result logged after the call must equal the model's.                           *)
EXTENDS MC_LibGraph

Log == ndJsonDeserialize(IOEnv.TRACE)
VARIABLES l, bad
tvars == <<vars, l, bad>>
Ev == Log[l]

SeqSet(s) == {s[i] : i \in DOMAIN s}
NoDup(s) == Cardinality(SeqSet(s)) = Len(s)
BagEq(s, t) == /\ Len(s) = Len(t)
               /\ \A x \in SeqSet(s) \cup SeqSet(t) :
                     Cardinality({i \in DOMAIN s : s[i] = x}) =
                     Cardinality({i \in DOMAIN t : t[i] = x})
RefSeq(js) == [i \in 1..Len(js) |-> Ref(js[i].kind, js[i].tgt)]

\* the projection logged after the call vs. the (primed) model state: each clause is labelled
\* so that a rejection names what differed
Clauses(ev) == <<
    <<"members", NoDup(ev.members) /\ SeqSet(ev.members) = members'>>,
    <<"rmembers", NoDup(ev.rmembers) /\ SeqSet(ev.rmembers) = rmembers'>>,
    <<"name", \A o \in Objects : ev.name[o] = name'[o]>>,
    <<"refs", \A c \in Cells : BagEq(RefSeq(ev.refs[c]), refs'[c])>>,
    <<"shapes", \A c \in Cells : BagEq(ev.shapes[c], shapes'[c])>>,
    <<"labels", \A c \in Cells : BagEq(ev.labels[c], labels'[c])>>,
    <<"top_level", NoDup(ev.top) /\ SeqSet(ev.top) = TopCells'>>,
    <<"top_level_raw", NoDup(ev.rtop) /\ SeqSet(ev.rtop) = TopRaws'>>,
    <<"deps_direct", \A c \in members' : c \in DOMAIN ev.deps /\ SeqSet(ev.deps[c].direct) = DepsDirect(c)'>>,
    <<"deps_rec", \A c \in members' : c \in DOMAIN ev.deps /\ SeqSet(ev.deps[c].rec) = DepsRec(c)'>>,
    <<"rawdeps_direct", \A c \in members' : c \in DOMAIN ev.deps /\ SeqSet(ev.deps[c].rawdirect) = RawDepsDirect(c)'>>,
    <<"rawdeps_rec", \A c \in members' : c \in DOMAIN ev.deps /\ SeqSet(ev.deps[c].rawrec) = RawDepsRec(c)'>>,
    <<"cell_shape_tags", \A c \in members' : c \in DOMAIN ev.cstags /\ SeqSet(ev.cstags[c]) = Range(shapes'[c])>>,
    <<"shape_tags", SeqSet(ev.stags) = ShapeTags' /\ NoDup(ev.stags)>>,
    <<"label_tags", SeqSet(ev.ltags) = LabelTags' /\ NoDup(ev.ltags)>>,
    <<"get_by_name", \A c \in Cells :
          name'[c] \in DOMAIN ev.bynames /\ ev.bynames[name'[c]] = MemberNamed(members', rmembers', name', name'[c])>> >>
Failing(ev) == LET cl == Clauses(ev) IN {cl[i][1] : i \in {j \in DOMAIN cl : ~cl[j][2]}}
ObsOK(ev) == Failing(ev) = {}

CopyCellOK(j, c, nm) ==
    /\ j.name = nm
    /\ BagEq(RefSeq(j.refs), refs[c]) /\ BagEq(j.shapes, shapes[c]) /\ BagEq(j.labels, labels[c])
CopyLibOK(ev, deep) ==
    /\ ev.copy.libname = "lib"
    /\ SeqSet(ev.copy.raws) = rmembers /\ NoDup(ev.copy.raws)
    /\ Len(ev.copy.cells) = Cardinality(members)
    /\ \A c \in members : \E i \in DOMAIN ev.copy.cells :
          /\ CopyCellOK(ev.copy.cells[i], c, name[c])
          /\ ev.copy.cells[i].id = (IF deep THEN "new" ELSE c)

Mark(okk, why) == IF okk \/ bad THEN bad' = bad
                  ELSE /\ PrintT("REJECT " \o ToString(l) \o " " \o ToString(<<why, Failing(Ev)>>)) /\ bad' = TRUE

TInit == Init /\ l = 1 /\ bad = FALSE
TReset == /\ Ev.e = "Reset"
          /\ members' = InitMembers /\ rmembers' = InitRMembers /\ name' = InitName
          /\ refs' = InitRefs /\ shapes' = InitShapes /\ labels' = InitLabels
          /\ rawdeps' = InitRawDeps
          /\ intent' = [c \in Cells |-> [i \in DOMAIN InitRefs[c] |->
                            DesigIn(InitMembers, InitRMembers, InitName, InitRefs[c][i])]]
          /\ hist' = <<>> /\ bad' = FALSE
TInitEv == Ev.e = "init" /\ UNCHANGED vars /\ Mark(ObsOK(Ev), "init")
TRename == Ev.e = "rename" /\ Rename(Ev.a, Ev.b) /\ Mark(ObsOK(Ev), "rename")
TReplace == Ev.e = "replace" /\ (Replace(Ev.a, Ev.b) \/ ReplaceAbsent(Ev.a, Ev.b)) /\ Mark(ObsOK(Ev), "replace")
TRemap == /\ Ev.e = "remap" /\ \E m \in TagMaps : m.id = Ev.a /\ Remap(m)
          /\ Mark(ObsOK(Ev), "remap")
TAdd == Ev.e = "add" /\ Add(Ev.a) /\ Mark(ObsOK(Ev), "add")
TRemove == Ev.e = "remove" /\ (Remove(Ev.a) \/ RemoveReferenced(Ev.a)) /\ Mark(ObsOK(Ev), "remove")
TCopyLib == /\ Ev.e = "copylib" /\ CopyLib(Ev.a = "deep")
            /\ Mark(ObsOK(Ev) /\ CopyLibOK(Ev, Ev.a = "deep"), "copylib")
TCopyCell == /\ Ev.e = "copycell" /\ CopyCell(Ev.a, Ev.b = "deep")
             /\ Mark(ObsOK(Ev) /\ CopyCellOK(Ev.copy, Ev.a,
                                              IF Ev.b = "deep" THEN "cp" ELSE name[Ev.a]),
                     "copycell")
Known == {"Reset", "init", "rename", "replace", "remap", "add", "remove", "copylib", "copycell"}
TOther == /\ Ev.e \notin Known /\ PrintT("REJECT " \o ToString(l) \o " " \o ToString(Ev.e)) /\ bad' = TRUE /\ UNCHANGED vars

TNext == /\ l <= Len(Log) /\ l' = l + 1
         /\ (TReset \/ TInitEv \/ TRename \/ TReplace \/ TRemap \/ TAdd \/ TRemove
             \/ TCopyLib \/ TCopyCell \/ TOther)
TraceInv == UniqueNames /\ IntentOK /\ NoStaleRef
=============================================================================
