-------------------------------- MODULE Bits --------------------------------
(***************************************************************************)
(* Arbitrary-precision naturals as bit sequences, least significant bit    *)
(* first.  TLC's integers are 32 bit; the file formats carry 64-bit words, *)
(* so every wide quantity (OASIS integers, IEEE doubles, GDSII reals) is   *)
(* handled here and never becomes a TLC integer.                           *)
(***************************************************************************)
EXTENDS Integers, Sequences, TLC

Bit == {0, 1}
Zeros(n) == [i \in 1..n |-> 0]

RECURSIVE TrimRec(_, _)
TrimRec(b, n) == IF n = 0 THEN <<>> ELSE IF b[n] = 1 THEN SubSeq(b, 1, n) ELSE TrimRec(b, n - 1)
Trim(b) == TrimRec(b, Len(b))                      \* canonical form: no leading (high) zeros
BitLen(b) == Len(Trim(b))
IsZero(b) == BitLen(b) = 0
BEq(a, b) == Trim(a) = Trim(b)
BitAt(b, i) == IF i >= 1 /\ i <= Len(b) THEN b[i] ELSE 0     \* 1-based, beyond the end = 0
Pad(b, n) == IF Len(b) >= n THEN b ELSE b \o Zeros(n - Len(b))

\* small integers <-> bits
RECURSIVE FromInt(_)
FromInt(n) == IF n = 0 THEN <<>> ELSE <<n % 2>> \o FromInt(n \div 2)
RECURSIVE ToIntRec(_, _)
ToIntRec(b, i) == IF i > Len(b) THEN 0 ELSE b[i] + 2 * ToIntRec(b, i + 1)
ToInt(b) == ToIntRec(Trim(b), 1)                   \* only for values below 2^31
FixBits(n, w) == Pad(FromInt(n), w)                \* exactly w bits (n < 2^w)

\* comparison: -1, 0, 1
RECURSIVE CmpFrom(_, _, _)
CmpFrom(a, b, i) == IF i = 0 THEN 0
                    ELSE IF a[i] > b[i] THEN 1 ELSE IF a[i] < b[i] THEN -1 ELSE CmpFrom(a, b, i - 1)
BCmp(x, y) == LET a == Trim(x)
                  b == Trim(y)
              IN  IF Len(a) > Len(b) THEN 1 ELSE IF Len(a) < Len(b) THEN -1
                  ELSE CmpFrom(a, b, Len(a))
BLe(x, y) == BCmp(x, y) <= 0
BLt(x, y) == BCmp(x, y) < 0

\* addition / subtraction with carry chains
RECURSIVE AddRec(_, _, _, _, _)
AddRec(a, b, i, n, carry) ==
    IF i > n THEN (IF carry = 1 THEN <<1>> ELSE <<>>)
    ELSE LET s == BitAt(a, i) + BitAt(b, i) + carry IN
         <<s % 2>> \o AddRec(a, b, i + 1, n, s \div 2)
BAdd(a, b) == AddRec(a, b, 1, IF Len(a) > Len(b) THEN Len(a) ELSE Len(b), 0)
RECURSIVE SubRec(_, _, _, _, _)
SubRec(a, b, i, n, borrow) ==      \* requires a >= b
    IF i > n THEN <<>>
    ELSE LET d == BitAt(a, i) - BitAt(b, i) - borrow IN
         <<IF d < 0 THEN d + 2 ELSE d>> \o SubRec(a, b, i + 1, n, IF d < 0 THEN 1 ELSE 0)
BSub(a, b) == Trim(SubRec(a, b, 1, Len(a), 0))
BAbsDiff(a, b) == IF BLe(b, a) THEN BSub(a, b) ELSE BSub(b, a)

Shl(b, k) == IF k <= 0 THEN b ELSE Zeros(k) \o b
Shr(b, k) == IF k <= 0 THEN b ELSE IF k >= Len(b) THEN <<>> ELSE SubSeq(b, k + 1, Len(b))

\* schoolbook multiplication (shift and add)
RECURSIVE MulRec(_, _, _)
MulRec(a, b, i) == IF i > Len(b) THEN <<>>
                   ELSE LET rest == MulRec(a, b, i + 1) IN
                        IF b[i] = 1 THEN BAdd(Shl(a, i - 1), rest) ELSE rest
BMul(a, b) == Trim(MulRec(Trim(a), Trim(b), 1))

Pow2(k) == Zeros(k) \o <<1>>
IsPow2(b) == LET t == Trim(b) IN Len(t) >= 1 /\ \A i \in 1..(Len(t) - 1) : t[i] = 0

\* bytes (0..255) <-> bits
ByteBits(x) == FixBits(x, 8)
BytesToBits(bs) == [i \in 1..(8 * Len(bs)) |-> (bs[((i - 1) \div 8) + 1] \div (2 ^ ((i - 1) % 8))) % 2]
BitsToByte(b, k) ==     \* byte number k (1-based) of a bit sequence
    LET o == 8 * (k - 1) IN
    BitAt(b, o + 1) + 2 * BitAt(b, o + 2) + 4 * BitAt(b, o + 3) + 8 * BitAt(b, o + 4)
    + 16 * BitAt(b, o + 5) + 32 * BitAt(b, o + 6) + 64 * BitAt(b, o + 7) + 128 * BitAt(b, o + 8)
BitsToBytes(b, n) == [k \in 1..n |-> BitsToByte(b, k)]     \* little endian, n bytes

\* ---- IEEE-754 binary64, from its 8 little-endian bytes -------------------------------
\* Decomposition of a finite double into sign, integer mantissa m (< 2^53) and exponent e with
\* value = (-1)^sign * m * 2^e
DblBits(bytes8) == BytesToBits(bytes8)                   \* 64 bits, LSB first
DblSign(bits) == bits[64]
DblExpField(bits) == ToInt(SubSeq(bits, 53, 63))
DblFrac(bits) == SubSeq(bits, 1, 52)
DblIsFinite(bits) == DblExpField(bits) # 2047
DblMant(bits) == IF DblExpField(bits) = 0 THEN Trim(DblFrac(bits))
                 ELSE DblFrac(bits) \o <<1>>
DblExp(bits) == IF DblExpField(bits) = 0 THEN -1074 ELSE DblExpField(bits) - 1075
DblIsZero(bits) == DblExpField(bits) = 0 /\ IsZero(DblFrac(bits))

\* |x * 2^ex - y * 2^ey| <= t * 2^et   for bit naturals x, y, t and integer exponents
DyadicAbsDiffLe(x, ex, y, ey, t, et) ==
    LET lo == IF ex < ey THEN (IF ex < et THEN ex ELSE et) ELSE (IF ey < et THEN ey ELSE et)
        X == Shl(x, ex - lo)
        Y == Shl(y, ey - lo)
        T == Shl(t, et - lo)
    IN  BLe(BAbsDiff(X, Y), T)
DyadicEq(x, ex, y, ey) == DyadicAbsDiffLe(x, ex, y, ey, <<>>, 0)

\* the double (m, e) is the correctly rounded value of the rational a / b (a, b bit naturals,
\* b > 0, result positive):  |a/b - m 2^e| <= 2^e / 2, with the half-width below a power of two
\* and ties going to an even mantissa.
IsRoundedQuotient(a, b, m, e) ==
    LET \* compare  2a  with  (2m +- 1) * b * 2^e   after scaling by 2^-min(e,0)
        sh == IF e < 0 THEN -e ELSE 0
        A2 == Shl(a, sh + 1)                         \* 2a * 2^sh
        MB == Shl(BMul(m, b), (IF e > 0 THEN e ELSE 0) + 1)   \* 2 m b 2^e * 2^sh
        Bh == Shl(b, IF e > 0 THEN e ELSE 0)         \* b 2^e * 2^sh  (= half interval * 2)
        diff == BAbsDiff(A2, MB)
        below == BLt(A2, MB)                         \* a/b < m 2^e
        pow2m == IsPow2(m) /\ BitLen(m) = 53 /\ e > -1074
        \* allowed radius: b*2^e (i.e. half an ulp, scaled by 2), halved below a power of two
        c == IF below /\ pow2m THEN BCmp(Shl(diff, 1), Bh) ELSE BCmp(diff, Bh)
    IN  c < 0 \/ (c = 0 /\ (BitAt(m, 1) = 0 \/ (below /\ pow2m)))
=============================================================================
