------------------------------ MODULE C08Trace ------------------------------
(* Validates RobustPath construction bookkeeping, parameter queries, continuity     *)
(* of sections (also after transforms and from command strings) and the measured     *)
(* outline clearance against Paths.tla.                                              *)
EXTENDS Paths, Json, IOUtils

Log == ndJsonDeserialize(IOEnv.TRACE)
VARIABLES l
Ev == Log[l]

KClear == 3000      \* milli-tolerances: outline sampling on both sides plus intersection finding

RECURSIVE BookFold(_, _, _, _)
\* st: [end, exact, nsec, w (per element end width), o]
BookFold(g, ev, n, st) ==
    IF n > Len(g.calls) THEN {}
    ELSE LET c == g.calls[n]
             s == c.sec
             ob == ev.steps[n]
             want_added == IF s.k = "interpolation" THEN Len(s.pts) ELSE 1
             exact_end == st.exact /\ (RobustExact(s) \/ s.k = "interpolation")
             end3 == IF s.k = "interpolation" THEN RAbs3(st, s.pts[Len(s.pts)], s.rel) ELSE RobustEnd3(st, s)
             fails ==
                (IF ob.added = want_added /\ ob.nsec = st.nsec + want_added THEN {} ELSE {<<n, s.k, "section_count">>})
                \cup (IF \A e \in DOMAIN ob.els : ob.els[e].nw = ob.nsec /\ ob.els[e].no = ob.nsec THEN {}
                      ELSE {<<n, s.k, "one_interpolation_entry_per_section">>})
                \cup (IF \A e \in DOMAIN ob.els : ob.els[e].end_w = InterpEnd(c.w, st.w[e])
                                                  /\ ob.els[e].end_o = InterpEnd(c.o, st.o[e]) THEN {}
                      ELSE {<<n, s.k, "end_width_or_offset">>})
                \cup (IF \A h \in 1..3 : \A e \in DOMAIN ob.els :
                            ob.wq[h][e] = Interp2(c.w, st.w[e], h - 1) /\ ob.oq[h][e] = Interp2(c.o, st.o[e], h - 1)
                      THEN {} ELSE {<<n, s.k, "width_or_offset_query">>})
                \cup (IF ~exact_end \/ (ob.end_exact /\ ob.end3 = end3) THEN {} ELSE {<<n, s.k, "end_point">>})
                \cup (IF ob.gap_nano <= 1000 /\ ob.lat THEN {} ELSE {<<n, s.k, "sections_do_not_meet">>})
             st2 == [end |-> IF exact_end THEN end3 ELSE st.end, exact |-> exact_end,
                     nsec |-> st.nsec + want_added,
                     w |-> [e \in DOMAIN st.w |-> InterpEnd(c.w, st.w[e])],
                     o |-> [e \in DOMAIN st.o |-> InterpEnd(c.o, st.o[e])]]
         IN  fails \cup BookFold(g, ev, n + 1, st2)

BookFailing(ev) ==
    LET g == ev.g
        st0 == [end |-> <<0, 0>>, exact |-> TRUE, nsec |-> 0,
                w |-> [e \in 1..g.nel |-> 300], o |-> [e \in 1..g.nel |-> 125 * (e - 1)]]
    IN  IF Len(ev.steps) # Len(g.calls) THEN {<<0, "history", "missing_steps">>}
        ELSE BookFold(g, ev, 1, st0)
             \cup (IF ev.final.err < 9 /\ ev.final.finite /\ ev.final.npoly = g.nel THEN {}
                   ELSE {<<0, "outline", "error_or_non_finite">>})

XformFailing(ev) ==
    LET g == ev.g
        smooth == g.second.k \in {"cubic_smooth", "quadratic_smooth", "turn"}
    IN  (IF ev.gap_nano <= 1000 THEN {} ELSE {<<2, g.second.k, "section_does_not_start_at_end_point">>})
        \cup (IF ~smooth \/ (ev.kink_micro <= 1000 /\ ev.same_dir) THEN {}
              ELSE {<<2, g.second.k, "smooth_continuation_not_tangent">>})
        \cup (IF ev.err < 9 /\ ev.npoly = 1 THEN {} ELSE {<<2, g.second.k, "no_outline">>})

CmdFailing(ev) ==
    (IF ev.processed = ev.items THEN {} ELSE {<<0, "commands", "not_all_items_processed">>})
    \cup (IF ev.lat /\ ev["end"] = <<1000 * ev.g.endx, 1000 * ev.g.endy>> THEN {} ELSE {<<0, "commands", "end_point">>})

RegionFailing(ev) ==
    IF ev.err >= 9 \/ ev.npoly # 1 THEN {<<0, "region", "no_outline">>}
    ELSE LET miss == {n \in DOMAIN ev.samples : ev.samples[n][3] = 1 /\ ev.samples[n][2] < -KClear /\ ev.samples[n][1] = 0}
             \* (third entry 2: within the mitre's reach of a corner of a polyline path - no claim)
             extra == {n \in DOMAIN ev.samples : ev.samples[n][2] > KClear /\ ev.samples[n][1] = 1 /\ ev.samples[n][3] # 2}
         IN  (IF miss = {} THEN {} ELSE {<<Cardinality(miss), "region", "point_within_half_width_not_covered">>})
             \cup (IF extra = {} THEN {} ELSE {<<Cardinality(extra), "region", "point_beyond_half_width_covered">>})
             \cup (IF Len(ev.samples) > 20 THEN {} ELSE {<<0, "region", "too_few_samples">>})

\* [M] the centre line a simple path is saved from (element_center) lies on the exact curve
\* spine + normal * offset(u), every section with its own offset interpolation, and spans it
CenterFailing(ev) ==
    (IF ev.err < 9 /\ ev.finite /\ ev.npts >= 2 THEN {} ELSE {<<0, "centre", "no_centre_line">>})
    \cup (IF ev.dev_milli <= KClear THEN {} ELSE {<<0, "centre", "centre_line_strays_from_offset_curve">>})
    \cup (IF ev.ends_milli <= KClear THEN {} ELSE {<<0, "centre", "centre_line_does_not_span_the_path">>})

Check(ev) == CASE ev.e = "rpbook" -> BookFailing(ev)
               [] ev.e = "rpcenter" -> CenterFailing(ev)
               [] ev.e = "rpxform" -> XformFailing(ev)
               [] ev.e = "rpcmd" -> CmdFailing(ev)
               [] ev.e = "rpregion" -> RegionFailing(ev)
               [] OTHER -> {<<0, ev.e, "event">>}
TInit == l = 1
TNext == /\ l <= Len(Log) /\ l' = l + 1
         /\ LET f == Check(Ev) IN IF f = {} THEN TRUE
                                  ELSE PrintT("REJECT " \o ToString(l) \o " " \o ToString(f))
=============================================================================
