INIT Init
NEXT Next
CONSTANTS
  InsMax = 2
  DepthMul = 2
  MaxN = 7
  ValsS = {1, 2, 3, 4}
  Cmps = {"lt", "gt", "mod"}
INVARIANTS InvIntro InvPart InvPartSplit
CHECK_DEADLOCK FALSE
