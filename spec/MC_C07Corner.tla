---------------------------- MODULE MC_C07Corner ----------------------------
(* FlexPath corners at non-right angles: one element of constant half-width 5 on a  *)
(* spine (0,0) -> (20,0) -> (20,0) + 15 * dir, dir a 3-4-5 direction, so that both    *)
(* segment rectangles have integer corners; joins natural / miter / bevel, flush     *)
(* ends.  Whatever the join style, each segment's own rectangle is covered and        *)
(* nothing is covered farther from the rectangles than the miter tip reaches, i.e.     *)
(* hw * tan(turn / 2), which is rational for these directions.                         *)
EXTENDS Region, Json, IOUtils
VARIABLES case

HW == 5
\* direction (unit vector * 5) and tan(turn / 2) as num / den
Turns == { [d |-> <<3, 4>>, tn |-> 1, td |-> 2], [d |-> <<-3, 4>>, tn |-> 2, td |-> 1],
           [d |-> <<-4, 3>>, tn |-> 3, td |-> 1], [d |-> <<3, -4>>, tn |-> 1, td |-> 2],
           [d |-> <<-3, -4>>, tn |-> 2, td |-> 1], [d |-> <<-4, -3>>, tn |-> 3, td |-> 1],
           [d |-> <<0, 5>>, tn |-> 1, td |-> 1], [d |-> <<0, -5>>, tn |-> 1, td |-> 1],
           [d |-> <<4, 3>>, tn |-> 1, td |-> 3], [d |-> <<4, -3>>, tn |-> 1, td |-> 3] }
\* rectangle of the segment a -> b of length L (a multiple of 5): a +- n, b +- n with n = left normal * HW
RectOf(a, b, L) == LET n == <<-((b[2] - a[2]) * HW) \div L, ((b[1] - a[1]) * HW) \div L>> IN
                   <<VAdd(a, n), VAdd(b, n), VSub(b, n), VSub(a, n)>>
CaseOf(t, j, rev) ==
    LET p0 == <<0, 0>>
        p1 == <<20, 0>>
        p2 == <<20 + 3 * t.d[1], 3 * t.d[2]>>
        sp == IF rev THEN <<p2, p1, p0>> ELSE <<p0, p1, p2>>
    IN  [k |-> "fpcorner", spine |-> sp, hw |-> HW, join |-> j, tn |-> t.tn, td |-> t.td,
         rects |-> <<RectOf(p0, p1, 20), RectOf(p1, p2, 15)>>]
Init == \E t \in Turns, j \in {"natural", "miter", "bevel"}, rev \in BOOLEAN : case = CaseOf(t, j, rev)
Next == UNCHANGED case

\* the specification's own consistency: the rectangles are rectangles of half-width HW (their
\* short sides have squared length (2 HW)^2) and tan(turn / 2) matches the directions:
\* tan(t/2) = sin t / (1 + cos t) with cos t = d1 / 5, sin t = |d2| / 5
Laws == /\ \A k \in 1..2 : LET r == case.rects[k] IN
                              Dot(VSub(r[1], r[4]), VSub(r[1], r[4])) = 4 * HW * HW
        /\ LET sp == case.spine
               a == VSub(sp[2], sp[1])
               b == VSub(sp[3], sp[2])
               la == IF Dot(a, a) = 400 THEN 20 ELSE 15
               lb == IF Dot(b, b) = 400 THEN 20 ELSE 15
           IN  \* tn / td = |cross| / (la lb + dot)
               case.tn * (la * lb + Dot(a, b)) = case.td * Abs(Cross(a, b))

AppendOpts == [format |-> "TXT", charset |-> "UTF-8",
               openOptions |-> <<"WRITE", "CREATE", "APPEND">>]
Export == Serialize(ToJson(case) \o "\n", IOEnv.GEN_OUT, AppendOpts).exitValue = 0
=============================================================================
