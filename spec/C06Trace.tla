------------------------------ MODULE C06Trace ------------------------------
(* Validates hierarchy queries, flattening and copies (C06) and bounding boxes /   *)
(* convex hulls (C09) against Hierarchy.tla.  One line = one hierarchy and a        *)
(* sequence of steps executed on its top cell; the specification folds over the      *)
(* steps, carrying the hierarchy (which changes when the cell is flattened).         *)
EXTENDS Hierarchy, Json, IOUtils

Log == ndJsonDeserialize(IOEnv.TRACE)
VARIABLES l
Ev == Log[l]

PolyKinds == {"polygon", "diag", "hline", "vline"}
AllKinds == PolyKinds \cup {"flexpath", "robustpath", "label"}
KindsOf(what) == CASE what = "polygons" -> PolyKinds
                   [] what = "polygons_paths" -> PolyKinds \cup {"flexpath", "robustpath"}
                   [] what = "flexpaths" -> {"flexpath"}
                   [] what = "robustpaths" -> {"robustpath"}
                   [] what = "labels" -> {"label"}

\* the hierarchy of a case as a function name -> [shapes (literal), refs]
HierOf(g, base) ==
    LET names == {g.cells[i].name : i \in DOMAIN g.cells}
        cellOf(n) == CHOOSE c \in {g.cells[i] : i \in DOMAIN g.cells} : c.name = n
    IN  [n \in names |->
           [shapes |-> [i \in DOMAIN cellOf(n).shapes |->
                          LET sh == cellOf(n).shapes[i] IN
                          [kind |-> sh.kind, parts |-> ShiftParts(base[sh.kind], sh.at), rep |-> sh.rep]],
            refs |-> cellOf(n).refs]]

\* flattening: the cell's own content plus everything its cell references denote, kind by kind;
\* references that do not point to a cell of the hierarchy stay
Flattened(H, top) ==
    LET sub(k) == Flat([H EXCEPT ![top].shapes = <<>>], top, -1, {k})
        lit(k) == IF Len(sub(k)) = 0 THEN <<>> ELSE <<[kind |-> k, parts |-> sub(k), rep |-> NoRep]>>
    IN  [H EXCEPT ![top] = [shapes |-> H[top].shapes \o lit("polygon") \o lit("diag") \o lit("hline")
                                       \o lit("vline") \o lit("flexpath") \o lit("robustpath") \o lit("label"),
                            refs |-> SelectSeq(H[top].refs, LAMBDA r : r.to \notin DOMAIN H)]]

Observed(items) == Cat2([i \in DOMAIN items |->
                           Cat2([k \in DOMAIN items[i].offs |-> ShiftParts(items[i].parts, items[i].offs[k])])])

BoxOf(S) == BBox(S)
StepFailing(H, top, st, ob, n) ==
    CASE st.s = "get" ->
            LET want0 == Flat(H, top, st.depth, KindsOf(st.what))
                want == IF st.filter >= 0 THEN FilterTag(want0, st.filter) ELSE want0
            IN  IF SameGeometry(Observed(ob.items), want) THEN {}
                ELSE {<<"C06", n, "get_" \o st.what, ToString(st.apply), st.depth, st.filter>>}
      [] st.s \in {"bbox", "bbox_c"} ->
            LET S == AllPoints(Flat(H, top, -1, AllKinds)) IN
            IF S = {} THEN (IF ob.empty THEN {} ELSE {<<"C09", n, st.s, "empty_cell_must_report_inverted_box", 0, 0>>})
            ELSE IF ~ob.empty /\ ob.box = BoxOf(S) THEN {} ELSE {<<"C09", n, st.s, "box", 0, 0>>}
      [] st.s \in {"hull", "hull_c"} ->
            LET S == AllPoints(Flat(H, top, -1, AllKinds)) IN
            IF HullOK(ob.hull, S) THEN {} ELSE {<<"C09", n, st.s, "hull", 0, 0>>}
      [] st.s \in {"ref_bbox", "ref_hull"} ->
            LET r == H[top].refs[1]
                Hr == [H EXCEPT ![top] = [shapes |-> <<>>, refs |-> <<r>>]]
                S == AllPoints(Flat(Hr, top, -1, AllKinds))
            IN  IF st.s = "ref_hull"
                THEN (IF HullOK(ob.hull, S) THEN {} ELSE {<<"C09", n, st.s, "hull", 0, 0>>})
                ELSE IF S = {} THEN (IF ob.empty THEN {} ELSE {<<"C09", n, st.s, "empty", 0, 0>>})
                ELSE IF ~ob.empty /\ ob.box = BoxOf(S) THEN {} ELSE {<<"C09", n, st.s, "box", 0, 0>>}
      [] st.s \in {"flatten_apply", "flatten_keep"} ->
            IF ob.refs_left = Len(SelectSeq(H[top].refs, LAMBDA r : r.to \notin DOMAIN H)) THEN {}
            ELSE {<<"C06", n, st.s, "references_left", 0, 0>>}
      [] OTHER -> {}

RECURSIVE Fold(_, _, _, _, _)
Fold(H, top, g, ev, n) ==
    IF n > Len(g.steps) THEN {}
    ELSE LET st == g.steps[n]
             H2 == IF st.s \in {"flatten_apply", "flatten_keep"} THEN Flattened(H, top) ELSE H
         IN  StepFailing(H, top, st, ev.steps[n], n) \cup Fold(H2, top, g, ev, n + 1)

HierFailing(ev) ==
    (IF ev.lat THEN {} ELSE {<<"C06", 0, "off_lattice", "", 0, 0>>})
    \cup (IF Len(ev.steps) = Len(ev.g.steps) THEN Fold(HierOf(ev.g, ev.base), ev.g.top, ev.g, ev, 1)
          ELSE {<<"C06", 0, "missing_steps", "", 0, 0>>})

Check(ev) == IF ev.e = "hier" THEN HierFailing(ev) ELSE {<<"C06", 0, ev.e, "", 0, 0>>, <<"C09", 0, ev.e, "", 0, 0>>}
TInit == l = 1
TNext == /\ l <= Len(Log) /\ l' = l + 1
         /\ LET f == Check(Ev) IN IF f = {} THEN TRUE
                                  ELSE PrintT("REJECT " \o ToString(l) \o " " \o ToString(f))
=============================================================================
