-------------------------------- MODULE Gdsii --------------------------------
(***************************************************************************)
(* The GDSII stream format, from the format definition (Calma GDSII Stream *)
(* Format Manual, release 6): data model, record framing, record grammar,  *)
(* an encoder with every free choice explicit and a STRICT decoder.        *)
(*                                                                         *)
(* Abstract layout ("GL"), all strings as sequences of ASCII codes, all     *)
(* coordinates as integers in database units, 8-byte reals as their 8      *)
(* bytes:                                                                  *)
(*  Lib   == [name, user, meters (8-byte reals), time (12 ints), cells]    *)
(*  Cell  == [name, time (12 ints), elems]                                 *)
(*  Elem  == boundary [layer, dtype, xy (closed), props]                   *)
(*         | box      [layer, dtype (BOXTYPE), xy (5 points), props]       *)
(*         | path     [layer, dtype, ptype, width, bext, eext, xy, props]  *)
(*         | sref     [sname, refl, mag, angle, xy (1 point), props]       *)
(*         | aref     [sname, refl, mag, angle, cols, rows, xy (3), props] *)
(*         | text     [layer, dtype (TEXTTYPE), pres, ptype, width, refl,  *)
(*                     mag, angle, xy (1 point), str, props]               *)
(*  props == sequence of <<attribute, value string>>                       *)
(***************************************************************************)
EXTENDS Codec, Base

\* ---- record and data type numbers ------------------------------------------
HEADER == 0   BGNLIB == 1   LIBNAME == 2   UNITS == 3   ENDLIB == 4   BGNSTR == 5
STRNAME == 6  ENDSTR == 7   BOUNDARY == 8  PATH == 9    SREF == 10    AREF == 11
TEXT == 12    LAYER == 13   DATATYPE == 14 WIDTH == 15  XY == 16      ENDEL == 17
SNAME == 18   COLROW == 19  TEXTTYPE == 22 PRESENTATION == 23         STRINGREC == 25
STRANS == 26  MAG == 27     ANGLE == 28    REFLIBS == 31  FONTS == 32  PATHTYPE == 33
GENERATIONS == 34  ATTRTABLE == 35  ELFLAGS == 38  PROPATTR == 43  PROPVALUE == 44
BOX == 45     BOXTYPE == 46  PLEX == 47    BGNEXTN == 48  ENDEXTN == 49  FORMAT == 54
DNone == 0  DBits == 1  DI16 == 2  DI32 == 3  DReal8 == 5  DAscii == 6

\* ---- integer fields ----------------------------------------------------------
U16(n) == <<n \div 256, n % 256>>
I16(n) == IF n >= 0 THEN U16(n) ELSE U16(65536 + n)
I32(n) == IF n >= 0 THEN <<n \div 16777216, (n \div 65536) % 256, (n \div 256) % 256, n % 256>>
          ELSE LET m == -(n + 1) IN     \* two's complement without leaving 32 bits
               <<255 - (m \div 16777216), 255 - ((m \div 65536) % 256),
                 255 - ((m \div 256) % 256), 255 - (m % 256)>>
U16At(b, p) == b[p] * 256 + b[p + 1]
S16At(b, p) == LET u == U16At(b, p) IN IF u >= 32768 THEN u - 65536 ELSE u
S32At(b, p) == (IF b[p] >= 128 THEN b[p] - 256 ELSE b[p]) * 16777216
               + b[p + 1] * 65536 + b[p + 2] * 256 + b[p + 3]

RECURSIVE Cat(_)
Cat(ss) == IF Len(ss) = 0 THEN <<>> ELSE Head(ss) \o Cat(Tail(ss))
PadStr(s) == IF Len(s) % 2 = 1 THEN s \o <<0>> ELSE s
Rec(t, d, payload) == U16(4 + Len(payload)) \o <<t, d>> \o payload

Real1 == <<65, 16, 0, 0, 0, 0, 0, 0>>      \* 1.0 as an 8-byte real
Real0 == <<0, 0, 0, 0, 0, 0, 0, 0>>

\* ---- encoder ---------------------------------------------------------------------
\* ch: [elflags, plex, omit (omit optional records that carry their default value),
\*      split (0, or the number of points per XY record), hdr (sequence of optional
\*      library-header record names)]
PropsRecs(props) ==
    Cat([i \in DOMAIN props |-> Rec(PROPATTR, DI16, I16(props[i][1]))
                                \o Rec(PROPVALUE, DAscii, PadStr(props[i][2]))])
PointsBytes(pts) == Cat([i \in DOMAIN pts |-> I32(pts[i][1]) \o I32(pts[i][2])])
RECURSIVE XYChunks(_, _)
XYChunks(pts, k) ==
    IF k = 0 \/ Len(pts) <= k THEN Rec(XY, DI32, PointsBytes(pts))
    ELSE Rec(XY, DI32, PointsBytes(SubSeq(pts, 1, k))) \o XYChunks(SubSeq(pts, k + 1, Len(pts)), k)
Prefix(ch) == (IF ch.elflags THEN Rec(ELFLAGS, DBits, U16(1)) ELSE <<>>)
              \o (IF ch.plex THEN Rec(PLEX, DI32, I32(7)) ELSE <<>>)
StransRecs(e, ch) ==
    LET plain == ~e.refl /\ e.mag = Real1 /\ e.angle = Real0 IN
    IF ch.omit /\ plain THEN <<>>
    ELSE Rec(STRANS, DBits, U16(IF e.refl THEN 32768 ELSE 0))
         \o (IF ch.omit /\ e.mag = Real1 THEN <<>> ELSE Rec(MAG, DReal8, e.mag))
         \o (IF ch.omit /\ e.angle = Real0 THEN <<>> ELSE Rec(ANGLE, DReal8, e.angle))

ElemRecs(e, ch) ==
    (CASE e.kind = "boundary" ->
            Rec(BOUNDARY, DNone, <<>>) \o Prefix(ch) \o Rec(LAYER, DI16, I16(e.layer))
            \o Rec(DATATYPE, DI16, I16(e.dtype)) \o XYChunks(e.xy, ch.split)
       [] e.kind = "box" ->
            Rec(BOX, DNone, <<>>) \o Prefix(ch) \o Rec(LAYER, DI16, I16(e.layer))
            \o Rec(BOXTYPE, DI16, I16(e.dtype)) \o Rec(XY, DI32, PointsBytes(e.xy))
       [] e.kind = "path" ->
            Rec(PATH, DNone, <<>>) \o Prefix(ch) \o Rec(LAYER, DI16, I16(e.layer))
            \o Rec(DATATYPE, DI16, I16(e.dtype))
            \o (IF ch.omit /\ e.ptype = 0 THEN <<>> ELSE Rec(PATHTYPE, DI16, I16(e.ptype)))
            \o (IF ch.omit /\ e.width = 0 THEN <<>> ELSE Rec(WIDTH, DI32, I32(e.width)))
            \o (IF e.ptype = 4 THEN Rec(BGNEXTN, DI32, I32(e.bext)) \o Rec(ENDEXTN, DI32, I32(e.eext))
                ELSE <<>>)
            \o XYChunks(e.xy, ch.split)
       [] e.kind = "sref" ->
            Rec(SREF, DNone, <<>>) \o Prefix(ch) \o Rec(SNAME, DAscii, PadStr(e.sname))
            \o StransRecs(e, ch) \o Rec(XY, DI32, PointsBytes(e.xy))
       [] e.kind = "aref" ->
            Rec(AREF, DNone, <<>>) \o Prefix(ch) \o Rec(SNAME, DAscii, PadStr(e.sname))
            \o StransRecs(e, ch) \o Rec(COLROW, DI16, I16(e.cols) \o I16(e.rows))
            \o Rec(XY, DI32, PointsBytes(e.xy))
       [] e.kind = "text" ->
            Rec(TEXT, DNone, <<>>) \o Prefix(ch) \o Rec(LAYER, DI16, I16(e.layer))
            \o Rec(TEXTTYPE, DI16, I16(e.dtype))
            \o (IF ch.omit /\ e.pres = 0 THEN <<>> ELSE Rec(PRESENTATION, DBits, U16(e.pres)))
            \o (IF ch.omit /\ e.ptype = 0 THEN <<>> ELSE Rec(PATHTYPE, DI16, I16(e.ptype)))
            \o (IF ch.omit /\ e.width = 0 THEN <<>> ELSE Rec(WIDTH, DI32, I32(e.width)))
            \o StransRecs(e, ch) \o Rec(XY, DI32, PointsBytes(e.xy))
            \o Rec(STRINGREC, DAscii, PadStr(e.str)))
    \o PropsRecs(e.props) \o Rec(ENDEL, DNone, <<>>)

TimeBytes(t) == Cat([i \in DOMAIN t |-> I16(t[i])])
HdrRec(h) == CASE h = "reflibs" -> Rec(REFLIBS, DAscii, [i \in 1..90 |-> IF i <= 4 THEN 65 ELSE 0])
               [] h = "fonts" -> Rec(FONTS, DAscii, [i \in 1..176 |-> IF i <= 3 THEN 70 ELSE 0])
               [] h = "attrtable" -> Rec(ATTRTABLE, DAscii, [i \in 1..44 |-> IF i <= 2 THEN 84 ELSE 0])
               [] h = "generations" -> Rec(GENERATIONS, DI16, I16(3))
               [] h = "format" -> Rec(FORMAT, DI16, I16(0))
CellRecs(c, ch) ==
    Rec(BGNSTR, DI16, TimeBytes(c.time)) \o Rec(STRNAME, DAscii, PadStr(c.name))
    \o Cat([i \in DOMAIN c.elems |-> ElemRecs(c.elems[i], ch)]) \o Rec(ENDSTR, DNone, <<>>)
Encode(L, ch) ==
    Rec(HEADER, DI16, I16(600)) \o Rec(BGNLIB, DI16, TimeBytes(L.time))
    \o Rec(LIBNAME, DAscii, PadStr(L.name))
    \o Cat([i \in DOMAIN ch.hdr |-> HdrRec(ch.hdr[i])])
    \o Rec(UNITS, DReal8, L.user \o L.meters)
    \o Cat([i \in DOMAIN L.cells |-> CellRecs(L.cells[i], ch)])
    \o Rec(ENDLIB, DNone, <<>>)

\* ---- framing -----------------------------------------------------------------------
\* A stream is a sequence of records [t, d, p (index of the first payload byte), n (payload
\* length)]; record lengths are even, at least 4 and lie inside the stream.  NUL padding after
\* ENDLIB (to a tape block) is tolerated by the format and ignored here: the stream ends at ENDLIB.
RECURSIVE Frame(_, _, _)
Frame(b, pos, acc) ==
    IF pos > Len(b) THEN [ok |-> TRUE, recs |-> acc, endpos |-> pos]
    ELSE IF pos + 3 > Len(b) THEN [ok |-> FALSE, recs |-> acc, endpos |-> pos]
    ELSE LET len == U16At(b, pos) IN
         IF len < 4 \/ len % 2 = 1 \/ pos + len - 1 > Len(b)
         THEN [ok |-> FALSE, recs |-> acc, endpos |-> pos]
         ELSE LET r == [t |-> b[pos + 2], d |-> b[pos + 3], p |-> pos + 4, n |-> len - 4] IN
              IF r.t = ENDLIB THEN [ok |-> TRUE, recs |-> Append(acc, r), endpos |-> pos + len]
              ELSE Frame(b, pos + len, Append(acc, r))

\* ---- strict decoder ----------------------------------------------------------------------
Payload(b, r) == [i \in 1..r.n |-> b[r.p + i - 1]]
\* strings: one trailing NUL (padding to even length) is not part of the string
StrOf(b, r) == LET s == Payload(b, r) IN
               IF Len(s) > 0 /\ s[Len(s)] = 0 THEN SubSeq(s, 1, Len(s) - 1) ELSE s
I16sOf(b, r) == [i \in 1..(r.n \div 2) |-> S16At(b, r.p + 2 * (i - 1))]
PointsOf(b, r) == [i \in 1..(r.n \div 8) |-> <<S32At(b, r.p + 8 * (i - 1)), S32At(b, r.p + 8 * (i - 1) + 4)>>]
Is(recs, i, t, d) == i <= Len(recs) /\ recs[i].t = t /\ recs[i].d = d
Fail == [ok |-> FALSE]

\* optional [ELFLAGS] [PLEX]
SkipPrefix(recs, i) ==
    LET j == IF Is(recs, i, ELFLAGS, DBits) /\ recs[i].n = 2 THEN i + 1 ELSE i
    IN  IF Is(recs, j, PLEX, DI32) /\ recs[j].n = 4 THEN j + 1 ELSE j

\* XY+ : one or more consecutive XY records (gdstk's documented extension for long lists)
RECURSIVE CollectXY(_, _, _, _)
CollectXY(b, recs, i, acc) ==
    IF Is(recs, i, XY, DI32) /\ recs[i].n % 8 = 0 /\ recs[i].n >= 8
    THEN CollectXY(b, recs, i + 1, acc \o PointsOf(b, recs[i]))
    ELSE [i |-> i, pts |-> acc]

\* {PROPATTR PROPVALUE} ENDEL
RECURSIVE CollectProps(_, _, _, _)
CollectProps(b, recs, i, acc) ==
    IF Is(recs, i, PROPATTR, DI16) /\ recs[i].n = 2 /\ Is(recs, i + 1, PROPVALUE, DAscii)
    THEN CollectProps(b, recs, i + 2,
                      Append(acc, <<S16At(b, recs[i].p), StrOf(b, recs[i + 1])>>))
    ELSE IF Is(recs, i, ENDEL, DNone) /\ recs[i].n = 0 THEN [ok |-> TRUE, i |-> i + 1, props |-> acc]
    ELSE Fail

\* [STRANS [MAG] [ANGLE]]
ParseStrans(b, recs, i) ==
    IF Is(recs, i, STRANS, DBits) /\ recs[i].n = 2
    THEN LET flags == U16At(b, recs[i].p)
             hasmag == Is(recs, i + 1, MAG, DReal8) /\ recs[i + 1].n = 8
             j == IF hasmag THEN i + 2 ELSE i + 1
             hasang == Is(recs, j, ANGLE, DReal8) /\ recs[j].n = 8
         IN  [i |-> IF hasang THEN j + 1 ELSE j, refl |-> flags >= 32768,
              absflags |-> flags % 8 # 0 \/ (flags % 32768) \div 8 # 0,
              mag |-> IF hasmag THEN Payload(b, recs[i + 1]) ELSE Real1,
              angle |-> IF hasang THEN Payload(b, recs[j]) ELSE Real0]
    ELSE [i |-> i, refl |-> FALSE, absflags |-> FALSE, mag |-> Real1, angle |-> Real0]

Opt16(b, recs, i, t, d, dflt) ==     \* optional 2-byte record: [i', v]
    IF Is(recs, i, t, d) /\ recs[i].n = 2 THEN [i |-> i + 1, v |-> S16At(b, recs[i].p)]
    ELSE [i |-> i, v |-> dflt]
Opt32(b, recs, i, t, dflt) ==
    IF Is(recs, i, t, DI32) /\ recs[i].n = 4 THEN [i |-> i + 1, v |-> S32At(b, recs[i].p)]
    ELSE [i |-> i, v |-> dflt]

InI16(n) == n >= -32768 /\ n <= 32767
Finish(b, recs, i, e) ==      \* properties, ENDEL, and the element value
    LET pr == CollectProps(b, recs, i, <<>>) IN
    IF pr.ok THEN [ok |-> TRUE, i |-> pr.i, e |-> e @@ [props |-> pr.props]] ELSE Fail

ParseElem(b, recs, i0) ==
    LET k == recs[i0].t
        i == SkipPrefix(recs, i0 + 1)
    IN
    IF recs[i0].d # DNone \/ recs[i0].n # 0 THEN Fail
    ELSE IF k \in {BOUNDARY, BOX, PATH, TEXT} THEN
        IF ~(Is(recs, i, LAYER, DI16) /\ recs[i].n = 2) THEN Fail
        ELSE LET layer == S16At(b, recs[i].p)
                 tt == CASE k = BOX -> BOXTYPE [] k = TEXT -> TEXTTYPE [] OTHER -> DATATYPE
             IN
             IF ~(Is(recs, i + 1, tt, DI16) /\ recs[i + 1].n = 2) THEN Fail
             ELSE LET dtype == S16At(b, recs[i + 1].p)
                      j == i + 2
                  IN
                  CASE k = BOUNDARY ->
                         LET xy == CollectXY(b, recs, j, <<>>) IN
                         \* closed, at least 3 distinct vertices + the closing one
                         IF Len(xy.pts) < 4 \/ xy.pts[1] # xy.pts[Len(xy.pts)] THEN Fail
                         ELSE Finish(b, recs, xy.i, [kind |-> "boundary", layer |-> layer,
                                                     dtype |-> dtype, xy |-> xy.pts])
                    [] k = BOX ->
                         IF ~(Is(recs, j, XY, DI32) /\ recs[j].n = 40) THEN Fail
                         ELSE LET pts == PointsOf(b, recs[j]) IN
                              IF pts[1] # pts[5] THEN Fail
                              ELSE Finish(b, recs, j + 1, [kind |-> "box", layer |-> layer,
                                                           dtype |-> dtype, xy |-> pts])
                    [] k = PATH ->
                         LET pt == Opt16(b, recs, j, PATHTYPE, DI16, 0)
                             wd == Opt32(b, recs, pt.i, WIDTH, 0)
                             be == Opt32(b, recs, wd.i, BGNEXTN, 0)
                             ee == Opt32(b, recs, be.i, ENDEXTN, 0)
                             xy == CollectXY(b, recs, ee.i, <<>>)
                         IN  IF Len(xy.pts) < 2 \/ pt.v \notin {0, 1, 2, 4} THEN Fail
                             ELSE Finish(b, recs, xy.i,
                                         [kind |-> "path", layer |-> layer, dtype |-> dtype,
                                          ptype |-> pt.v, width |-> wd.v, bext |-> be.v,
                                          eext |-> ee.v, xy |-> xy.pts])
                    [] k = TEXT ->
                         LET pres == IF Is(recs, j, PRESENTATION, DBits) /\ recs[j].n = 2
                                     THEN [i |-> j + 1, v |-> U16At(b, recs[j].p)]
                                     ELSE [i |-> j, v |-> 0]
                             pt == Opt16(b, recs, pres.i, PATHTYPE, DI16, 0)
                             wd == Opt32(b, recs, pt.i, WIDTH, 0)
                             st == ParseStrans(b, recs, wd.i)
                             x == st.i
                         IN  IF ~(Is(recs, x, XY, DI32) /\ recs[x].n = 8) THEN Fail
                             ELSE IF ~Is(recs, x + 1, STRINGREC, DAscii) THEN Fail
                             ELSE Finish(b, recs, x + 2,
                                         [kind |-> "text", layer |-> layer, dtype |-> dtype,
                                          pres |-> pres.v, ptype |-> pt.v, width |-> wd.v,
                                          refl |-> st.refl, mag |-> st.mag, angle |-> st.angle,
                                          xy |-> PointsOf(b, recs[x]),
                                          str |-> StrOf(b, recs[x + 1])])
    ELSE IF k \in {SREF, AREF} THEN
        IF ~Is(recs, i, SNAME, DAscii) THEN Fail
        ELSE LET st == ParseStrans(b, recs, i + 1)
                 j == st.i
             IN
             IF k = SREF THEN
                 IF ~(Is(recs, j, XY, DI32) /\ recs[j].n = 8) THEN Fail
                 ELSE Finish(b, recs, j + 1,
                             [kind |-> "sref", sname |-> StrOf(b, recs[i]), refl |-> st.refl,
                              mag |-> st.mag, angle |-> st.angle, xy |-> PointsOf(b, recs[j])])
             ELSE
                 IF ~(Is(recs, j, COLROW, DI16) /\ recs[j].n = 4
                      /\ Is(recs, j + 1, XY, DI32) /\ recs[j + 1].n = 24) THEN Fail
                 ELSE LET cr == I16sOf(b, recs[j]) IN
                      IF cr[1] < 1 \/ cr[2] < 1 THEN Fail
                      ELSE Finish(b, recs, j + 2,
                                  [kind |-> "aref", sname |-> StrOf(b, recs[i]), refl |-> st.refl,
                                   mag |-> st.mag, angle |-> st.angle, cols |-> cr[1],
                                   rows |-> cr[2], xy |-> PointsOf(b, recs[j + 1])])
    ELSE Fail

RECURSIVE ParseElems(_, _, _, _)
ParseElems(b, recs, i, acc) ==
    IF i > Len(recs) THEN Fail
    ELSE IF Is(recs, i, ENDSTR, DNone) /\ recs[i].n = 0 THEN [ok |-> TRUE, i |-> i + 1, elems |-> acc]
    ELSE LET e == ParseElem(b, recs, i) IN
         IF e.ok THEN ParseElems(b, recs, e.i, Append(acc, e.e)) ELSE Fail

RECURSIVE ParseCells(_, _, _, _)
ParseCells(b, recs, i, acc) ==
    IF i > Len(recs) THEN Fail
    ELSE IF Is(recs, i, ENDLIB, DNone) /\ recs[i].n = 0
    THEN (IF i = Len(recs) THEN [ok |-> TRUE, cells |-> acc] ELSE Fail)
    ELSE IF Is(recs, i, BGNSTR, DI16) /\ recs[i].n = 24 /\ Is(recs, i + 1, STRNAME, DAscii)
    THEN LET es == ParseElems(b, recs, i + 2, <<>>) IN
         IF es.ok THEN ParseCells(b, recs, es.i,
                                  Append(acc, [name |-> StrOf(b, recs[i + 1]),
                                               time |-> I16sOf(b, recs[i]), elems |-> es.elems]))
         ELSE Fail
    ELSE Fail

\* optional library header records between LIBNAME and UNITS, in their fixed order
SkipHdr(recs, i) ==
    LET a == IF Is(recs, i, REFLIBS, DAscii) THEN i + 1 ELSE i
        c == IF Is(recs, a, FONTS, DAscii) THEN a + 1 ELSE a
        d == IF Is(recs, c, ATTRTABLE, DAscii) THEN c + 1 ELSE c
        e == IF Is(recs, d, GENERATIONS, DI16) THEN d + 1 ELSE d
    IN  IF Is(recs, e, FORMAT, DI16) THEN e + 1 ELSE e

Decode(b) ==
    LET fr == Frame(b, 1, <<>>)
        recs == fr.recs
    IN
    IF ~fr.ok \/ Len(recs) < 5 THEN Fail
    ELSE IF ~(Is(recs, 1, HEADER, DI16) /\ recs[1].n = 2 /\ Is(recs, 2, BGNLIB, DI16)
              /\ recs[2].n = 24 /\ Is(recs, 3, LIBNAME, DAscii)) THEN Fail
    ELSE LET u == SkipHdr(recs, 4) IN
         IF ~(Is(recs, u, UNITS, DReal8) /\ recs[u].n = 16) THEN Fail
         ELSE LET cs == ParseCells(b, recs, u + 1, <<>>) IN
              IF ~cs.ok THEN Fail
              ELSE [ok |-> TRUE,
                    lib |-> [name |-> StrOf(b, recs[3]), time |-> I16sOf(b, recs[2]),
                             user |-> [i \in 1..8 |-> b[recs[u].p + i - 1]],
                             meters |-> [i \in 1..8 |-> b[recs[u].p + 8 + i - 1]],
                             cells |-> cs.cells],
                    \* bytes after ENDLIB may only be NUL padding
                    tailok |-> \A q \in fr.endpos..Len(b) : b[q] = 0]

\* ---- reading of the format: what a loaded library must contain ---------------------------
\* exact value * 2^s of an 8-byte real, as a TLC integer (Assert: it is an integer, and small)
RealScaled(r8, s) ==
    LET m == GdsMant(r8)
        e == GdsExp2(r8) + s
        v == IF e >= 0 THEN ToInt(Shl(m, e))
             ELSE IF IsZero(SubSeq(Pad(m, -e), 1, -e)) THEN ToInt(Shr(m, -e))
             ELSE Assert(FALSE, <<"real is not a multiple of 2^-s", r8, s>>)
    IN  IF GdsSign(r8) = 1 THEN -v ELSE v
\* nearest integer to value * 2^s; the value must be within 2^-16 of it (a writer is entitled
\* to one ulp of the 56-bit mantissa when it converts from a double)
RealScaledNear(r8, s) ==
    LET m == GdsMant(r8)
        e == GdsExp2(r8) + s
        v == IF e >= 0 THEN ToInt(Shl(m, e))
             ELSE LET k == -e
                      n == Shr(BAdd(m, Pow2(k - 1)), k)
                      diff == BAbsDiff(m, Shl(n, k))
                  IN  IF BitLen(diff) = 0 \/ (k >= 17 /\ BitLen(diff) <= k - 16) THEN ToInt(n)
                      ELSE Assert(FALSE, <<"real is not near a multiple of 2^-s", r8, s>>)
    IN  IF GdsSign(r8) = 1 THEN -v ELSE v
Mag1024(r8) == RealScaledNear(r8, 10)
Ang64(r8) == RealScaledNear(r8, 6)

PropMap(props) ==      \* later entries overwrite earlier ones with the same attribute
    {<<props[i][1], props[i][2]>> : i \in {j \in DOMAIN props :
        \A k \in (j + 1)..Len(props) : props[k][1] # props[j][1]}}

OpenRing(xy) == IF Len(xy) >= 2 /\ xy[1] = xy[Len(xy)] THEN SubSeq(xy, 1, Len(xy) - 1) ELSE xy
\* the lattice pitch of an AREF is (corner - origin) / count; a stream in which that division is
\* not exact on the database grid denotes no lattice of this model: its placements are a marker
\* that equals nothing a library can contain (so the comparison fails instead of rounding)
ArefOffsets(e) ==
    LET o == e.xy[1]
        d1 == <<e.xy[2][1] - o[1], e.xy[2][2] - o[2]>>
        d2 == <<e.xy[3][1] - o[1], e.xy[3][2] - o[2]>>
        exact == d1[1] % e.cols = 0 /\ d1[2] % e.cols = 0 /\ d2[1] % e.rows = 0 /\ d2[2] % e.rows = 0
        v1 == <<d1[1] \div e.cols, d1[2] \div e.cols>>
        v2 == <<d2[1] \div e.rows, d2[2] \div e.rows>>
    IN  IF ~exact THEN << <<1000000007, 1000000007>> >>
        ELSE [k \in 1..(e.cols * e.rows) |->
                LET i == (k - 1) \div e.rows
                    j == (k - 1) % e.rows
                IN  <<i * v1[1] + j * v2[1], i * v1[2] + j * v2[2]>>]

\* ---- the canonical meaning ("M-shape") of a layout --------------------------------------
\* [name, cells: sequence of [name, polys, paths, refs, labels]] where
\*   poly  = [l, t, xy (open ring), props (attribute -> value map as a set of pairs)]
\*   path  = [l, t, pt, w, sw, ext, spine (collinear interior vertices removed), props]
\*   ref   = [sname, kind, refl, mag (1/1024), ang (1/64 degree), xy, props]   one per placement
\*   label = [l, t, anchor, refl, mag, ang, xy, text, props]
\* Element sequences are compared as bags.
RECURSIVE SimplifyRec(_, _, _)
SimplifyRec(pts, i, acc) ==      \* drop vertices lying on the segment between their neighbours
    IF i > Len(pts) THEN acc
    ELSE IF i = Len(pts) \/ Len(acc) = 0 THEN SimplifyRec(pts, i + 1, Append(acc, pts[i]))
    ELSE LET a == acc[Len(acc)]
             b == pts[i]
             c == pts[i + 1]
         IN  IF b = a \/ (Cross3(a, b, c) = 0 /\ Dot(VSub(b, a), VSub(c, b)) >= 0 /\ b # c)
             THEN SimplifyRec(pts, i + 1, acc)
             ELSE SimplifyRec(pts, i + 1, Append(acc, b))
Simplify(pts) == SimplifyRec(pts, 1, <<>>)

PolyOf(e) == [l |-> e.layer, t |-> e.dtype, xy |-> OpenRing(e.xy), props |-> PropMap(e.props)]
PathOf(e) == [l |-> e.layer, t |-> e.dtype, pt |-> e.ptype, w |-> Abs(e.width),
              sw |-> IF e.width = 0 THEN TRUE ELSE e.width > 0,
              ext |-> IF e.ptype = 4 THEN <<e.bext, e.eext>> ELSE <<0, 0>>,
              spine |-> Simplify(e.xy), props |-> PropMap(e.props)]
RefsOf(e, names) ==
    LET offs == IF e.kind = "aref" THEN ArefOffsets(e) ELSE << <<0, 0>> >> IN
    [k \in DOMAIN offs |->
        [sname |-> e.sname, kind |-> IF e.sname \in names THEN "cell" ELSE "name",
         refl |-> e.refl, mag |-> Mag1024(e.mag), ang |-> Ang64(e.angle),
         xy |-> VAdd(e.xy[1], offs[k]), props |-> PropMap(e.props)]]
LabelOf(e) == [l |-> e.layer, t |-> e.dtype, anchor |-> e.pres % 16, refl |-> e.refl,
               mag |-> Mag1024(e.mag), ang |-> Ang64(e.angle), xy |-> e.xy[1], text |-> e.str,
               props |-> PropMap(e.props)]
Select(elems, kinds) == SelectSeq(elems, LAMBDA e : e.kind \in kinds)
Map(f(_), s) == [i \in DOMAIN s |-> f(s[i])]
FlatMap(f(_), s) == Cat([i \in DOMAIN s |-> f(s[i])])
CellMeaning(c, names) ==
    [name |-> c.name,
     polys |-> Map(PolyOf, Select(c.elems, {"boundary", "box"})),
     paths |-> Map(PathOf, Select(c.elems, {"path"})),
     refs |-> FlatMap(LAMBDA e : RefsOf(e, names), Select(c.elems, {"sref", "aref"})),
     labels |-> Map(LabelOf, Select(c.elems, {"text"}))]
Meaning(L) == LET names == {L.cells[i].name : i \in DOMAIN L.cells} IN
              [name |-> L.name, cells |-> Map(LAMBDA c : CellMeaning(c, names), L.cells)]

\* comparison of two M-shapes: the set of clause names that fail
Failing(cl) == {cl[i][1] : i \in {j \in DOMAIN cl : ~cl[j][2]}}
CellFailing(a, b) ==
    Failing(<< <<"polygons", BagEq(a.polys, b.polys)>>, <<"paths", BagEq(a.paths, b.paths)>>,
               <<"references", BagEq(a.refs, b.refs)>>, <<"labels", BagEq(a.labels, b.labels)>> >>)
MFailing(a, b) ==
    (IF a.name = b.name THEN {} ELSE {"library_name"})
    \cup (IF Len(a.cells) = Len(b.cells) THEN {} ELSE {"cell_count"})
    \cup UNION {LET cands == {j \in DOMAIN a.cells : a.cells[j].name = b.cells[i].name} IN
                IF Cardinality(cands) # 1 THEN {"cell_names"}
                ELSE CellFailing(a.cells[CHOOSE j \in cands : TRUE], b.cells[i])
                : i \in DOMAIN b.cells}

=============================================================================
