------------------------------ MODULE C19Trace ------------------------------
(* Validates gdstk's number codecs against Codec.tla.  One line = one case:       *)
(*   dec : bytes emitted by the specification's encoders, decoded by gdstk         *)
(*   enc : a value encoded by gdstk; the specification's strict decoder must give   *)
(*         back exactly that value from the bytes, and so must gdstk's own reader   *)
(*   gds : a double through gdsii_real_from_double / gdsii_real_to_double           *)
EXTENDS Codec, Json, IOUtils

Log == ndJsonDeserialize(IOEnv.TRACE)
VARIABLES l
Ev == Log[l]

B64(bytes8) == Trim(BytesToBits(bytes8))
SOf(j) == SVal(j.neg, B64(j.mag))
DOf(jx, jy) == [x |-> SOf(jx), y |-> SOf(jy)]

DecDelta(kind, bytes) == CASE kind = "d2" -> Dec2DeltaAt(bytes, 1)
                           [] kind = "d3" -> Dec3DeltaAt(bytes, 1)
                           [] kind = "dg" -> DecGDeltaAt(bytes, 1)

\* strict decoding of a whole point list: [ok, pts, next]
DeltaInts(kind, ds) == [i \in DOMAIN ds |->
                          IF kind = 1 THEN SInt(ds[i]) ELSE <<SInt(ds[i].x), SInt(ds[i].y)>>]
DecPointList(bytes, closed) ==
    LET t == bytes[1]
        cnt == DecUnsignedAt(bytes, 2)
        n == ToInt(cnt.v)
        kind == CASE t \in {0, 1} -> 1 [] t = 2 -> 2 [] t = 3 -> 3 [] OTHER -> 4
        dd == DecDeltas(bytes, cnt.next, n, kind, <<>>)
    IN  IF t > 5 \/ ~cnt.ok \/ ~dd.ok THEN [ok |-> FALSE, pts |-> <<>>, next |-> 0, n |-> 0]
        ELSE [ok |-> TRUE, pts |-> PLVertices(t, DeltaInts(kind, dd.ds), closed),
              next |-> dd.next, n |-> n, t |-> t]
Rel(pts) == [i \in DOMAIN pts |-> <<pts[i][1] - pts[1][1], pts[i][2] - pts[1][2]>>]

\* what gdstk's reader returned (fields of ev or of ev.back) vs. the specification's decoding
ReadClauses(kind, bytes, r, closed) ==
    CASE kind = "uint" ->
            LET d == DecUnsignedAt(bytes, 1) IN
            IF d.overflow THEN << <<"overflow_flagged", r.err # 0>> >>
            ELSE << <<"wellformed", d.ok>>, <<"no_error", r.err = 0>>,
                    <<"value", BEq(B64(r.v), d.v)>>, <<"consumed", r.used = d.next - 1>> >>
      [] kind = "int" ->
            LET d == DecSignedAt(bytes, 1) IN
            IF d.overflow THEN << <<"overflow_flagged", r.err # 0>> >>
            ELSE << <<"wellformed", d.ok>>, <<"no_error", r.err = 0>>,
                    <<"value", SOf(r.v) = d.v>>, <<"consumed", r.used = d.next - 1>> >>
      [] kind \in {"d2", "d3", "dg"} ->
            LET d == DecDelta(kind, bytes) IN
            IF d.overflow THEN << <<"overflow_flagged", r.err # 0>> >>
            ELSE << <<"wellformed", d.ok>>, <<"no_error", r.err = 0>>,
                    <<"value", DOf(r.x, r.y) = d.v>>, <<"consumed", r.used = d.next - 1>> >>
      [] kind = "real" ->
            LET d == DecRealAt(bytes, 1) IN
            << <<"wellformed", d.ok>>, <<"no_error", r.err = 0>>,
               <<"value", d.ok => RealMeansDouble(d, BytesToBits(r.v))>>,
               <<"consumed", d.ok => r.used = d.next - 1>> >>
      [] kind = "plist" ->
            LET d == DecPointList(bytes, closed) IN
            << <<"wellformed", d.ok>>, <<"no_error", r.err = 0>>, <<"lattice", r.lat>>,
               <<"vertices", d.ok => r.pts = d.pts>>,
               <<"consumed", d.ok => r.used = d.next - 1>> >>

\* what gdstk's writer produced vs. the value it was given
WriteClauses(g, ev) ==
    CASE g.kind = "uint" ->
            LET d == DecUnsignedAt(ev.bytes, 1) IN
            << <<"legal_form", d.ok /\ d.next = Len(ev.bytes) + 1 /\ Len(ev.bytes) <= 10>>,
               <<"denotes_value", BEq(d.v, B64(g.v))>> >>
      [] g.kind = "int" ->
            LET d == DecSignedAt(ev.bytes, 1) IN
            << <<"legal_form", d.ok /\ d.next = Len(ev.bytes) + 1 /\ Len(ev.bytes) <= 10>>,
               <<"denotes_value", d.v = SOf(g.v)>> >>
      [] g.kind \in {"d2", "d3", "dg"} ->
            LET d == DecDelta(g.kind, ev.bytes) IN
            << <<"legal_form", d.ok /\ d.next = Len(ev.bytes) + 1>>,
               <<"denotes_value", d.v = DOf(g.x, g.y)>> >>
      [] g.kind = "real" ->
            LET d == DecRealAt(ev.bytes, 1) IN
            << <<"legal_form", d.ok /\ d.next = Len(ev.bytes) + 1>>,
               <<"denotes_value", d.ok => RealMeansDouble(d, BytesToBits(g.v))>> >>
      [] g.kind = "plist" ->
            IF Len(g.pts) = 0 THEN << <<"nothing_written", Len(ev.bytes) = 0>> >>
            ELSE LET d == DecPointList(ev.bytes, g.closed) IN
            << <<"legal_form", d.ok /\ d.next = Len(ev.bytes) + 1>>,
               <<"denotes_vertices", d.ok => d.pts = Rel(g.pts)>> >>

\* doubles within the GDSII real's range: 16^-64 <= |v| < 16^63, or zero
InGdsRange(dbits) == DblIsZero(dbits) \/
    (DblIsFinite(dbits) /\ DblExpField(dbits) >= 1023 - 256 /\ DblExpField(dbits) <= 1023 + 251)
GdsClauses(g, ev) ==
    LET v == BytesToBits(g.v) IN
    IF ~InGdsRange(v) THEN <<>>
    ELSE << <<"encoded_within_1ulp", GdsWithinUlps(ev.gds, v, 1)>>,
            <<"decoded_within_1ulp", DblWithinUlps(v, BytesToBits(ev.back), 1)>> >>

Failing(cl) == {cl[i][1] : i \in {j \in DOMAIN cl : ~cl[j][2]}}
IsClosed(g) == IF "closed" \in DOMAIN g THEN g.closed ELSE FALSE
Check(ev) ==
    CASE ev.e = "dec" -> Failing(ReadClauses(ev.g.kind, ev.g.bytes, ev, IsClosed(ev.g)))
      [] ev.e = "enc" ->
            Failing(WriteClauses(ev.g, ev))
            \cup (IF ev.g.kind = "plist" /\ Len(ev.g.pts) = 0 THEN {}
                  ELSE {"readback_" \o x : x \in
                          Failing(ReadClauses(ev.g.kind, ev.bytes, ev.back, IsClosed(ev.g)))})
      [] ev.e = "gds" -> Failing(GdsClauses(ev.g, ev))
      [] OTHER -> {ev.e}

TInit == l = 1
TNext == /\ l <= Len(Log) /\ l' = l + 1
         /\ LET f == Check(Ev) IN IF f = {} THEN TRUE ELSE PrintT("REJECT " \o ToString(l) \o " " \o ToString(f))
=============================================================================
