------------------------------ MODULE C13Trace ------------------------------
(* Validates offset() against the distance semantics of Region.tla: for d > 0 every *)
(* point surely closer than d to a part is covered and no point surely farther than   *)
(* the join's reach is; for d < 0 every point surely deeper than |d| inside a part is *)
(* kept and no point surely shallower than the join allows (or outside) is.           *)
(* "Surely" = conservative integer distance tests with a guard of 1.5 grid units plus *)
(* the arc tolerance of round joins.                                                  *)
EXTENDS Region, Json, IOUtils

Log == ndJsonDeserialize(IOEnv.TRACE)
VARIABLES l
Ev == Log[l]

CeilDiv(a, b) == (a + b - 1) \div b
OffsetFailing(ev) ==
    LET g == ev.g
        S == g.s
        D == 2 * S * Abs(g.d)                      \* |d| in fine units
        guard == 3
        \* reach factor of the join, as a rational num/den (outer bound for growth; for erosion the
        \* kept region may come as close as D * den / num to a reflex vertex)
        num == CASE g.join = "round" -> 1000 [] g.join = "bevel" -> 1415 [] g.join = "miter" -> 1000 * g.tol
        den == 1000
        arc == IF g.join = "round" THEN CeilDiv(D * 20, 1000) ELSE 0      \* 1 - cos(pi/16) < 0.02
        Reach == CeilDiv(D * num, den) + guard
        Inner == D - guard - arc
        parts == [k \in DOMAIN g.parts |->
                    [outer |-> FineOfUser(<<g.parts[k].outer>>, S)[1],
                     holes |-> FineOfUser(g.parts[k].holes, S)]]
        R == FineOfGrid(ev.res)
        qs == FineSamples(-7, 18, S)
        SureIn(q) == IF g.d > 0
                     THEN \E k \in DOMAIN parts : InPart(parts[k], q) \/ (Inner > 0 /\ BoundaryCloserThan(parts[k], q, Inner))
                     ELSE \E k \in DOMAIN parts : InPart(parts[k], q) /\ BoundaryFartherThan(parts[k], q, D + guard + arc)
        SureOut(q) == IF g.d > 0
                      THEN \A k \in DOMAIN parts : ~InPart(parts[k], q) /\ BoundaryFartherThan(parts[k], q, Reach)
                      ELSE \A k \in DOMAIN parts :
                              ~InPart(parts[k], q)
                              \/ (LET lim == ((D - guard) * den) \div num IN
                                  lim > 0 /\ BoundaryCloserThan(parts[k], q, lim))
        missing == {q \in qs : SureIn(q) /\ ~InRegion(R, q)}
        extra == {q \in qs : SureOut(q) /\ InRegion(R, q)}
    IN  (IF ev.lat /\ ev.err = 0 THEN {} ELSE {<<"lattice_or_error">>})
        \cup (IF missing = {} THEN {} ELSE {<<"not_covered", CHOOSE q \in missing : TRUE>>})
        \cup (IF extra = {} THEN {} ELSE {<<"covered_too_far", CHOOSE q \in extra : TRUE>>})

Check(ev) == IF ev.e = "offset" THEN OffsetFailing(ev) ELSE {<<ev.e>>}
TInit == l = 1
TNext == /\ l <= Len(Log) /\ l' = l + 1
         /\ LET f == Check(Ev) IN IF f = {} THEN TRUE
                                  ELSE PrintT("REJECT " \o ToString(l) \o " " \o ToString(f))
=============================================================================
