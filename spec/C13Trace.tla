------------------------------ MODULE C13Trace ------------------------------
(* Validates offset() against the distance semantics of Region.tla: for d > 0 every *)
(* point surely closer than d to a part is covered and no point surely farther than   *)
(* the join's reach is; for d < 0 every point surely deeper than |d| inside a part is *)
(* kept and no point surely shallower than the join allows (or outside) is.           *)
(* "Surely" = conservative integer distance tests with a guard of 1.5 grid units plus *)
(* the arc tolerance of round joins.                                                  *)
EXTENDS Region, Json, IOUtils

Log == ndJsonDeserialize(IOEnv.TRACE)
VARIABLES l
Ev == Log[l]

CeilDiv(a, b) == (a + b - 1) \div b
OffsetFailing(ev) ==
    LET g == ev.g
        S == g.s
        D == 2 * S * Abs(g.d)                      \* |d| in fine units
        guard == 3
        \* reach factor of the join, as a rational num/den: how far from the operand's boundary the
        \* result's boundary may lie (growth: outwards; erosion: inwards, at reflex corners)
        num == CASE g.join = "round" -> 1000 [] g.join = "bevel" -> 1415 [] g.join = "miter" -> 1000 * g.tol
        den == 1000
        \* round joins are polygonal: `tol` vertices per full turn; the vendored offsetter rounds the
        \* number of steps of a partial arc to the nearest integer, so one chord may span up to one and
        \* a half nominal steps: sagitta <= D (1 - cos(1.5 pi / tol))  ("up to the arc resolution")
        arcpm == CASE g.tol >= 32 -> 11 [] g.tol >= 16 -> 44 [] OTHER -> 170
        arc == IF g.join = "round" THEN CeilDiv(D * arcpm, 1000) ELSE 0
        Reach == CeilDiv(D * num, den) + guard
        Inner == D - guard - arc
        parts == [k \in DOMAIN g.parts |->
                    [outer |-> FineOfUser(<<g.parts[k].outer>>, S)[1],
                     holes |-> FineOfUser(g.parts[k].holes, S)]]
        R == FineOfGrid(ev.res)
        qs == FineSamples(-7, 18, S)
        SureIn(q) == IF g.d > 0
                     THEN \E k \in DOMAIN parts : InPart(parts[k], q) \/ (Inner > 0 /\ BoundaryCloserThan(parts[k], q, Inner))
                     \* erosion is growth of the complement: the join style acts at the region's reflex
                     \* corners, where a miter / square join removes more than the round one; a point is
                     \* surely kept when it is deeper than the join's reach
                     ELSE \E k \in DOMAIN parts : InPart(parts[k], q) /\ BoundaryFartherThan(parts[k], q, Reach + arc)
        SureOut(q) == IF g.d > 0
                      THEN \A k \in DOMAIN parts : ~InPart(parts[k], q) /\ BoundaryFartherThan(parts[k], q, Reach)
                      ELSE \A k \in DOMAIN parts :
                              ~InPart(parts[k], q)
                              \/ (Inner > 0 /\ BoundaryCloserThan(parts[k], q, Inner))
        missing == {q \in qs : SureIn(q) /\ ~InRegion(R, q)}
        extra == {q \in qs : SureOut(q) /\ InRegion(R, q)}
    IN  (IF ev.lat /\ ev.err = 0 THEN {} ELSE {<<"lattice_or_error">>})
        \cup (IF missing = {} THEN {} ELSE {<<"not_covered", CHOOSE q \in missing : TRUE>>})
        \cup (IF extra = {} THEN {} ELSE {<<"covered_too_far", CHOOSE q \in extra : TRUE>>})

Check(ev) == IF ev.e = "offset" THEN OffsetFailing(ev) ELSE {<<ev.e>>}
TInit == l = 1
TNext == /\ l <= Len(Log) /\ l' = l + 1
         /\ LET f == Check(Ev) IN IF f = {} THEN TRUE
                                  ELSE PrintT("REJECT " \o ToString(l) \o " " \o ToString(f))
=============================================================================
