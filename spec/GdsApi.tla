-------------------------------- MODULE GdsApi --------------------------------
(* Abstract library descriptions ("AL") that the harness builds through gdstk's   *)
(* C++ API, and Norm: what a GDSII save/load of such a library must contain        *)
(* (C01), which is also what the strict decoder must find in the written file      *)
(* (C03, reverse direction).                                                       *)
(* Coordinates are in QUANTA = quarter database units (eighths where the            *)
(* description carries qd = 8), never on a rounding tie (k % qd # qd / 2), so        *)
(* "rounded to the precision grid" is unambiguous.                                 *)
EXTENDS GdsProj, Repetition, GdsConsts
Poly(l, t, pts, rep, props) == [l |-> l, t |-> t, pts |-> pts, rep |-> rep, props |-> props]
El(l, t, w, off, pt, ext) == [l |-> l, t |-> t, w |-> w, off |-> off, pt |-> pt, ext |-> ext]
Path(robust, simple, sw, els, spine, rep, props) ==
    [robust |-> robust, simple |-> simple, sw |-> sw, els |-> els, spine |-> spine, rep |-> rep,
     props |-> props]
Label(l, t, an, f, m, a, xy, txt, rep, props) ==
    [l |-> l, t |-> t, anchor |-> an, refl |-> f, mag |-> m, ang |-> a, xy |-> xy, text |-> txt,
     rep |-> rep, props |-> props]
Ref(nm, kind, f, m, a, xy, rep, props) ==
    [sname |-> nm, kind |-> kind, refl |-> f, mag |-> m, ang |-> a, xy |-> xy, rep |-> rep,
     props |-> props]

\* ---- Norm ------------------------------------------------------------------------------
\* qd = quanta per database unit (4 unless the description says otherwise; 8 for the cases whose
\* vertices AND repetition offsets are off the grid, so that rounding the sum differs from summing
\* the roundings while no sum is a tie)
QD(al) == IF "qd" \in DOMAIN al THEN al.qd ELSE 4
RQ(q, qd) == RoundHalfAway(q, qd)
RP(p, off, qd) == <<RQ(p[1] + off[1], qd), RQ(p[2] + off[2], qd)>>
RepOffs(rep) == IF rep.type = "none" THEN << <<0, 0>> >> ELSE Offsets(rep)
GdsPropSet(props) == {<<props[i].a, props[i].s>> : i \in {j \in DOMAIN props : props[j].k = "gds"}}
EndCode(pt) == IF pt = 5 THEN 1 ELSE pt

NormPolys(e, qd) == LET offs == RepOffs(e.rep) IN
    [k \in DOMAIN offs |-> [l |-> e.l, t |-> e.t, xy |-> [i \in DOMAIN e.pts |-> RP(e.pts[i], offs[k], qd)],
                            props |-> GdsPropSet(e.props)]]
\* centre line of an element: the spine displaced by the element's offset to the left of the
\* direction of travel; exact for the generator's spines (offsets only on axis-parallel,
\* single-segment spines)
Shift(spine, off) ==
    IF off = 0 THEN spine
    ELSE LET d == VSub(spine[2], spine[1])
             n == IF d[2] = 0 THEN <<0, Sign(d[1]) * off>> ELSE <<-Sign(d[2]) * off, 0>>
         IN  [i \in DOMAIN spine |-> VAdd(spine[i], n)]
NormPathEl(e, el, off, qd) ==
    [l |-> el.l, t |-> el.t, pt |-> EndCode(el.pt), w |-> RQ(el.w, qd),
     sw |-> IF RQ(el.w, qd) = 0 THEN TRUE ELSE e.sw,
     ext |-> IF el.pt = 4 THEN <<RQ(el.ext[1], qd), RQ(el.ext[2], qd)>> ELSE <<0, 0>>,
     spine |-> Simplify([i \in DOMAIN e.spine |-> RP(Shift(e.spine, el.off)[i], off, qd)]),
     props |-> GdsPropSet(e.props)]
NormPaths(e, qd) == LET offs == RepOffs(e.rep) IN
    Cat([n \in DOMAIN e.els |-> [k \in DOMAIN offs |-> NormPathEl(e, e.els[n], offs[k], qd)]])
NormLabels(e, qd) == LET offs == RepOffs(e.rep) IN
    [k \in DOMAIN offs |-> [l |-> e.l, t |-> e.t, anchor |-> e.anchor, refl |-> e.refl,
                            mag |-> e.mag, ang |-> e.ang, xy |-> RP(e.xy, offs[k], qd),
                            text |-> e.text, props |-> GdsPropSet(e.props)]]
NormRefs(e, qd) == LET offs == RepOffs(e.rep) IN
    [k \in DOMAIN offs |-> [sname |-> e.sname, kind |-> e.kind, refl |-> e.refl, mag |-> e.mag,
                            ang |-> e.ang, xy |-> RP(e.xy, offs[k], qd), props |-> GdsPropSet(e.props)]]
NormCell(c, qd) == [name |-> c.name, polys |-> FlatMap(LAMBDA e : NormPolys(e, qd), c.polys),
                    paths |-> FlatMap(LAMBDA e : NormPaths(e, qd), c.paths),
                    refs |-> FlatMap(LAMBDA e : NormRefs(e, qd), c.refs),
                    labels |-> FlatMap(LAMBDA e : NormLabels(e, qd), c.labels)]
Norm(al) == [name |-> al.name, cells |-> Map(LAMBDA c : NormCell(c, QD(al)), al.cells)]

=============================================================================
