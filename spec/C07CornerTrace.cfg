INIT TInit
NEXT TNext
CHECK_DEADLOCK FALSE
