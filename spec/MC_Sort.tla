------------------------------ MODULE MC_Sort ------------------------------
(* Exhaustive check of the transcribed sort routines: every array of length *)
(* <= MaxN over ValsS, every comparator in Cmps.                            *)
EXTENDS Sort
CONSTANTS MaxN, ValsS, Cmps
VARIABLES s, c
Init == s = <<>> /\ c \in Cmps
Next == /\ Len(s) < MaxN /\ \E v \in ValsS : s' = Append(s, v)
        /\ UNCHANGED c
n == Len(s)
InvIntro == LET out == SortArr(Arr(s), n, c) IN
               SortedPermutation(Arr(s), out, n, c) /\ DOMAIN out = DOMAIN Arr(s)
InvHeap == LET out == HeapSort(Arr(s), 0, n, c) IN
               SortedPermutation(Arr(s), out, n, c) /\ DOMAIN out = DOMAIN Arr(s)
InvIns == LET out == InsertionSort(Arr(s), 0, n, c) IN
               SortedPermutation(Arr(s), out, n, c) /\ DOMAIN out = DOMAIN Arr(s)
InvPart == n >= 3 => PartitionProgress(Arr(s), n, c)
\* partition postcondition: nothing in the left part is greater than anything in the right
InvPartSplit == n >= 3 =>
    LET pr == Partition(Arr(s), 0, n, c) IN
    /\ IsPermutation(Arr(s), pr[1], n)
    /\ \A i \in 0..(pr[2] - 1), j \in pr[2]..(n - 1) : ~Lt(c, pr[1][j], pr[1][i])
=============================================================================
