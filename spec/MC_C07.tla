------------------------------- MODULE MC_C07 -------------------------------
(* FlexPath cases: (a) construction histories for the bookkeeping invariant,        *)
(* (b) Manhattan paths x widths (constant / tapering) x offsets x joins x end caps   *)
(* for the swept-region semantics.  Region cases are in QUADRUPLED user units.       *)
EXTENDS Paths, Json, IOUtils
CONSTANTS Depth
VARIABLES case

\* ---- (a) bookkeeping ------------------------------------------------------------
Call(sec, whas, ohas) == [sec |-> sec, whas |-> whas, ohas |-> ohas]
Seg(p, r) == [k |-> "segment", p |-> p, rel |-> r]
Secs == {Seg(<<5, 0>>, FALSE), Seg(<<2, 3>>, TRUE),
         [k |-> "horizontal", x |-> 7, rel |-> FALSE], [k |-> "vertical", y |-> -2, rel |-> TRUE],
         [k |-> "cubic", c1 |-> <<2, 0>>, c2 |-> <<4, 1>>, e |-> <<6, 3>>, rel |-> TRUE],
         [k |-> "cubic_smooth", c2 |-> <<4, 2>>, e |-> <<6, 0>>, rel |-> TRUE],
         [k |-> "quadratic", c |-> <<3, 3>>, e |-> <<6, 0>>, rel |-> TRUE],
         [k |-> "quadratic_smooth", e |-> <<3, -1>>, rel |-> TRUE],
         [k |-> "bezier", pts |-> << <<1, 0>>, <<2, 1>>, <<3, 3>>, <<4, 6>> >>, rel |-> TRUE],
         [k |-> "arc", rx |-> 4, ry |-> 4, a0 |-> 0, a1 |-> 90, rot |-> 0],
         [k |-> "arc", rx |-> 6, ry |-> 2, a0 |-> 10, a1 |-> 100, rot |-> 20],
         [k |-> "turn", r |-> 3, a |-> -90],
         [k |-> "parametric", f |-> "wave", rel |-> TRUE],
         [k |-> "interpolation", pts |-> << <<2, 2>>, <<5, 1>> >>, rel |-> TRUE],
         [k |-> "commands", s |-> "l 2 0 c 1 1 2 1 3 0 a 2 90"],
         [k |-> "segments", pts |-> << <<1, 0>>, <<1, 1>>, <<1, 1>>, <<2, 1>> >>, rel |-> TRUE]}   \* repeated point
Calls == {Call(s, w, o) : s \in Secs, w \in BOOLEAN, o \in BOOLEAN}
Book(n, calls) == [k |-> "fpbook", nel |-> n, calls |-> calls]
Books == {Book(n, <<c>>) : n \in {1, 2, 3}, c \in Calls}
         \cup {Book(2, <<c1, c2>>) : c1 \in {c \in Calls : c.whas}, c2 \in {c \in Calls : ~c.whas /\ c.ohas}}
         \* thorough: every ordered pair of calls, and triples of sections with all targets given
         \cup (IF Depth = "thorough"
               THEN {Book(2, <<c1, c2>>) : c1 \in Calls, c2 \in Calls}
                    \cup {Book(3, <<Call(s1, TRUE, TRUE), Call(s2, FALSE, TRUE), Call(s3, TRUE, FALSE)>>) : s1 \in Secs, s2 \in Secs, s3 \in Secs}
               ELSE {})

\* ---- (b) regions -----------------------------------------------------------------------
Q4(s) == [i \in DOMAIN s |-> <<4 * s[i][1], 4 * s[i][2]>>]
Spines == {Q4(<< <<0, 0>>, <<8, 0>> >>), Q4(<< <<0, 0>>, <<8, 0>>, <<8, 8>> >>),
           Q4(<< <<0, 0>>, <<6, 0>>, <<6, -6>>, <<12, -6>> >>), Q4(<< <<0, 8>>, <<8, 8>>, <<8, 2>>, <<0, 2>> >>),
           Q4(<< <<2, 9>>, <<2, 1>> >>), Q4(<< <<0, 0>>, <<4, 0>>, <<8, 0>>, <<8, 6>> >>)}
HwPats(n) == {[i \in 1..n |-> 2], [i \in 1..n |-> 4], [i \in 1..n |-> 2 * i], [i \in 1..n |-> IF i % 2 = 1 THEN 4 ELSE 2]}
Joins == {"natural", "miter", "bevel", "round"}
Ends == {"flush", "halfwidth", "extended", "round"}
El(hw, off, j, e) == [hw |-> hw, off |-> off, join |-> j, end |-> e, ext |-> <<6, -2>>]
QuickKeep(i) == Depth = "thorough" \/ i % 5 = 0
RegionsAll == {[k |-> "fpregion", spine |-> sp, win |-> <<-6, 30, -18, 22>>, els |-> <<El(hw, o1, j, e), El(hw, o2, j, e)>>]
                 : sp \in Spines, hw \in UNION {HwPats(n) : n \in 2..4},
                   o1 \in (IF Depth = "thorough" THEN {0, 8, -4} ELSE {0, 8}), o2 \in {-6},
                   j \in Joins, e \in Ends}
Regions == {r \in RegionsAll : Len(r.els[1].hw) = Len(r.spine)}

\* ---- (c) circular bends: user units, widths / offsets / radius in 1/1000 ------------------------------
BendSpines == {<< <<0, 0>>, <<10, 0>>, <<10, 8>> >>,                       \* one corner, room on both legs
               << <<0, 0>>, <<10, 0>>, <<10, 6>>, <<20, 6>> >>,          \* two corners sharing a short leg
               << <<0, 0>>, <<8, 0>>, <<14, 6>> >>,                      \* 45 degree corner
               << <<0, 0>>, <<3, 0>>, <<3, 10>> >>,                      \* first leg too short for large radii
               << <<0, 0>>, <<9, 0>>, <<9, -9>>, <<0, -9>>, <<0, -2>> >>, \* three right turns
               \* diagonal legs that mirror each other about an axis-parallel line through the corner
               \* (the sum of the two leg directions has a zero component)
               << <<0, -8>>, <<8, 0>>, <<0, 8>> >>, << <<8, -8>>, <<0, 0>>, <<8, 8>> >>,
               << <<0, 8>>, <<8, 0>>, <<0, -8>> >>, << <<-8, 8>>, <<0, 0>>, <<8, 8>> >>}
Bends == {[k |-> "fpbend", spine |-> sp, w |-> w, o |-> o, r |-> r, ends |-> e, tolk |-> 2] :
            sp \in BendSpines, w \in (IF Depth = "thorough" THEN {1000, 600, 1600} ELSE {1000, 600}),
            o \in (IF Depth = "thorough" THEN {0, 750, -750, 300, -1200} ELSE {0, 750, -750}),
            r \in (IF Depth = "thorough" THEN {4000, 2000, 3500, 2500, 5000} ELSE {4000, 2000}), e \in {"flush", "round"}}
Init == case \in Books \cup Regions \cup Bends
Next == UNCHANGED case

\* theorems on the region semantics: no sample is both surely covered and surely not covered,
\* and a point of the centre line's interior is surely covered
Samples == {<<2 * x + 1, 2 * y + 1>> : x \in -6..30, y \in -18..22}
Laws == case.k = "fpregion" =>
    \A i \in DOMAIN case.els :
       LET el == case.els[i]
           C == CentreLine(case.spine, el.off)
       IN  /\ \A q \in Samples : ~(SureInFlex(el, C, q) /\ SureOutFlex(el, C, q))
           /\ \E q \in Samples : SureInFlex(el, C, q)
           /\ \E q \in Samples : SureOutFlex(el, C, q)

AppendOpts == [format |-> "TXT", charset |-> "UTF-8",
               openOptions |-> <<"WRITE", "CREATE", "APPEND">>]
Export == Serialize(ToJson(case) \o "\n", IOEnv.GEN_OUT, AppendOpts).exitValue = 0
=============================================================================
