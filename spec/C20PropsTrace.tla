---------------------------- MODULE C20PropsTrace ----------------------------
(* Validates logs of gdstk's property-list API against Props.tla: each line is one *)
(* call; the model takes the same action and the logged list (names, typed values, *)
(* order), the call's result and the get_property / get_gds_property answers must  *)
(* equal the model's.                                                              *)
EXTENDS MC_Props

Log == ndJsonDeserialize(IOEnv.TRACE)
VARIABLES l, bad
tvars == <<vars, l, bad>>
Ev == Log[l]

\* JSON arrays arrive as sequences (tuples) of records: rebuild model values
ValOf(j) == [t |-> j.t, x |-> j.x, z |-> j.z]
ValsOf(js) == [i \in 1..Len(js) |-> ValOf(js[i])]
ListOf(js) == [i \in 1..Len(js) |-> Entry(js[i].name, ValsOf(js[i].vals))]
RVals(js) == ValsOf(js)

ObsOK(ev, pl) ==
    /\ ListOf(ev.list) = pl
    /\ \A i \in DOMAIN ev.gets : RVals(ev.gets[i].r) = GetProperty(pl, ev.gets[i].n)
    /\ \A i \in DOMAIN ev.ggets : RVals(ev.ggets[i].r) = GetGdsProperty(pl, ev.ggets[i].a)

Mark(okk, why) == IF okk \/ bad THEN bad' = bad
                  ELSE /\ PrintT("REJECT " \o ToString(l) \o " " \o ToString(why)) /\ bad' = TRUE

TInit == Init /\ l = 1 /\ bad = FALSE
TReset == Ev.e = "Reset" /\ plist' = <<>> /\ res' = "none" /\ hist' = <<>> /\ bad' = FALSE
TSet == /\ Ev.e = "set" /\ ASet(Ev.n, ValOf(Ev.v), Ev.f) /\ Mark(ObsOK(Ev, plist'), "set")
TSetGds == /\ Ev.e = "setgds" /\ ASetGds(Ev.v.x, Ev.s) /\ Mark(ObsOK(Ev, plist'), "setgds")
TRemove == /\ Ev.e = "remove" /\ ARemove(Ev.n, Ev.f)
           /\ Mark(ObsOK(Ev, plist') /\ Ev.r = res', "remove")
TRemoveGds == /\ Ev.e = "removegds" /\ ARemoveGds(Ev.v.x)
              /\ Mark(ObsOK(Ev, plist') /\ Ev.r = res', "removegds")
TCopy == Ev.e = "copy" /\ ACopy /\ Mark(ObsOK(Ev, plist'), "copy")
TClear == Ev.e = "clear" /\ AClear /\ Mark(ObsOK(Ev, plist'), "clear")
TOther == /\ Ev.e \notin {"Reset", "set", "setgds", "remove", "removegds", "copy", "clear"}
          /\ PrintT("REJECT " \o ToString(l) \o " " \o ToString(Ev.e)) /\ bad' = TRUE /\ UNCHANGED vars

TNext == /\ l <= Len(Log) /\ l' = l + 1
         /\ (TReset \/ TSet \/ TSetGds \/ TRemove \/ TRemoveGds \/ TCopy \/ TClear \/ TOther)
=============================================================================
