------------------------------ MODULE C05Trace ------------------------------
(* Validates gdstk's boolean() against the set-theoretic meaning on exact sample   *)
(* points (Region.tla).  One line = one operand pair: the four operations plus the  *)
(* merges of each operand, results as vertex lists on the 1/scaling grid.           *)
EXTENDS Region, Json, IOUtils

Log == ndJsonDeserialize(IOEnv.TRACE)
VARIABLES l
Ev == Log[l]

Scale(G, f) == [i \in DOMAIN G |-> [k \in DOMAIN G[i] |-> <<f * G[i][k][1], f * G[i][k][2]>>]]
ScalePt(q, f) == <<f * q[1], f * q[2]>>
SampleSet == Samples(-1, 12)

OpFailing(ev, op, R) ==
    LET g == ev.g
        S == g.s
        A2 == FineOfUser(g.a, S)
        B2 == FineOfUser(g.b, S)
        R2 == FineOfGrid(R)
        AB == A2 \o B2
        bad == {q \in FineSamples(-1, 12, S) :
                  FarU(AB, q) /\ (InRegion(R2, q) # OpHolds(op, InRegion(A2, q), InRegion(B2, q)))}
        over == {q \in FineSamples(-1, 12, S) :
                  FarU(AB, q) /\
                  (Cardinality(Covering(R2, q)) > 1
                   \/ \E i \in DOMAIN R2 : Winding(R2[i], q) \notin {-1, 0, 1})}
    IN  (IF bad = {} THEN {} ELSE {<<op, "region", CHOOSE q \in bad : TRUE>>})
        \cup (IF over = {} THEN {} ELSE {<<op, "overlapping_output", CHOOSE q \in over : TRUE>>})

BoolFailing(ev) ==
    LET g == ev.g
        S == g.s
        As == Scale(g.a, S)
        Bs == Scale(g.b, S)
        tol == IF AllManhattan(g.a \o g.b) THEN 0 ELSE 2 * (GroupPerimLen(As) + GroupPerimLen(Bs))
        aor == GroupArea2(ev["or"])
        aand == GroupArea2(ev["and"])
        anot == GroupArea2(ev["not"])
        axor == GroupArea2(ev["xor"])
        aA == GroupArea2(ev.ma)
        aB == GroupArea2(ev.mb)
    IN  (IF ev.lat /\ ev.err = 0 THEN {} ELSE {<<"lattice_or_error">>})
        \cup OpFailing(ev, "or", ev["or"]) \cup OpFailing(ev, "and", ev["and"])
        \cup OpFailing(ev, "not", ev["not"]) \cup OpFailing(ev, "xor", ev["xor"])
        \cup (IF Abs(aor + aand - aA - aB) <= tol THEN {} ELSE {<<"area_or_plus_and">>})
        \cup (IF Abs(anot - (aA - aand)) <= tol THEN {} ELSE {<<"area_not">>})
        \cup (IF Abs(axor - (aor - aand)) <= tol THEN {} ELSE {<<"area_xor">>})
        \* [M] the same identities on a grid of 1e-9 (scaled coordinates far beyond 32 bits, rounding
        \* negligible): areas in 1/1000 square unit, held to 2/1000
        \cup (IF ev.big_err = 0 THEN {} ELSE {<<"big_scale_error_code">>})
        \cup (IF Abs(ev.big[1] + ev.big[2] - ev.big[5] - ev.big[6]) <= 2 THEN {} ELSE {<<"big_scale_area_or_plus_and">>})
        \cup (IF Abs(ev.big[4] - (ev.big[5] - ev.big[2])) <= 2 THEN {} ELSE {<<"big_scale_area_not">>})
        \cup (IF Abs(ev.big[3] - (ev.big[1] - ev.big[2])) <= 2 THEN {} ELSE {<<"big_scale_area_xor">>})
        \* the operands squeezed into |x| < 2^30 and moved to y < -2^30 on a grid of 2^-34 (big2, areas times 256): same areas
        \* the operands moved by (-6, -6) on a grid of 2^-29 (scaled coordinates between 2^30 and 2^32 in magnitude): same areas
        \cup (IF "big3" \notin DOMAIN ev THEN {}
              ELSE (IF ev.big3_err = 0 THEN {} ELSE {<<"big_scale_mid_range_error_code">>})
                   \cup {<<"big_scale_mid_range_area_differs", k>> : k \in {i \in 1..4 : Abs(ev.big3[i] - ev.big[i]) > 2}})
        \cup (IF "big2" \notin DOMAIN ev THEN {}
              ELSE (IF ev.big2_err = 0 THEN {} ELSE {<<"big_scale_negative_y_error_code">>})
                   \cup {<<"big_scale_negative_y_area_differs", k>> : k \in {i \in 1..4 : Abs(ev.big2[i] - ev.big[i]) > 40}})
        \* the identities alone hold for consistently wrong results too (an operand that vanishes on the
        \* fine grid): each fine-grid area is also the area of the same result on the coarse grid, up to
        \* the coarse grid's rounding of non-Manhattan crossings (32-bit integers: scalings 1 and 8)
        \cup (IF S > 8 THEN {}
              ELSE LET coarse == <<aor, aand, axor, anot, aA, aB>>
                       names == <<"or", "and", "xor", "not", "merge_a", "merge_b">> IN
                   {<<"big_scale_area_differs_from_coarse_grid", names[k]>> :
                      k \in {i \in 1..6 : Abs(ev.big[i] * 2 * S * S - 1000 * coarse[i]) > 1000 * tol + 4 * S * S}})

Check(ev) == IF ev.e = "bool" THEN BoolFailing(ev) ELSE {<<ev.e>>}
TInit == l = 1
TNext == /\ l <= Len(Log) /\ l' = l + 1
         /\ LET f == Check(Ev) IN IF f = {} THEN TRUE
                                  ELSE PrintT("REJECT " \o ToString(l) \o " " \o ToString(f))
=============================================================================
