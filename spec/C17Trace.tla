------------------------------ MODULE C17Trace ------------------------------
(* C17: partial and alternative GDSII readers agree with the full reader.         *)
(* One log line = one file (emitted by the specification's encoder, or written by  *)
(* gdstk from an API-built library) put through gds_info, gds_units,               *)
(* gds_timestamp (get and set), read_gds with tag filters and target units, and    *)
(* read_rawcells -> write_gds -> read_gds.  The reference is the SAME byte stream   *)
(* decoded by the strict decoder of Gdsii.tla (views Info / Filter / RawView /      *)
(* Restamp below), and the full load itself is checked against it as well.          *)
EXTENDS GdsProj, GdsConsts, Json, IOUtils

Log == ndJsonDeserialize(IOEnv.TRACE)
VARIABLES l
Ev == Log[l]

\* ---- views of a decoded stream -----------------------------------------------------
Elems(L) == Cat([i \in DOMAIN L.cells |-> L.cells[i].elems])
CountKind(L, ks) == Len(SelectSeq(Elems(L), LAMBDA e : e.kind \in ks))
ShapeTagsOf(L) == {<<e.layer, e.dtype>> : e \in {Elems(L)[i] : i \in {j \in DOMAIN Elems(L) :
                       Elems(L)[j].kind \in {"boundary", "box", "path"}}}}
LabelTagsOf(L) == {<<e.layer, e.dtype>> : e \in {Elems(L)[i] : i \in {j \in DOMAIN Elems(L) :
                       Elems(L)[j].kind = "text"}}}
\* tag filter: shapes (polygons, paths) with other tags are discarded; labels and references stay
FilterM(m, tags) ==
    [m EXCEPT !.cells = [i \in DOMAIN m.cells |->
        [m.cells[i] EXCEPT !.polys = SelectSeq(@, LAMBDA e : <<e.l, e.t>> \in tags),
                           !.paths = SelectSeq(@, LAMBDA e : <<e.l, e.t>> \in tags)]]]
\* the cells named in S copied into a new library: references to cells left behind dangle
RawViewM(m, S, newname) ==
    [name |-> newname,
     cells |-> LET keep == SelectSeq(m.cells, LAMBDA c : c.name \in S) IN
               [i \in DOMAIN keep |->
                  [keep[i] EXCEPT !.refs = [k \in DOMAIN keep[i].refs |->
                      [keep[i].refs[k] EXCEPT !.kind = IF keep[i].refs[k].sname \in S
                                                       THEN "cell" ELSE "name"]]]]]
\* direct dependencies of a cell, by name, restricted to cells present in the file
DepsOf(L, nm) ==
    LET c == CHOOSE c \in {L.cells[i] : i \in DOMAIN L.cells} : c.name = nm
        names == {L.cells[i].name : i \in DOMAIN L.cells}
    IN  {c.elems[k].sname : k \in {q \in DOMAIN c.elems : c.elems[q].kind \in {"sref", "aref"}}}
        \cap names
\* rewriting timestamps: the 12 words of BGNLIB and of every BGNSTR, nothing else
Restamp(b, t6) ==
    LET recs == Frame(b, 1, <<>>).recs
        tb == Cat([i \in 1..12 |-> I16(t6[((i - 1) % 6) + 1])])
        InStamp(q) == \E i \in DOMAIN recs : recs[i].t \in {BGNLIB, BGNSTR}
                                             /\ q >= recs[i].p /\ q < recs[i].p + 24
        StampByte(q) == LET r == CHOOSE i \in DOMAIN recs : recs[i].t \in {BGNLIB, BGNSTR}
                                     /\ q >= recs[i].p /\ q < recs[i].p + 24
                        IN  tb[q - recs[r].p + 1]
    IN  [q \in DOMAIN b |-> IF InStamp(q) THEN StampByte(q) ELSE b[q]]

TagSetJ(js) == {<<js[i][1], js[i][2]>> : i \in DOMAIN js}
NoDup(s) == Cardinality(SeqSet(s)) = Len(s)
UnitsOK(pu, pp, u, ulps) == /\ DblWithinUlps(BytesToBits(u.prec), BytesToBits(pp), ulps)
                            /\ DblWithinUlps(BytesToBits(u.unit), BytesToBits(pu), ulps + 2)
Tagged(t, S) == {<<t, ToString(x)>> : x \in S}
RAWNAME == <<82, 65, 87, 76, 73, 66>>

PartialFailing(ev) ==
    LET d == Decode(ev.bytes) IN
    IF ~d.ok THEN {<<"file", "strict_decoder_rejects_file">>}
    ELSE
    LET L == d.lib
        M == Meaning(L)
        u == UnitsPalette[ev.u]
        names == {L.cells[i].name : i \in DOMAIN L.cells}
    IN
    Tagged("full", LibFailing(ev.full, M))
    \* the default tolerance of every load is one database unit OF THE LOADED LIBRARY (also when a
    \* target unit rescales it): logged in 1/1000 database unit
    \cup (IF \A p \in {ev.full} \cup {ev.targets[k].proj : k \in DOMAIN ev.targets} \cup {ev.filters[k].proj : k \in DOMAIN ev.filters} :
              \A i \in DOMAIN p.cells : \A q \in DOMAIN p.cells[i].paths : p.cells[i].paths[q].tolp = 1000
          THEN {} ELSE {<<"summary", "default_tolerance_is_one_database_unit">>})
    \cup (IF ev.fd = 0 THEN {} ELSE {<<"file", "file_handle_leak">>})
    \* gds_info
    \cup Tagged("summary", Failing(<< <<"info_error", ev.info.err = 0>>,
                    <<"info_cell_names", ev.info.cells = [i \in DOMAIN L.cells |-> L.cells[i].name]>>,
                    <<"info_num_polygons", ev.info.npoly = CountKind(L, {"boundary", "box"})>>,
                    <<"info_num_paths", ev.info.npath = CountKind(L, {"path"})>>,
                    <<"info_num_references", ev.info.nref = CountKind(L, {"sref", "aref"})>>,
                    <<"info_num_labels", ev.info.nlabel = CountKind(L, {"text"})>>,
                    <<"info_shape_tags", TagSetJ(ev.info.stags) = ShapeTagsOf(L) /\ NoDup(ev.info.stags)>>,
                    <<"info_label_tags", TagSetJ(ev.info.ltags) = LabelTagsOf(L) /\ NoDup(ev.info.ltags)>>,
                    <<"info_units", UnitsOK(ev.info.unit, ev.info.precision, u, 2)
                                    /\ ev.info.unit = ev.full.unit /\ ev.info.precision = ev.full.precision>>,
                    <<"gds_units", ev.units.err = 0 /\ ev.units.unit = ev.full.unit
                                   /\ ev.units.precision = ev.full.precision>>,
                    <<"gds_timestamp", ev.ts.err = 0 /\ ev.ts.t = SubSeq(L.time, 1, 6)>> >>))
    \* tag filters
    \cup UNION {Tagged("filter " \o ToString(ev.filters[k].tags),
                       LibFailing(ev.filters[k].proj, FilterM(M, TagSetJ(ev.filters[k].tags))))
                : k \in DOMAIN ev.filters}
    \* target units: same database-grid content, requested unit, same precision
    \cup UNION {Tagged("target_unit " \o ToString(ev.targets[k].tgt),
                       LibFailing(ev.targets[k].proj, M)
                       \cup (IF /\ ev.targets[k].proj.unit = TargetUnits[ev.targets[k].tgt]
                                /\ ev.targets[k].proj.precision = ev.full.precision
                             THEN {} ELSE {"unit_precision"}))
                : k \in DOMAIN ev.targets}
    \* raw cells copied into a new file
    \cup UNION {LET r == ev.raws[k]
                    S == SeqSet(r.cells)
                IN  Tagged("rawcells " \o ToString(r.cells),
                           LibFailing(r.proj, RawViewM(M, S, RAWNAME))
                           \cup (IF r.nraw = Len(L.cells) THEN {} ELSE {"rawcell_count"})
                           \cup (IF \A i \in DOMAIN r.cells :
                                       SeqSet(r.deps[i]) = DepsOf(L, r.cells[i]) /\ NoDup(r.deps[i])
                                 THEN {} ELSE {"rawcell_dependencies"})
                           \* the copy's BGNLIB already carries the stamp asked for, its raw cells do not:
                           \* every BGNSTR is rewritten all the same
                           \cup (IF "restamped" \in DOMAIN r /\ ~(r.rs_err = 0 /\ r.restamped = Restamp(r.file, r.rs_new))
                                 THEN {"restamp_of_rawcell_copy"} ELSE {})
                           \cup (IF r.werr = 0 /\ r.proj.unit = ev.full.unit
                                    /\ r.proj.precision = ev.full.precision
                                 THEN {} ELSE {"rawcell_units_or_error"}))
                : k \in DOMAIN ev.raws}
    \* rewriting timestamps
    \cup Tagged("restamp", Failing(<< <<"restamp_returns_old", ev.restamp.err = 0 /\ ev.restamp.old = SubSeq(L.time, 1, 6)>>,
                    <<"restamp_bytes", ev.restamp.bytes = Restamp(ev.bytes, ev.restamp.new)>> >>))

\* a file whose first cell holds one long record (a polygon of n vertices, up to the 8189 + closing point one XY record
\* can hold) followed by a triangle, and a second cell with a label: every summary reader gets past
\* the long record, and the summary counts are those of the full reader and of the description
BigInfoFailing(ev) ==
    Failing(<< <<"write_error", ev.werr = 0>>,
               <<"full_reader", ev.full.err = 0 /\ ev.full.ncell = 2 /\ ev.full.npoly = 2 /\ ev.full.nlabel = 1
                                /\ ev.full.maxv = ev.n>>,
               <<"info_error", ev.info.err = 0>>,
               <<"info_counts", ev.info.ncell = 2 /\ ev.info.npoly = 2 /\ ev.info.nlabel = 1>>,
               <<"info_tags", TagSetJ(ev.info.stags) = {<<5, 1>>, <<9, 2>>} /\ TagSetJ(ev.info.ltags) = {<<11, 3>>}>>,
               <<"units_timestamp", ev.units_err = 0 /\ ev.ts_err = 0 /\ ev.ts_year = 2000>>,
               <<"rawcells", ev.raw_err = 0 /\ ev.nraw = 2>>,
               <<"files_closed", ev.fd = 0>> >>)

Check(ev) == IF ev.e = "partial" THEN PartialFailing(ev)
             ELSE IF ev.e = "biginfo" THEN BigInfoFailing(ev) ELSE {<<"event", ev.e>>}
TInit == l = 1
TNext == /\ l <= Len(Log) /\ l' = l + 1
         /\ LET f == Check(Ev) IN IF f = {} THEN TRUE
                                  ELSE PrintT("REJECT " \o ToString(l) \o " " \o ToString(f))
=============================================================================
