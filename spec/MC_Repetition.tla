---------------------------- MODULE MC_Repetition ----------------------------
(* Enumerates repetition values and transforms: each TLC state is one case; the   *)
(* invariants are Repetition.tla's theorems; every case is exported for replay.   *)
EXTENDS Repetition, Json, IOUtils
CONSTANTS MaxCount     \* largest column / row count and explicit list length

VARIABLES case
Pts == {<<10, 0>>, <<-10, 20>>, <<0, 0>>}
Crd == {10, -20, 0}
SeqsUpTo(S, n) == UNION {[1..k -> S] : k \in 0..n}

Reps ==
    {Rect(c, r, sp) : c \in 0..MaxCount, r \in 0..MaxCount, sp \in {<<10, 20>>, <<-20, 10>>, <<0, 10>>}}
    \cup {Regular(c, r, v[1], v[2]) : c \in 0..MaxCount, r \in 0..MaxCount,
            v \in {<< <<10, 10>>, <<-10, 20>> >>, << <<20, 0>>, <<10, 10>> >>,
                   << <<-10, 20>>, <<-10, 20>> >>, << <<-20, -10>>, <<10, -20>> >>}}
    \cup {Explicit(o) : o \in SeqsUpTo(Pts, MaxCount)}
    \cup {ExplicitX(c) : c \in SeqsUpTo(Crd, MaxCount)}
    \cup {ExplicitY(c) : c \in SeqsUpTo(Crd, MaxCount)}
Mags == {Mag(1, 1), Mag(2, 1), Mag(1, 2)}
Rots == {Rot0, Rot90, Rot180, Rot270, Rot345, Rot345n}
Trans == {[mag |-> m, refl |-> f, rot |-> r] : m \in Mags, f \in BOOLEAN, r \in Rots}

\* transforms applied through an element's own API (Polygon::scale with two factors, mirror about a
\* line, rotate about a centre, transform): the element's repetition follows the linear part
Scales2 == {[o |-> "scale", sx |-> a[1], sy |-> a[2]] : a \in {<<2, 1>>, <<1, 2>>, <<-1, 3>>, <<2, 2>>}}
Scales1 == {[o |-> "scale", sx |-> a, sy |-> a] : a \in {2, 3}}
Mirrors == {[o |-> "mirror", ax |-> a] : a \in {"x", "y", "d"}}
Rotates == {[o |-> "rotate", rot |-> r] : r \in {Rot90, Rot180, Rot345}}
Transf == {[o |-> "transform", mag |-> t[1], refl |-> t[2], rot |-> t[3]] :
             t \in {<<Mag(1, 1), TRUE, Rot0>>, <<Mag(2, 1), FALSE, Rot90>>, <<Mag(1, 2), TRUE, Rot270>>,
                    <<Mag(1, 1), FALSE, Rot345>>, <<Mag(2, 1), TRUE, Rot345n>>, <<Mag(1, 1), TRUE, Rot180>>}}
ElemOps == [polygon |-> Scales2 \cup Mirrors \cup Rotates \cup Transf,
            flexpath |-> Scales1 \cup Mirrors \cup Rotates \cup Transf,
            robustpath |-> Scales1 \cup Mirrors \cup Rotates \cup Transf,
            label |-> Transf, reference |-> Transf]

Init == \/ \E r \in Reps : case = [k |-> "q", r |-> r]
        \/ \E r \in Reps, t \in Trans : case = [k |-> "t", r |-> r, t |-> t]
        \/ \E r \in Reps, kd \in {"polygon", "flexpath", "robustpath", "label", "reference"} :
              case = [k |-> "a", r |-> r, kind |-> kd]
        \/ \E r \in Reps, kd \in DOMAIN ElemOps : \E op \in ElemOps[kd] :
              case = [k |-> "e", r |-> r, kind |-> kd, op |-> op]
Next == UNCHANGED case

Laws == /\ CountLaw(case.r) /\ ZeroFirst(case.r) /\ ExtremaLaw(case.r)
        /\ case.k = "t" => TransformLaw(case.r, case.t.mag, case.t.refl, case.t.rot)
        /\ (case.k = "e" /\ case.op.o = "scale") => ScaleLaw(case.r, case.op.sx, case.op.sy)
        \* transforms compose: transforming twice = transforming by the composition
        /\ case.k = "t" =>
             LET t == case.t
                 r2 == Transform(Transform(case.r, t.mag, t.refl, t.rot), t.mag, t.refl, t.rot)
                 m == Linear(t.mag, t.refl, t.rot)
             IN  (t.mag.d = 1 /\ t.rot.d = 1) =>
                   BagEq(Offsets(r2), [i \in DOMAIN Offsets(case.r) |->
                                          ApplyLin(m, ApplyLin(m, Offsets(case.r)[i]))])

AppendOpts == [format |-> "TXT", charset |-> "UTF-8",
               openOptions |-> <<"WRITE", "CREATE", "APPEND">>]
Export == Serialize(ToJson(case) \o "\n", IOEnv.GEN_OUT, AppendOpts).exitValue = 0
=============================================================================
