------------------------------ MODULE C03Trace ------------------------------
(* C03, forward direction: every stream emitted by the specification's encoder   *)
(* (MC_Gdsii cases) must load, through gdstk's read_gds, to exactly the layout    *)
(* it encodes.  One log line = one read_gds call; Gen is the case file.           *)
EXTENDS GdsProj, GdsConsts, Json, IOUtils

Log == ndJsonDeserialize(IOEnv.TRACE)
Gen == ndJsonDeserialize(IOEnv.GEN)
VARIABLES l
Ev == Log[l]

\* error codes: 0 none; warnings 4 MissingReference, 5 UnsupportedRecord
Snames(L) == UNION {{L.cells[i].elems[k].sname : k \in {q \in DOMAIN L.cells[i].elems :
                        L.cells[i].elems[q].kind \in {"sref", "aref"}}} : i \in DOMAIN L.cells}
CellNames(L) == {L.cells[i].name : i \in DOMAIN L.cells}
AllowedErr(g) == {0} \cup (IF Snames(g.lay) \subseteq CellNames(g.lay) THEN {} ELSE {4})
                 \cup (IF g.ch.elflags \/ g.ch.plex \/ Len(g.ch.hdr) > 0 THEN {5} ELSE {})

ReadFailing(ev) ==
    LET g == Gen[ev.i + 1]
        u == UnitsPalette[ev.u]
        p == ev.proj
    IN  LibFailing(p, Meaning(g.lay))
        \cup (IF ev.err \in AllowedErr(g) THEN {} ELSE {"error_code"})
        \cup (IF ev.fd = 0 THEN {} ELSE {"file_handle_leak"})
        \cup (IF DblWithinUlps(BytesToBits(u.prec), BytesToBits(p.precision), 2)
              THEN {} ELSE {"precision"})
        \cup (IF ev.tgt = 0
              THEN (IF DblWithinUlps(BytesToBits(u.unit), BytesToBits(p.unit), 4)
                    THEN {} ELSE {"unit"})
              ELSE (IF p.unit = TargetUnits[ev.tgt] THEN {} ELSE {"target_unit"}))

Check(ev) == IF ev.e = "read" THEN ReadFailing(ev) ELSE {ev.e}
TInit == l = 1
TNext == /\ l <= Len(Log) /\ l' = l + 1
         /\ LET f == Check(Ev) IN IF f = {} THEN TRUE ELSE PrintT("REJECT " \o ToString(l) \o " " \o ToString(f))
=============================================================================
