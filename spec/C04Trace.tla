------------------------------ MODULE C04Trace ------------------------------
(* C04: OASIS reader and writer against the format machine of Oasis.tla.            *)
(*   dec : a file emitted by the specification's generator (MC_Oasis), loaded by      *)
(*         read_oas; the strict decoder's layout must equal what gdstk loaded         *)
(*   enc : a library saved by write_oas (options logged); the strict decoder must     *)
(*         accept the bytes, the layout must be the saved library on the grid, and    *)
(*         END record, table offsets, signature and standard properties must be true  *)
EXTENDS OasProj, OasWriter, Json, IOUtils

Log == ndJsonDeserialize(IOEnv.TRACE)
VARIABLES l
Ev == Log[l]

\* grid: the START record's unit (grid steps per micron) against the loaded precision (metres)
Dbl(bytes8) == BytesToBits(bytes8)
D1em6 == Dbl(<<141, 237, 181, 160, 247, 198, 176, 62>>)
PrecisionAgrees(unit, jprec, junit) ==
    \* precision = 1e-6 / unit, allowing the two roundings of the implementation (2 ulps);
    \* checked through  precision * unit = 1e-6  for the unit values the generator uses
    /\ Dbl(junit) = D1em6
    /\ LET u1000 == RealTimes(unit, 1) IN
       CASE u1000 = 1000 -> DblWithinUlps(Dbl(<<149, 214, 38, 232, 11, 46, 17, 62>>), Dbl(jprec), 2)     \* 1e-9
         [] u1000 = 2 -> DblWithinUlps(Dbl(<<141, 237, 181, 160, 247, 198, 160, 62>>), Dbl(jprec), 2)     \* 5e-7
         [] OTHER -> FALSE

DecCheck(ev) ==
    LET d == Decode(ev.bytes) IN
    IF ~d.ok THEN {"generated_file_rejected_by_specification:" \o d.why}
    ELSE Tag("no_crash", TRUE)
         \* MissingReference (4) is raised last, when names are resolved; UnsupportedRecord (5) by X records
         \cup Tag("error_code", ev.err = (IF Dangling(d.lay) THEN 4 ELSE IF d.lay.xrecords THEN 5 ELSE 0))
         \cup Tag("file_closed", ev.fd = 0)
         \cup Tag("library_name", ev.lib.name = <<76, 73, 66>>)
         \cup Tag("precision", PrecisionAgrees(d.frame.unit, ev.lib.precision, ev.lib.unit))
         \cup LayoutFails(d.lay, ev.lib, 1)
         \* oas_validate: without a signature it answers true with ChecksumError (9)
         \cup Tag("validate", ev.valid.ok /\ (d.frame.scheme = 0 => ev.valid.err = 9)
                              /\ (d.frame.scheme # 0 => ev.valid.err = 0 /\ ev.valid.sig = d.frame.sig))

Check(ev) ==
    CASE ev.e = "dec" -> DecCheck(ev)
      [] ev.e = "enc" -> EncCheck(ev)
      [] ev.e \in {"Crash", "Hang"} -> {ev.e \o "_phase_" \o ToString(ev.phase)}
      [] OTHER -> {ev.e}

\* coverage: record kinds seen in the file of a dec event (printed once per line for the runner)
TInit == l = 1
TNext == /\ l <= Len(Log) /\ l' = l + 1
         /\ LET f == Check(Ev) IN IF f = {} THEN TRUE ELSE PrintT("REJECT " \o ToString(l) \o " " \o ToString(f))
=============================================================================
