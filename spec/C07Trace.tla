------------------------------ MODULE C07Trace ------------------------------
(* Validates FlexPath construction bookkeeping and swept regions against Paths.tla. *)
EXTENDS Paths, Json, IOUtils

Log == ndJsonDeserialize(IOEnv.TRACE)
VARIABLES l
Ev == Log[l]

BookOf(j) == [spine_n |-> j.spine_n, els |-> j.els]
BookFailing(ev) ==
    LET g == ev.g
        st(n) == IF n = 0 THEN BookOf(ev.init) ELSE BookOf(ev.steps[n])
    IN  (IF Len(ev.steps) = Len(g.calls) THEN {} ELSE {<<0, "missing_steps">>})
        \cup (IF ev.init.spine_n = 1 /\ \A i \in DOMAIN ev.init.els : ev.init.els[i].n = 1 THEN {}
              ELSE {<<0, "initial_entries">>})
        \cup {<<n, g.calls[n].sec.k, "one_width_offset_entry_per_spine_point">> :
                 n \in {m \in DOMAIN ev.steps \cap DOMAIN g.calls :
                          ~(ev.steps[m].lat /\
                            FlexBookOK(st(m - 1), st(m),
                                       [whas |-> g.calls[m].whas /\ g.calls[m].sec.k # "commands",
                                        ohas |-> g.calls[m].ohas /\ g.calls[m].sec.k # "commands",
                                        w |-> ev.steps[m].w, o |-> ev.steps[m].o]))}}
        \cup (IF ev.final.err = 0 /\ ev.final.finite /\ ev.final.npoly = g.nel
                 /\ \A i \in DOMAIN ev.final.ns : ev.final.ns[i] = ev.final.spine_n
              THEN {} ELSE {<<0, "outline_or_entries_after_removing_overlapping_points">>})

RegionFailing(ev) ==
    LET g == ev.g
        x0 == g.win[1]
        x1 == g.win[2]
        y0 == g.win[3]
        y1 == g.win[4]
        ny == y1 - y0 + 1
        SampleAt(n) == <<2 * (x0 + ((n - 1) \div ny)) + 1, 2 * (y0 + ((n - 1) % ny)) + 1>>
    IN  IF ev.err # 0 \/ ev.npoly # Len(g.els) THEN {<<0, "no_outline">>}
        ELSE UNION {LET el == g.els[i]
                        C == CentreLine(g.spine, el.off)
                        m == ev.members[i]
                        miss == {n \in DOMAIN m : m[n] = 0 /\ SureInFlex(el, C, SampleAt(n))}
                        extra == {n \in DOMAIN m : m[n] = 1 /\ SureOutFlex(el, C, SampleAt(n))}
                    IN  (IF miss = {} THEN {} ELSE {<<i, "point_within_half_width_not_covered", SampleAt(CHOOSE n \in miss : TRUE)>>})
                        \cup (IF extra = {} THEN {} ELSE {<<i, "point_beyond_reach_covered", SampleAt(CHOOSE n \in extra : TRUE)>>})
                    : i \in DOMAIN g.els}

Check(ev) == CASE ev.e = "fpbook" -> BookFailing(ev)
               [] ev.e = "fpregion" -> RegionFailing(ev)
               [] OTHER -> {<<0, ev.e>>}
TInit == l = 1
TNext == /\ l <= Len(Log) /\ l' = l + 1
         /\ LET f == Check(Ev) IN IF f = {} THEN TRUE
                                  ELSE PrintT("REJECT " \o ToString(l) \o " " \o ToString(f))
=============================================================================
