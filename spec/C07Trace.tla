------------------------------ MODULE C07Trace ------------------------------
(* Validates FlexPath construction bookkeeping and swept regions against Paths.tla. *)
EXTENDS Paths, Json, IOUtils

Log == ndJsonDeserialize(IOEnv.TRACE)
VARIABLES l
Ev == Log[l]

BookOf(j) == [spine_n |-> j.spine_n, els |-> j.els]
BookFailing(ev) ==
    LET g == ev.g
        st(n) == IF n = 0 THEN BookOf(ev.init) ELSE BookOf(ev.steps[n])
    IN  (IF Len(ev.steps) = Len(g.calls) THEN {} ELSE {<<0, "missing_steps">>})
        \cup (IF ev.init.spine_n = 1 /\ \A i \in DOMAIN ev.init.els : ev.init.els[i].n = 1 THEN {}
              ELSE {<<0, "initial_entries">>})
        \cup {<<n, g.calls[n].sec.k, "one_width_offset_entry_per_spine_point">> :
                 n \in {m \in DOMAIN ev.steps \cap DOMAIN g.calls :
                          ~(ev.steps[m].lat /\
                            FlexBookOK(st(m - 1), st(m),
                                       [whas |-> g.calls[m].whas /\ g.calls[m].sec.k # "commands",
                                        ohas |-> g.calls[m].ohas /\ g.calls[m].sec.k # "commands",
                                        w |-> ev.steps[m].w, o |-> ev.steps[m].o]))}}
        \cup (IF ev.final.err = 0 /\ ev.final.finite /\ ev.final.npoly = g.nel
                 /\ \A i \in DOMAIN ev.final.ns : ev.final.ns[i] = ev.final.spine_n
              THEN {} ELSE {<<0, "outline_or_entries_after_removing_overlapping_points">>})

RegionFailing(ev) ==
    LET g == ev.g
        x0 == g.win[1]
        x1 == g.win[2]
        y0 == g.win[3]
        y1 == g.win[4]
        ny == y1 - y0 + 1
        SampleAt(n) == <<2 * (x0 + ((n - 1) \div ny)) + 1, 2 * (y0 + ((n - 1) % ny)) + 1>>
    IN  IF ev.err # 0 \/ ev.npoly # Len(g.els) THEN {<<0, "no_outline">>}
        ELSE UNION {LET el == g.els[i]
                        C == CentreLine(g.spine, el.off)
                        m == ev.members[i]
                        miss == {n \in DOMAIN m : m[n] = 0 /\ SureInFlex(el, C, SampleAt(n))}
                        extra == {n \in DOMAIN m : m[n] = 1 /\ SureOutFlex(el, C, SampleAt(n))}
                    IN  (IF miss = {} THEN {} ELSE {<<i, "point_within_half_width_not_covered", SampleAt(CHOOSE n \in miss : TRUE)>>})
                        \cup (IF extra = {} THEN {} ELSE {<<i, "point_beyond_reach_covered", SampleAt(CHOOSE n \in extra : TRUE)>>})
                    : i \in DOMAIN g.els}

\* circular bends ([M], as C08's clearance clause): the outline must be the swept region of the centre
\* curve in which an ADMISSIBLE set of corners is replaced by arcs of the requested radius: the two
\* tangent lengths taken from a leg fit into it (arcs never overlap), and no further corner could
\* be bent as well ("when they fit").  The harness measured every sample against every choice.
KClear == 3000
Slack == 5                 \* milli units: tangent lengths and legs are rounded
\* reff[i]: radius of the element's own arc at corner i (requested radius minus the offset towards the
\* centre of the turn); an arc needs it to exceed the half width (the inner side cannot have a radius <= 0)
Admissible(c, legs, tans, reff, hw) ==
    LET n == Len(tans)
        T(ch, i) == IF i >= 1 /\ i <= n /\ ch[i] = 1 THEN tans[i] ELSE 0
        Fits(ch) == /\ \A j \in DOMAIN legs : T(ch, j - 1) + T(ch, j) <= legs[j] - Slack
                    /\ \A i \in 1..n : ch[i] = 1 => reff[i] >= hw + Slack
        Overfull(ch) == \/ \E j \in DOMAIN legs : T(ch, j - 1) + T(ch, j) >= legs[j] + Slack
                        \/ \E i \in 1..n : ch[i] = 1 /\ reff[i] <= hw + Slack IN
    /\ Fits(c)
    /\ \A i \in 1..n : c[i] = 0 => Overfull([c EXCEPT ![i] = 1])
ChoiceOK(ch) ==
    LET miss == {k \in DOMAIN ch.samples : ch.samples[k][3] = 1 /\ ch.samples[k][2] < -KClear /\ ch.samples[k][1] = 0}
        extra == {k \in DOMAIN ch.samples : ch.samples[k][2] > KClear /\ ch.samples[k][1] = 1} IN
    miss = {} /\ extra = {} /\ Len(ch.samples) > 20
BendFailing(ev) ==
    IF ev.err # 0 \/ ev.npoly # 1 THEN {<<0, "no_outline">>}
    ELSE LET reff == [i \in DOMAIN ev.dirs |-> ev.g.r - ev.dirs[i] * ev.g.o]
             adm == {k \in DOMAIN ev.choices : Admissible(ev.choices[k].c, ev.legs, ev.tans, reff, ev.g.w \div 2)} IN
         (IF adm # {} THEN {} ELSE {<<0, "case_too_close_to_a_fitting_boundary">>})
         \cup (IF \E k \in adm : ChoiceOK(ev.choices[k]) THEN {}
               ELSE {<<0, "outline_is_not_the_swept_region_of_any_admissible_set_of_bends">>})
         \* the centre line that PATH records are written from (element_center of the same path flagged
         \* simple) follows the centre curve of an admissible set of bends, to within the tolerance budget
         \cup (IF "cdev" \notin DOMAIN ev.choices[1] THEN {}
               ELSE IF ev.cerr = 0 /\ ev.cfinite /\ \E k \in adm : ev.choices[k].cdev <= KClear THEN {}
               ELSE {<<0, "centre_line_is_not_the_centre_curve_of_any_admissible_set_of_bends">>})

Check(ev) == CASE ev.e = "fpbook" -> BookFailing(ev)
               [] ev.e = "fpbend" -> BendFailing(ev)
               [] ev.e = "fpregion" -> RegionFailing(ev)
               [] OTHER -> {<<0, ev.e>>}
TInit == l = 1
TNext == /\ l <= Len(Log) /\ l' = l + 1
         /\ LET f == Check(Ev) IN IF f = {} THEN TRUE
                                  ELSE PrintT("REJECT " \o ToString(l) \o " " \o ToString(f))
=============================================================================
