------------------------------ MODULE C11Trace ------------------------------
(* Validates what gdstk's Repetition API and apply_repetition returned for each   *)
(* TLC-enumerated case against Repetition.tla.  Stateless fold: one line = one    *)
(* case; a line the specification does not accept prints a REJECT.                *)
EXTENDS Repetition, Json, IOUtils

Log == ndJsonDeserialize(IOEnv.TRACE)
VARIABLES l
Ev == Log[l]

ExtOK(S, e) == SeqSet(e) \subseteq S /\ BBox(SeqSet(e)) = BBox(S)

QClauses(ev) ==
    LET r == ev.g.r
        offs == Offsets(r)
    IN << <<"lattice", ev.lat>>,
          <<"count", ev.count = Count(r)>>,
          <<"offsets", BagEq(ev.offsets, offs)>>,
          <<"zero_first", Len(ev.offsets) > 0 => ev.offsets[1] = <<0, 0>> >>,
          <<"extrema", ExtOK(SeqSet(offs), ev.extrema)>>,
          <<"copy", BagEq(ev.copy_offsets, offs)>>,
          \* both queries APPEND to the caller's array (repetition.hpp): what was there stays, the same
          \* answer follows it
          <<"append_keeps_earlier_content", ev.append_keeps>>,
          <<"appended_offsets", ev.appended_offsets = ev.offsets>>,
          <<"appended_extrema", ev.appended_extrema = ev.extrema>> >>

TClauses(ev) ==
    LET r == ev.g.r
        t == ev.g.t
        m == Linear(t.mag, t.refl, t.rot)
        want == [i \in DOMAIN Offsets(r) |-> ApplyLin(m, Offsets(r)[i])]
    IN << <<"lattice", ev.lat>>,
          <<"count", ev.count = Len(want)>>,
          <<"offsets", BagEq(ev.offsets, want)>>,
          <<"extrema", ExtOK(SeqSet(want), ev.extrema)>> >>

OpLin(op) ==
    LET M(a, b, c, d) == [xx |-> a, xy |-> b, yx |-> c, yy |-> d, den |-> 1, tx |-> 0, ty |-> 0]
    IN CASE op.o = "scale" -> M(op.sx, 0, 0, op.sy)
         [] op.o = "mirror" -> (CASE op.ax = "x" -> M(1, 0, 0, -1) [] op.ax = "y" -> M(-1, 0, 0, 1)
                                  [] OTHER -> M(0, 1, 1, 0))
         [] op.o = "rotate" -> Linear(Mag(1, 1), FALSE, op.rot)
         [] OTHER -> Linear(op.mag, op.refl, op.rot)

EClauses(ev) ==
    LET r == ev.g.r
        m == OpLin(ev.g.op)
        want == [i \in DOMAIN Offsets(r) |-> ApplyLin(m, Offsets(r)[i])]
    IN << <<"lattice", ev.lat>>,
          <<"count", ev.count = Len(want)>>,
          <<"offsets", BagEq(ev.offsets, want)>>,
          <<"extrema", ExtOK(SeqSet(want), ev.extrema)>> >>

AClauses(ev) ==
    LET r == ev.g.r
        offs == Offsets(r)
        want == IF Len(offs) = 0 THEN <<>> ELSE Tail(offs)
    IN << <<"lattice", ev.lat>>,
          <<"original_keeps_no_repetition", ev.rep_after = "none">>,
          <<"original_unchanged", ev.orig_same>>,
          <<"copies", BagEq(ev.copies, want)>>,
          <<"copies_identical", \A i \in DOMAIN ev.same : ev.same[i]>> >>

Failing(cl) == {cl[i][1] : i \in {j \in DOMAIN cl : ~cl[j][2]}}
Check(ev) == CASE ev.e = "q" -> Failing(QClauses(ev))
               [] ev.e = "t" -> Failing(TClauses(ev))
               [] ev.e = "a" -> Failing(AClauses(ev))
               [] ev.e = "e" -> Failing(EClauses(ev))
               [] OTHER -> {ev.e}

TInit == l = 1
TNext == /\ l <= Len(Log) /\ l' = l + 1
         /\ LET f == Check(Ev) IN IF f = {} THEN TRUE ELSE PrintT("REJECT " \o ToString(l) \o " " \o ToString(f))
=============================================================================
