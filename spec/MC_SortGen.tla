----------------------------- MODULE MC_SortGen -----------------------------
(* Case generator for the sort binding: each TLC state is one case, exported once. *)
EXTENDS Naturals, Sequences, TLC, Json, IOUtils
CONSTANTS MaxN, ValsS, Cmps, Algos, LongNs, Pats, LongAlgos, ValCounts
VARIABLES case

AppendOpts == [format |-> "TXT", charset |-> "UTF-8",
               openOptions |-> <<"WRITE", "CREATE", "APPEND">>]

Small(s, c, a) == [arr |-> s, cmp |-> c, algo |-> a]
Long(n, p, v, c, a) == [n |-> n, pat |-> p, vals |-> v, cmp |-> c, algo |-> a]

Init == \/ \E c \in Cmps, a \in Algos : case = Small(<<>>, c, a)
        \/ \E n \in LongNs, p \in Pats, v \in ValCounts, c \in Cmps, a \in LongAlgos :
              case = Long(n, p, v, c, a)
Next == /\ "arr" \in DOMAIN case /\ Len(case.arr) < MaxN
        /\ \E x \in ValsS : case' = [case EXCEPT !.arr = Append(@, x)]
Export == Serialize(ToJson(case) \o "\n", IOEnv.GEN_OUT, AppendOpts).exitValue = 0
=============================================================================
