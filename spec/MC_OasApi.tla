------------------------------ MODULE MC_OasApi ------------------------------
(***************************************************************************)
(* Case enumeration for the writer half of C04 and for C02: library         *)
(* descriptions ("AL", built by the harness through gdstk's C++ API) times   *)
(* writer options (8 flag bits, deflate level, circle tolerance).            *)
(* Coordinates are QUANTA = quarter grid units and never on a rounding tie   *)
(* (q % 4 # 2).  The shapes come from the format's own figures              *)
(* (Oasis!CTrapVertices / TrapVertices) in every vertex order, so that the    *)
(* writer's shape detection is driven through all 26 compact types.          *)
(***************************************************************************)
EXTENDS Oasis, Json, IOUtils
CONSTANTS Depth, Seed
VARIABLES case

NoRep == [type |-> "none"]
RectR(c, r, sp) == [type |-> "rect", cols |-> c, rows |-> r, sp |-> sp]
Regular(c, r, v1, v2) == [type |-> "regular", cols |-> c, rows |-> r, v1 |-> v1, v2 |-> v2]
Explicit(o) == [type |-> "explicit", offs |-> o]
ExplicitX(c) == [type |-> "explicitx", coords |-> c]
ExplicitY(c) == [type |-> "explicity", coords |-> c]
PolyE(l, t, pts, rep, props) == [l |-> l, t |-> t, pts |-> pts, rep |-> rep, props |-> props]
El(l, t, w, off, pt, ext) == [l |-> l, t |-> t, w |-> w, off |-> off, pt |-> pt, ext |-> ext]
RPathE(els, spine, rep, props) == [robust |-> TRUE, simple |-> TRUE, sw |-> TRUE, els |-> els, spine |-> spine,
                                   rep |-> rep, props |-> props]
PathE(els, spine, rep, props) == [robust |-> FALSE, simple |-> TRUE, sw |-> TRUE, els |-> els, spine |-> spine,
                                  rep |-> rep, props |-> props]
LabelE(l, t, an, f, m, a, xy, txt, rep, props) ==
    [l |-> l, t |-> t, anchor |-> an, refl |-> f, mag |-> m, ang |-> a, xy |-> xy, text |-> txt, rep |-> rep, props |-> props]
RefE(nm, kind, f, m, a, xy, rep, props) ==
    [sname |-> nm, kind |-> kind, refl |-> f, mag |-> m, ang |-> a, xy |-> xy, rep |-> rep, props |-> props]

S_TOP == <<84, 79, 80>>
S_SUB == <<83, 85, 66>>
S_LEAF == <<76, 69, 65, 70, 95, 49>>
S_NOPE == <<78, 79, 80, 69>>
S_OUT == <<79, 85, 84>>
S_LIB == <<76, 73, 66, 49>>

\* properties: generic (name codes, typed values; reals are x / 8) and GDSII style
GenP(n, v) == [k |-> "gen", n |-> n, v |-> v]
GdsP(a, s) == [k |-> "gds", a |-> a, s |-> s]
PR0 == <<>>
PR1 == <<GenP(<<112, 49>>, <<[t |-> "u", x |-> 5]>>)>>
PR2 == <<GenP(<<112, 50>>, <<[t |-> "i", x |-> -7], [t |-> "r", x |-> 20], [t |-> "r", x |-> -3],
                            [t |-> "s", x |-> <<116, 101, 120, 116>>], [t |-> "s", x |-> <<0, 255, 32>>],
                            [t |-> "u", x |-> 2147483647]>>),
         GdsP(3, <<97, 98>>),
         GenP(<<112, 49>>, <<[t |-> "s", x |-> <<97, 32, 98>>], [t |-> "r", x |-> 1], [t |-> "r", x |-> 24]>>)>>
\* no values; repeated name; strings that are prefixes of later ones (the empty string first)
PR3 == <<GenP(<<113>>, <<>>),
         GenP(<<113>>, <<[t |-> "s", x |-> <<>>], [t |-> "s", x |-> <<116, 101>>], [t |-> "s", x |-> <<116, 101, 120, 116>>],
                         [t |-> "s", x |-> <<116>>], [t |-> "s", x |-> <<116, 101, 120, 116>>]>>)>>
\* value counts around the PROPERTY info byte's 4-bit field: 14 (the largest inline count), 15 and 16
\* (count written after the info byte)
NVals(n) == [i \in 1..n |-> [t |-> "u", x |-> 100 + i]]
PR4 == <<GenP(<<118, 49>>, NVals(14)), GenP(<<118, 50>>, NVals(15)), GenP(<<118, 51>>, NVals(16)), GenP(<<118, 52>>, NVals(1))>>
PropsV(k) == CASE k % 4 = 0 -> PR0 [] k % 4 = 1 -> PR1 [] k % 4 = 2 -> PR2 [] OTHER -> PR3

\* repetitions on whole grid units (4 quanta), so that the rounding of a sum is the sum of roundings
Reps == << NoRep, RectR(2, 3, <<400, 800>>), RectR(3, 1, <<-400, 0>>), RectR(1, 4, <<0, -120>>), RectR(2, 2, <<-40, 80>>),
           Regular(2, 3, <<400, 400>>, <<-400, 800>>), Regular(3, 1, <<40, -80>>, <<0, 0>>), Regular(1, 3, <<0, 0>>, <<44, 48>>),
           Explicit(<< <<400, 0>>, <<-400, 800>>, <<-400, -4>> >>), Explicit(<< <<4, 4>> >>),
           ExplicitX(<<400, 1200, 80>>), ExplicitY(<<800, 804>>), ExplicitX(<<400, -800>>), ExplicitY(<<-40>>) >>
RepV(k) == Reps[(k % Len(Reps)) + 1]

\* ---- shapes -----------------------------------------------------------------------------------
Q4(ps, x, y, jit) == [i \in DOMAIN ps |-> <<4 * (ps[i][1] + x) + (IF i % 2 = 0 THEN jit ELSE -jit), 4 * (ps[i][2] + y) + jit>>]
Rot(ps, k) == [i \in DOMAIN ps |-> ps[((i + k - 1) % Len(ps)) + 1]]
Rev(ps) == [i \in DOMAIN ps |-> ps[Len(ps) + 1 - i]]
Order(ps, k) == IF k >= Len(ps) THEN Rot(Rev(ps), k - Len(ps)) ELSE Rot(ps, k)       \* 2n vertex orders
CTrapQ(t, w, h, x, y, ord, jit) == Q4(Order(CTrapVertices(t, w, h), ord), x, y, jit)
TrapQ(vert, w, h, da, db, x, y, ord, jit) == Q4(Order(TrapVertices(vert, w, h, da, db), ord), x, y, jit)
TriQ == << <<0, 0>>, <<401, 0>>, <<3, 283>> >>
PentQ == << <<0, 0>>, <<160, 1>>, <<243, 120>>, <<159, 240>>, <<-1, 239>> >>
LQ == << <<0, 0>>, <<400, 0>>, <<400, 120>>, <<160, 120>>, <<160, 360>>, <<0, 360>> >>          \* Manhattan, 6 vertices
OctQ == << <<40, 0>>, <<120, 0>>, <<160, 40>>, <<160, 120>>, <<120, 160>>, <<40, 160>>, <<0, 120>>, <<0, 40>> >>
Layers == <<0, 1, 255, 70000, 2147483647>>
LayerV(k) == Layers[(k % Len(Layers)) + 1]

\* all 26 compact trapezoid types x vertex order x width/height relation
CTrapPolys(k) ==
    {PolyE(LayerV(k + t), LayerV(k), CTrapQ(t, w, h, -7, 11, (t + k + o) % 8, jit), RepV(IF o = 0 THEN k + t ELSE 0), PropsV(IF o = 1 THEN t ELSE 0))
        : t \in 0..25, o \in 0..1, w \in {30}, h \in {12}, jit \in {0, 1}}
    \cup {PolyE(1, 0, CTrapQ(t, 20, 20, 3, -40, (t + k) % 8, 0), NoRep, PR0) : t \in 0..25}      \* w = h
\* general trapezoids (TRAPEZOID records): both orientations, signs of the two deltas
TrapPolys(k) ==
    {PolyE(2, 1, TrapQ(v, 40, 30, da, db, 5, 5, (k + da + db + 16) % 8, 0), RepV(k + da), PR0)
        : v \in BOOLEAN, da \in {-7, 0, 9}, db \in {-4, 0, 11}}
RectPolys(k) ==
    {PolyE(LayerV(k + o), 2, Q4(Order(<< <<0, 0>>, <<w, 0>>, <<w, h>>, <<0, h>> >>, o), -20, 3, jit), RepV(k + o), PropsV(o))
        : o \in 0..7, w \in {25}, h \in {25, 40}, jit \in {0, 1}}
OtherPolys(k) ==
    {PolyE(LayerV(k), 7, ps, RepV(k + 3), PropsV(k)) : ps \in {TriQ, PentQ, LQ, OctQ, Rev(LQ), Rot(OctQ, 3)}}

Spines == << << <<0, 0>>, <<4000, 0>>, <<4000, 3001>> >>, << <<1, 3>>, <<4001, 3>> >>, << <<0, 0>>, <<0, -2000>> >>,
             << <<0, 0>>, <<400, 400>>, <<800, 400>> >>, << <<0, 0>>, <<403, 161>>, <<-161, 807>> >>,
             << <<-3, 1>>, <<-3, 401>>, <<397, 401>>, <<397, 801>> >> >>
PathsV(k) ==
    {PathE(<<El(LayerV(k), 1, w, 0, pt, ext)>>, Spines[((k + s) % Len(Spines)) + 1], RepV(k + s), PropsV(k + s))
        : s \in 0..2, w \in {0, 41, 80}, pt \in {0, 2, 4}, ext \in {<<21, -13>>, <<40, 0>>}}
    \cup {PathE(<<El(3, 1, 80, 0, 0, <<0, 0>>), El(4, 2, 48, 0, 2, <<0, 0>>), El(5, 2, 40, 0, 4, <<20, 7>>)>>,
                Spines[(k % Len(Spines)) + 1], RepV(k), PR1)}
    \* simple robust paths (straight sections): their centre lines are written as PATH records too
    \cup {RPathE(<<El(LayerV(k), 1, w, 0, pt, <<21, -13>>)>>, Spines[((k + s) % Len(Spines)) + 1], RepV(k + s), PropsV(s))
           : s \in 0..2, w \in {41, 80}, pt \in {0, 2, 4}}
    \cup {RPathE(<<El(3, 1, 80, 0, 0, <<0, 0>>), El(4, 2, 48, 0, 4, <<8, 4>>)>>, Spines[(k % Len(Spines)) + 1], NoRep, PR1)}
LabelsV(k) == {LabelE(LayerV(k), 3, 0, FALSE, 1024, 0, <<1, 3>>, <<104, 105>>, RepV(k), PropsV(k)),
               LabelE(11, LayerV(k), 5, TRUE, 2048, 90 * 64, <<-401, 799>>, <<111, 100, 100>>, RepV(k + 1), PR1),
               LabelE(12, 1, 10, FALSE, 512, 61 * 32, <<0, 0>>, <<104, 105>>, NoRep, PR2)}
RefsV(k) == {RefE(S_SUB, "cell", FALSE, 1024, 0, <<41, 83>>, RepV(k), PropsV(k)),
             RefE(S_SUB, "cell", FALSE, 1024, 90 * 64, <<0, 0>>, RepV(k + 1), PR1),
             RefE(S_SUB, "cell", TRUE, 2048, 180 * 64, <<-399, 1>>, NoRep, PR0),
             RefE(S_SUB, "cell", TRUE, 1024, 270 * 64, <<-399, 1>>, RepV(k + 2), PR0),
             RefE(S_SUB, "cell", FALSE, 512, 45 * 64, <<3, 3>>, NoRep, PR0),
             RefE(S_SUB, "cell", FALSE, 1024, 30 * 64, <<3, 3>>, NoRep, PR0),
             \* quarter turns given as negative angles and as more than a turn (unmagnified: the compact
             \* PLACEMENT record keeps the turn count modulo 4)
             RefE(S_SUB, "cell", FALSE, 1024, -360 * 64, <<12, 4>>, NoRep, PR0),
             RefE(S_SUB, "cell", TRUE, 1024, -720 * 64, <<12, 4>>, RepV(k + 4), PR0),
             RefE(S_SUB, "cell", FALSE, 1024, -90 * 64, <<-8, 4>>, NoRep, PR1),
             RefE(S_SUB, "cell", FALSE, 1024, 450 * 64, <<-8, 40>>, NoRep, PR0),
             RefE(S_SUB, "cell", TRUE, 1024, -630 * 64, <<-8, 40>>, NoRep, PR0),
             RefE(S_NOPE, "name", TRUE, 1024, 270 * 64, <<7, -7>>, RepV(k), PR2),
             RefE(S_OUT, "cell", FALSE, 3072, 0, <<8, 8>>, NoRep, PR0)}

Empty(nm) == [name |-> nm, polys |-> <<>>, paths |-> <<>>, labels |-> <<>>, refs |-> <<>>, cprops |-> <<>>]
Leaf == [Empty(S_LEAF) EXCEPT !.polys = <<PolyE(1, 0, TriQ, NoRep, PR0)>>,
                              !.labels = <<LabelE(1, 1, 0, FALSE, 1024, 0, <<-40, 8>>, <<76>>, NoRep, PR0)>>]
Sub == [Empty(S_SUB) EXCEPT !.polys = <<PolyE(2, 0, Q4(<< <<0, 0>>, <<10, 0>>, <<10, 6>>, <<0, 6>> >>, 2, -3, 0), NoRep, PR0)>>,
                            !.refs = <<RefE(S_LEAF, "cell", FALSE, 1024, 90 * 64, <<40, 0>>, NoRep, PR0)>>,
                            !.paths = <<PathE(<<El(9, 0, 8, 0, 4, <<4, 12>>)>>, << <<0, 0>>, <<0, 80>>, <<-120, 80>> >>, NoRep, PR0)>>,
                            !.cprops = PR1]
Out == [Empty(S_OUT) EXCEPT !.polys = <<PolyE(1, 0, TriQ, NoRep, PR0)>>]
AL(cells, lprops) == [name |-> S_LIB, unit |-> <<141, 237, 181, 160, 247, 198, 176, 62>>,
                      prec |-> <<149, 214, 38, 232, 11, 46, 17, 62>>,
                      cells |-> cells, outside |-> <<Out>>, lprops |-> lprops]
One(field, e) == [Empty(S_TOP) EXCEPT ![field] = <<e>>]
Lib1(field, e) == AL(<<One(field, e), Sub, Leaf>>, PR0)
Circle(k) == [Empty(S_TOP) EXCEPT !.polys = <<PolyE(4, 4, <<>>, RepV(k), PropsV(k)) @@ [ellipse |-> [c |-> <<401 + 4 * k, -83>>, r |-> 4 * (20 + k), tol |-> 1]]>>]
\* a circular segment (the vertices of the same polygonal circle between 0 and 270 degrees, closed by a
\* chord): every vertex lies on the circle, yet it is no circle and must come back vertex by vertex
CircleSeg(k) == [Empty(S_TOP) EXCEPT !.polys = <<PolyE(4, 4, <<>>, NoRep, PR0) @@ [ellipse |-> [c |-> <<401 + 4 * k, -83>>, r |-> 4 * (20 + k), tol |-> 1, seg |-> <<0, 270 - 90 * k>>]]>>]
Mixed(k) == [name |-> S_TOP, cprops |-> PropsV(k + 1),
             polys |-> <<PolyE(2, 5, Q4(<< <<0, 0>>, <<25, 0>>, <<25, 40>>, <<0, 40>> >>, 1, 1, 1), RepV(k), PR1),
                         PolyE(1, 0, TriQ, NoRep, PR0), PolyE(1, 0, CTrapQ(k % 26, 30, 12, 0, 0, 0, 0), NoRep, PR2)>>,
             paths |-> <<PathE(<<El(1, 0, 41, 0, 4, <<21, -13>>)>>, Spines[1], NoRep, PR0),
                         PathE(<<El(3, 1, 80, 0, 0, <<0, 0>>), El(4, 2, 40, 0, 2, <<0, 0>>)>>, Spines[2], RepV(k + 1), PR1)>>,
             labels |-> <<LabelE(11, 3, 5, TRUE, 2048, 90 * 64, <<-401, 799>>, <<111, 100, 100>>, RepV(k + 2), PR1),
                          LabelE(11, 3, 0, FALSE, 1024, 0, <<3, 3>>, <<111, 100, 100>>, NoRep, PR0)>>,
             refs |-> <<RefE(S_SUB, "cell", FALSE, 1024, 90 * 64, <<0, 0>>, RepV(k + 3), PR1),
                        RefE(S_LEAF, "cell", TRUE, 1024, 0, <<5, 5>>, NoRep, PR0),
                        RefE(S_NOPE, "name", FALSE, 1024, 0, <<9, 9>>, NoRep, PR0)>>]
\* near misses: a compact-trapezoid shape with ONE vertex moved by two grid units along an axis.
\* Most are no compact trapezoid any more (some keep the bounding box of one, e.g. the type-22
\* triangle whose apex leaves the middle), so shape detection has to fall back to a general record;
\* all near misses of one type share a cell
Dirs4 == << <<2, 0>>, <<-2, 0>>, <<0, 2>>, <<0, -2>> >>
NearMiss(t, w, h) ==
    LET vs == CTrapVertices(t, w, h) IN
    [n \in 1..(4 * Len(vs)) |->
        LET i == ((n - 1) \div 4) + 1
            d == Dirs4[((n - 1) % 4) + 1]
        IN  [vs EXCEPT ![i] = <<vs[i][1] + d[1], vs[i][2] + d[2]>>]]
\* the round-trip properties are stated for simple polygons (and OASIS has no other kind): keep the
\* near misses with distinct vertices whose edges meet only at shared end points
Orient(a, b, c) == (b[1] - a[1]) * (c[2] - a[2]) - (b[2] - a[2]) * (c[1] - a[1])
OnSeg(a, b, c) == /\ Orient(a, b, c) = 0
                  /\ c[1] >= (IF a[1] < b[1] THEN a[1] ELSE b[1]) /\ c[1] <= (IF a[1] < b[1] THEN b[1] ELSE a[1])
                  /\ c[2] >= (IF a[2] < b[2] THEN a[2] ELSE b[2]) /\ c[2] <= (IF a[2] < b[2] THEN b[2] ELSE a[2])
SegsMeet(a, b, c, d) ==
    LET Sg(x) == IF x > 0 THEN 1 ELSE IF x < 0 THEN -1 ELSE 0 IN
    \/ (Sg(Orient(a, b, c)) * Sg(Orient(a, b, d)) < 0 /\ Sg(Orient(c, d, a)) * Sg(Orient(c, d, b)) < 0)
    \/ OnSeg(a, b, c) \/ OnSeg(a, b, d) \/ OnSeg(c, d, a) \/ OnSeg(c, d, b)
SimplePoly(vs) ==
    LET n == Len(vs)
        V(i) == vs[((i - 1) % n) + 1]
    IN  /\ n >= 3
        /\ \A i, j \in 1..n : i # j => vs[i] # vs[j]
        /\ \A i \in 1..n : Orient(V(i), V(i + 1), V(i + 2)) # 0
        /\ \A i, j \in 1..n : (j > i + 1 /\ ~(i = 1 /\ j = n)) => ~SegsMeet(V(i), V(i + 1), V(j), V(j + 1))
NearCell(t) == LET seq == SelectSeq(NearMiss(t, 30, 12) \o NearMiss(t, 20, 20), SimplePoly) IN
               [Empty(S_TOP) EXCEPT !.polys = [i \in DOMAIN seq |->
                   PolyE(LayerV(i), t, Q4(Order(seq[i], (i + t) % 6), 5, -9, 0), NoRep, PR0)]]
NearLibs == {AL(<<NearCell(t), Sub, Leaf>>, PR0) : t \in 0..25}
MixedLib(k) == AL(<<Mixed(k), Sub, Leaf, Empty(<<69>>)>>, PropsV(k))

\* ---- options ------------------------------------------------------------------------------------
Opts(flags, level, tol) == [flags |-> flags, level |-> level, tol |-> tol]
Case(al, o) == [al |-> al, opts |-> o, cycles |-> 3]

Singles(k) == {Lib1("polys", e) : e \in CTrapPolys(k) \cup TrapPolys(k) \cup RectPolys(k) \cup OtherPolys(k)}
              \cup {Lib1("paths", e) : e \in PathsV(k)} \cup {Lib1("labels", e) : e \in LabelsV(k)}
              \cup {Lib1("refs", e) : e \in RefsV(k)}
              \cup {AL(<<Circle(q), Sub, Leaf>>, PR0) : q \in 0..3}
\* (thorough: 7 of the 14 palette rotations, chosen by the seed; every rotation is reachable by varying it)
Libs == (IF Depth = "thorough" THEN UNION {Singles((Seed + 2 * k) % 14) : k \in 0..6} \cup {MixedLib(k) : k \in 0..25}
         ELSE Singles(Seed % 14) \cup {MixedLib(k) : k \in {Seed % 26, (Seed + 9) % 26, (Seed + 17) % 26}})
        \cup NearLibs \cup {AL(<<CircleSeg(q), Sub, Leaf>>, PR0) : q \in 0..1}
        \cup {Lib1("polys", PolyE(1, 0, TriQ, NoRep, PR4)), Lib1("labels", LabelE(3, 3, 0, FALSE, 1024, 0, <<1, 3>>, <<104, 105>>, NoRep, PR4))}
\* every library with detection on (shape records) and once with its rotating option set;
\* the mixed library sweeps all 256 flag sets x levels x tolerances over the run
Sweep == IF Depth = "thorough"
         THEN {Case(MixedLib((f + lv) % 26), Opts(f, lv, t)) : f \in 0..255, lv \in 0..9, t \in {0, 1}}
         ELSE {Case(MixedLib((f + Seed) % 26), Opts(f, (f + Seed) % 10, (f \div 7) % 2)) : f \in 0..255}
              \cup {Case(MixedLib(lv), Opts(255, lv, 1)) : lv \in 0..9} \cup {Case(MixedLib(lv), Opts(0, lv, 0)) : lv \in 0..9}
Cases == Sweep
         \cup {Case(l, Opts(48, 0, 2)) : l \in Libs} \cup {Case(l, Opts(0, 6, 0)) : l \in Libs}
         \cup {Case(l, Opts(255, 9, 2)) : l \in Libs}

Init == case \in Cases
Next == UNCHANGED case
AppendOpts == [format |-> "TXT", charset |-> "UTF-8", openOptions |-> <<"WRITE", "CREATE", "APPEND">>]
Export == Serialize(ToJson(case) \o "\n", IOEnv.GEN_OUT, AppendOpts).exitValue = 0
=============================================================================
