------------------------------ MODULE Hierarchy ------------------------------
(***************************************************************************)
(* Layout hierarchies and element transforms on the exact lattice of       *)
(* Base.tla (quanta, Q = 500 per user unit in the checks that use it).     *)
(*                                                                         *)
(* A SHAPE is a literal: [kind, parts, rep] where parts is a sequence of   *)
(* [tag, ring] (ring = vertex sequence of one outline polygon; for a label *)
(* the "ring" is the single origin point) and rep a repetition value of    *)
(* Repetition.tla.  Path outlines are opaque: they are measured once from  *)
(* the untransformed element and only ever mapped by affine maps, which is *)
(* exactly what the properties claim about them.                           *)
(* A REFERENCE is [to, mag, refl, rot, origin, rep]; a CELL is             *)
(* [name, shapes, refs]; a hierarchy is a function name -> cell.           *)
(***************************************************************************)
EXTENDS Repetition, Bits

\* sign of a*b - c*d without leaving 31 bits: small operands directly, large ones through Bits
SignOfDiffOfProducts(a, b, c, d) ==
    IF Abs(a) < 32768 /\ Abs(b) < 32768 /\ Abs(c) < 32768 /\ Abs(d) < 32768
    THEN Sign(a * b - c * d)
    ELSE LET s1 == Sign(a) * Sign(b)
             s2 == Sign(c) * Sign(d)
             m1 == BMul(FromInt(Abs(a)), FromInt(Abs(b)))
             m2 == BMul(FromInt(Abs(c)), FromInt(Abs(d)))
         IN  IF s1 # s2 THEN (IF s1 > s2 THEN 1 ELSE -1)
             ELSE IF s1 = 0 THEN 0
             ELSE s1 * BCmp(m1, m2)
SCross3(a, b, c) == SignOfDiffOfProducts(b[1] - a[1], c[2] - a[2], b[2] - a[2], c[1] - a[1])
SetToSeqH(S) == CHOOSE q \in [1..Cardinality(S) -> S] : \A i, j \in 1..Cardinality(S) : i # j => q[i] # q[j]
\* ---- rings up to rotation and orientation -----------------------------------
RingAt(r, k, dir, i) == LET n == Len(r)
                            j == (k - 1 + dir * (i - 1)) % n
                        IN  r[j + 1]
RingEq(a, b) == /\ Len(a) = Len(b)
                /\ (Len(a) = 0 \/ \E k \in 1..Len(b), dir \in {1, -1} :
                                     \A i \in 1..Len(a) : a[i] = RingAt(b, k, dir, i))
\* canonical representative: the lexicographically least rotation / reversal
PtLess(p, q) == p[1] < q[1] \/ (p[1] = q[1] /\ p[2] < q[2])
RECURSIVE SeqLessFrom(_, _, _)
SeqLessFrom(a, b, i) == IF i > Len(a) THEN FALSE
                        ELSE IF a[i] = b[i] THEN SeqLessFrom(a, b, i + 1) ELSE PtLess(a[i], b[i])
Variant(r, k, dir) == [i \in 1..Len(r) |-> RingAt(r, k, dir, i)]
Canon(r) == IF Len(r) <= 1 THEN r
            ELSE LET vs == {Variant(r, k, dir) : k \in 1..Len(r), dir \in {1, -1}} IN
                 CHOOSE v \in vs : \A w \in vs : ~SeqLessFrom(w, v, 1)

\* ---- operations on elements as affine maps ---------------------------------------
\* op records (parameters in quanta):
\*   [op |-> "translate", v]            [op |-> "scale", s (Mag), c]
\*   [op |-> "mirror", p0, p1]          [op |-> "rotate", rot, c]
\*   [op |-> "transform", mag, refl, rot, o]
RECURSIVE Gcd(_, _)
Gcd(x, y) == IF y = 0 THEN Abs(x) ELSE Gcd(y, x % Abs(y))
MirrorLin(p0, p1) ==     \* reflection across the direction p1 - p0
    LET g == Gcd(p1[1] - p0[1], p1[2] - p0[2])
        a == (p1[1] - p0[1]) \div g
        b == (p1[2] - p0[2]) \div g
    IN  [xx |-> a * a - b * b, xy |-> 2 * a * b, yx |-> 2 * a * b, yy |-> b * b - a * a,
         den |-> a * a + b * b, tx |-> 0, ty |-> 0]
About(lin, c) ==         \* p |-> lin(p - c) + c
    Compose(Translation(c), Compose(lin, Translation(VNeg(c))))
OpMap(o) ==
    CASE o.op = "translate" -> Translation(o.v)
      [] o.op = "scale" -> About(Linear(o.s, FALSE, Rot0), o.c)
      [] o.op = "mirror" -> About(MirrorLin(o.p0, o.p1), o.p0)
      [] o.op = "rotate" -> About(Linear(Mag(1, 1), FALSE, o.rot), o.c)
      [] o.op = "transform" -> Placement(o.mag, o.refl, o.rot, o.o)
RECURSIVE OpsMap(_, _)
OpsMap(ops, i) == IF i = 0 THEN Identity ELSE Compose(OpMap(ops[i]), OpsMap(ops, i - 1))
TotalMap(ops) == OpsMap(ops, Len(ops))
\* |magnification| of a sequence of operations as a rational [n, d]
OpAbsMag(o) == CASE o.op = "scale" -> Mag(Abs(o.s.n), o.s.d)
                 [] o.op = "transform" -> Mag(Abs(o.mag.n), o.mag.d)
                 [] OTHER -> Mag(1, 1)
RECURSIVE AbsMagOf(_, _)
AbsMagOf(ops, i) == IF i = 0 THEN Mag(1, 1)
                    ELSE LET m == AbsMagOf(ops, i - 1)
                             o == OpAbsMag(ops[i])
                         IN  Mag(m.n * o.n, m.d * o.d)
\* common denominator budget of a sequence (exactness of the lattice)
OpDen(o) == CASE o.op = "scale" -> o.s.d
              [] o.op = "mirror" -> LET g == Gcd(o.p1[1] - o.p0[1], o.p1[2] - o.p0[2])
                                        a == (o.p1[1] - o.p0[1]) \div g
                                        b == (o.p1[2] - o.p0[2]) \div g
                                    IN  IF a = 0 \/ b = 0 \/ Abs(a) = Abs(b) THEN 1 ELSE a * a + b * b
              [] o.op = "rotate" -> o.rot.d
              [] o.op = "transform" -> o.mag.d * o.rot.d
              [] OTHER -> 1
RECURSIVE DenOf(_, _)
DenOf(ops, i) == IF i = 0 THEN 1 ELSE OpDen(ops[i]) * DenOf(ops, i - 1)

\* ---- shapes ------------------------------------------------------------------------------
MapRing(m, ring) == [i \in DOMAIN ring |-> Apply(m, ring[i])]
MapParts(m, parts) == [i \in DOMAIN parts |-> [tag |-> parts[i].tag, ring |-> MapRing(m, parts[i].ring)]]
ShiftParts(parts, off) == MapParts(Translation(off), parts)
RepOffsets(rep) == IF rep.type = "none" THEN << <<0, 0>> >> ELSE Offsets(rep)
\* the copies a shape denotes: one list of parts per repetition offset
Cat2(ss) == LET RECURSIVE C(_)
                C(i) == IF i > Len(ss) THEN <<>> ELSE ss[i] \o C(i + 1)
            IN  C(1)
Expand(shape) == LET offs == RepOffsets(shape.rep) IN
    Cat2([k \in DOMAIN offs |-> ShiftParts(shape.parts, offs[k])])
\* geometry of a shape after an affine map: rings mapped, repetition vectors mapped linearly
MapShape(m, shape) ==
    [kind |-> shape.kind, parts |-> MapParts(m, shape.parts),
     rep |-> IF shape.rep.type = "none" THEN shape.rep
             ELSE Explicit(Tail([i \in DOMAIN Offsets(shape.rep) |-> ApplyLin(m, Offsets(shape.rep)[i])]))]
\* vertices lying on the segment between their neighbours do not change the outline (the path
\* code samples straight sections at a density that depends on scale)
PrevIdx(P, i) == IF i = 1 THEN Len(P) ELSE i - 1
\* u . v > 0 for collinear u, v: same direction
SDotPos(u, v) == (Sign(u[1]) * Sign(v[1]) > 0) \/ (Sign(u[2]) * Sign(v[2]) > 0)
RECURSIVE KeepSeq(_, _, _)
KeepSeq(r, keep, i) == IF i > Len(r) THEN <<>>
                       ELSE (IF i \in keep THEN <<r[i]>> ELSE <<>>) \o KeepSeq(r, keep, i + 1)
SimplifyRing(r) ==
    IF Len(r) < 3 THEN r
    ELSE LET keep == {i \in DOMAIN r :
                        ~(SCross3(r[PrevIdx(r, i)], r[i], r[NextIdx(r, i)]) = 0
                          /\ SDotPos(VSub(r[i], r[PrevIdx(r, i)]), VSub(r[NextIdx(r, i)], r[i])))}
         IN  IF keep = {} THEN r
             ELSE KeepSeq(r, keep, 1)
CanonParts(parts) == [i \in DOMAIN parts |-> [tag |-> parts[i].tag, ring |-> Canon(SimplifyRing(parts[i].ring))]]
\* two part lists denote the same geometry: equal as bags of (tag, ring up to rotation/orientation)
SameGeometry(a, b) == BagEq(CanonParts(a), CanonParts(b))

\* ---- hierarchies -------------------------------------------------------------------------------
RefMap(r, off) == Placement(r.mag, r.refl, r.rot, VAdd(r.origin, off))
\* everything cell c denotes down to `depth` levels of references (-1 = all), as one part list
RECURSIVE Flat(_, _, _, _)
Flat(H, c, depth, kinds) ==
    LET own == Cat2([i \in DOMAIN H[c].shapes |->
                       IF H[c].shapes[i].kind \in kinds THEN Expand(H[c].shapes[i]) ELSE <<>>])
        sub == IF depth = 0 THEN <<>>
               ELSE Cat2([i \in DOMAIN H[c].refs |->
                      LET r == H[c].refs[i]
                          offs == RepOffsets(r.rep)
                          inner == IF r.to \in DOMAIN H
                                   THEN Flat(H, r.to, IF depth > 0 THEN depth - 1 ELSE -1, kinds)
                                   ELSE <<>>
                      IN  Cat2([k \in DOMAIN offs |-> MapParts(RefMap(r, offs[k]), inner)])])
    IN  own \o sub
FilterTag(parts, tag) == SelectSeq(parts, LAMBDA p : p.tag = tag)
AllPoints(parts) == UNION {SeqSet(parts[i].ring) : i \in DOMAIN parts}

\* ---- convex hulls ------------------------------------------------------------------------------------
\* H (sequence of points, either orientation) is a hull of the point set S: every point of S is
\* inside or on it, and every corner of H is a point of S
OnOrInsideConvex(H, q) ==
    \/ Len(H) = 0 /\ FALSE
    \/ Len(H) = 1 /\ q = H[1]
    \/ Len(H) = 2 /\ SCross3(H[1], H[2], q) = 0
                    /\ Min2(H[1][1], H[2][1]) <= q[1] /\ q[1] <= Max2(H[1][1], H[2][1])
                    /\ Min2(H[1][2], H[2][2]) <= q[2] /\ q[2] <= Max2(H[1][2], H[2][2])
    \/ Len(H) >= 3 /\ ((\A i \in DOMAIN H : SCross3(H[i], H[NextIdx(H, i)], q) >= 0)
                       \/ (\A j \in DOMAIN H : SCross3(H[j], H[NextIdx(H, j)], q) <= 0))
HullOK(H, S) == /\ \A q \in S : OnOrInsideConvex(H, q)
                /\ SeqSet(H) \subseteq S
\* ---- reduced rational matrices (keeps cross-multiplications inside 31 bits) -------------------
ReduceMap(m) ==
    LET g == Gcd(Gcd(Gcd(m.xx, m.xy), Gcd(m.yx, m.yy)), m.den)
        h == IF g = 0 THEN 1 ELSE g
    IN  [m EXCEPT !.xx = m.xx \div h, !.xy = m.xy \div h, !.yx = m.yx \div h, !.yy = m.yy \div h,
                  !.den = m.den \div h]
SameMapR(a, b) == SameMap(ReduceMap(a), ReduceMap(b))
\* placement of a label / reference from logged fields: magnification in 1/64, direction in 1/125
PlacementOfFields(p) ==
    [xx |-> p.mag * p.c, xy |-> p.mag * (IF p.refl THEN p.s ELSE -p.s),
     yx |-> p.mag * p.s, yy |-> p.mag * (IF p.refl THEN -p.c ELSE p.c),
     den |-> 64 * 125, tx |-> p.o[1], ty |-> p.o[2]]

=============================================================================
