SPECIFICATION Spec
CONSTANT MaxRecs = 12
CONSTANT MinRecs = 8
CONSTANT Mode = "walk"
CONSTANT Salts = {0}
INVARIANT Legal
INVARIANT Export
CHECK_DEADLOCK FALSE
