--------------------------- MODULE MC_Containers ---------------------------
(* Model-checking / generation wrapper for Containers.tla.                   *)
(* HomeTab is MEASURED from gdstk::hash by the harness (`h_c20 homes`) and   *)
(* handed over as JSON: HomeTab[k + 1][j] = hash(key_k) % (8 * 2^(j-1)).     *)
EXTENDS Containers, Json, IOUtils

HomeTab == JsonDeserialize(IOEnv.C20_HOMES)
RECURSIVE CapIdx(_)
CapIdx(c) == IF c <= 8 THEN 1 ELSE 1 + CapIdx(c \div 2)
HomeOp(k, c) == HomeTab[k + 1][CapIdx(c)]

AppendOpts == [format |-> "TXT", charset |-> "UTF-8",
               openOptions |-> <<"WRITE", "CREATE", "APPEND">>]

\* One exported history per TRANSITION of the (VIEW-reduced) state graph: TLC expands every
\* distinct table state once, from the first history that reached it.
Export ==
    IF Len(hist') <= MaxLen
    THEN Serialize(ToJson([h |-> hist']) \o "\n", IOEnv.GEN_OUT, AppendOpts).exitValue = 0
    ELSE TRUE
=============================================================================
