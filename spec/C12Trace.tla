------------------------------ MODULE C12Trace ------------------------------
(* Validates Polygon::fracture and slice() against Region.tla on exact samples.   *)
EXTENDS Region, Json, IOUtils

Log == ndJsonDeserialize(IOEnv.TRACE)
VARIABLES l
Ev == Log[l]

ScaleP(P, f) == [k \in DOMAIN P |-> <<f * P[k][1], f * P[k][2]>>]
BigTol(P, S) == (IF AllManhattan(<<P>>) THEN 0 ELSE 1000 * 2 * GroupPerimLen(<<ScaleP(P, S)>>)) + 4 * S * S
RECURSIVE Cat(_)
Cat(ss) == IF Len(ss) = 0 THEN <<>> ELSE Head(ss) \o Cat(Tail(ss))
FractureFailing(ev) ==
    LET g == ev.g
        S == g.s
        P == FineOfUser(<<g.p>>, S)
        R == FineOfGrid(ev.pieces)
        qs == {q \in FineSamples(-1, 12, S) : FarU(P, q)}
        badu == {q \in qs : InRegion(R, q) # InRegion(P, q)}
        over == {q \in qs : Cardinality(Covering(R, q)) > 1}
    IN  IF g.limit < 5
        THEN (IF Len(ev.pieces) = 0 /\ ev.err = 0 THEN {} ELSE {<<"limit_below_5_must_leave_polygon_alone">>})
        ELSE (IF ev.lat /\ ev.err = 0 THEN {} ELSE {<<"lattice_or_error">>})
             \cup (IF \A i \in DOMAIN ev.pieces : Len(ev.pieces[i]) <= g.limit THEN {}
                   ELSE {<<"piece_exceeds_limit">>})
             \cup (IF badu = {} THEN {} ELSE {<<"union_differs", CHOOSE q \in badu : TRUE>>})
             \cup (IF over = {} THEN {} ELSE {<<"pieces_overlap", CHOOSE q \in over : TRUE>>})
             \cup (IF ev.same_meta THEN {} ELSE {<<"tag_repetition_properties_not_copied">>})
             \cup (IF Len(ev.pieces) >= 1 THEN {} ELSE {<<"no_pieces">>})
             \* [M] on a grid of 1e-9 (scaled coordinates beyond 32 bits) the pieces still add up to the
             \* polygon's area (1/1000 square unit, held to 2/1000) and respect the limit
             \* (the reference is the area of the pieces on the coarse grid, which the region clauses above
             \* tie to the polygon; coarse-grid rounding of slanted crossings is allowed for as in C05;
             \* 32-bit integers: scalings 1 and 8)
             \cup (IF "big_area" \notin DOMAIN ev \/ S > 8 THEN {}
                   ELSE (IF Abs(2 * S * S * ev.big_area - 1000 * GroupArea2(ev.pieces)) <= BigTol(g.p, S) /\ ev.big_n >= 1 THEN {}
                         ELSE {<<"big_scale_area">>})
                        \cup (IF ev.big_max <= g.limit THEN {} ELSE {<<"big_scale_piece_exceeds_limit">>}))

\* C01, vertex limit: write_gds(max_points = limit) followed by read_gds.  Below 5 (or with no more
\* vertices than the limit) the polygon is stored as it is; otherwise plain polygons of at most
\* `limit` vertices that cover exactly the same region, each with the tag and GDSII property
GdsFracFailing(ev) ==
    LET g == ev.g
        S == g.s
        P == FineOfUser(<<g.p>>, S)
        R == FineOfGrid(ev.pieces)
        qs == {q \in FineSamples(-1, 12, S) : FarU(P, q)}
        badu == {q \in qs : InRegion(R, q) # InRegion(P, q)}
        whole == g.limit < 5 \/ Len(g.p) <= g.limit IN
    (IF ev.lat /\ ev.err = 0 THEN {} ELSE {<<"lattice_or_error">>})
    \cup (IF whole => Len(ev.pieces) = 1 THEN {} ELSE {<<"polygon_within_limit_was_split">>})
    \cup (IF whole \/ \A i \in DOMAIN ev.pieces : Len(ev.pieces[i]) <= g.limit THEN {}
          ELSE {<<"piece_exceeds_limit">>})
    \cup (IF badu = {} THEN {} ELSE {<<"region_differs", CHOOSE q \in badu : TRUE>>})
    \cup (IF ev.same_meta THEN {} ELSE {<<"tag_or_property_lost">>})
    \cup (IF Len(ev.pieces) >= 1 THEN {} ELSE {<<"no_polygon">>})

\* C01, non-simple paths: stored as polygons that must cover the region of the path's outline.
\* Units of 1/16 grid: the outline before saving (ev.pre) is logged in them, re-loaded vertices are
\* 16 * grid; samples are the centres of the grid squares; a sample closer than one grid unit to a
\* slanted edge of the outline is skipped (rounding of that edge's end points may move it)
GdsPathFailing(ev) ==
    LET g == ev.g
        U == 16
        PRE == ev.pre
        POST == [i \in DOMAIN ev.post |-> [k \in DOMAIN ev.post[i] |-> <<U * ev.post[i][k][1], U * ev.post[i][k][2]>>]]
        R == g.s * 14
        qs == {q \in {<<U * x + 8, U * y + 8>> : x \in (-2 * g.s)..R, y \in (-2 * g.s)..R} :
                 \A e \in GroupEdges(PRE) : IsAxisParallel(e[1], e[2]) \/ SegFartherThan(e[1], e[2], q, U)}
        tags == {ev.pretags[i] : i \in DOMAIN ev.pretags}
        Of(G, ts, t) == [i \in {j \in DOMAIN G : ts[j] = t} |-> G[i]]
        In(G, ts, t, q) == \E i \in DOMAIN G : ts[i] = t /\ Winding(G[i], q) # 0
        bad == {<<t, q>> \in tags \X qs : In(PRE, ev.pretags, t, q) # In(POST, ev.ptags, t, q)} IN
    (IF ev.lat /\ ev.err = 0 THEN {} ELSE {<<"lattice_or_error">>})
    \cup (IF ev.same_meta THEN {} ELSE {<<"not_plain_polygons_with_type_and_property">>})
    \cup (IF {ev.ptags[i] : i \in DOMAIN ev.ptags} = tags THEN {} ELSE {<<"layers_differ">>})
    \cup (IF g.limit < 5 \/ \A i \in DOMAIN ev.post : Len(ev.post[i]) <= g.limit THEN {} ELSE {<<"piece_exceeds_limit">>})
    \cup (IF Cardinality(qs) >= 50 THEN {} ELSE {<<"too_few_decisive_samples">>})
    \cup (IF bad = {} THEN {} ELSE {<<"region_differs", CHOOSE b \in bad : TRUE>>})

\* slice: bin i (1-based) holds the part of P between cut i-1 and cut i (cuts in half user units)
SliceFailing(ev) ==
    LET g == ev.g
        S == g.s
        P == FineOfUser(<<g.p>>, S)
        ax == IF g.axis = "x" THEN 1 ELSE 2
        cutf == [i \in DOMAIN g.cuts |-> S * g.cuts[i]]        \* fine units
        NearCut(q) == \E i \in DOMAIN cutf : Abs(q[ax] - cutf[i]) <= 3
        Bin(q) == 1 + Cardinality({i \in DOMAIN cutf : cutf[i] < q[ax]})
        qs == {q \in FineSamples(-1, 12, S) : FarU(P, q) /\ ~NearCut(q)}
        bad == {q \in qs : \E b \in DOMAIN ev.bins :
                   InRegion(FineOfGrid(ev.bins[b]), q) # (InRegion(P, q) /\ Bin(q) = b)}
    IN  (IF ev.lat /\ ev.err = 0 THEN {} ELSE {<<"lattice_or_error">>})
        \cup (IF Len(ev.bins) = Len(g.cuts) + 1 THEN {} ELSE {<<"bin_count">>})
        \cup (IF bad = {} THEN {} ELSE {<<"slice_region", CHOOSE q \in bad : TRUE>>})
        \cup (IF "big_area" \notin DOMAIN ev \/ S > 8 THEN {}
              ELSE IF ev.big_err = 0
                      /\ Abs(2 * S * S * ev.big_area
                             - 1000 * GroupArea2(Cat([b \in DOMAIN ev.bins |-> ev.bins[b]]))) <= BigTol(g.p, S) THEN {}
              ELSE {<<"big_scale_area">>})

\* long skylines (hundreds of vertices; user integers, grid 1): the pieces respect the limit, their areas
\* add up to the polygon's exactly, and every sampled unit-cell centre (doubled coordinates, never on
\* an edge) inside the skyline lies in exactly one piece, every one outside in none
Dbl(P) == [k \in DOMAIN P |-> <<2 * P[k][1], 2 * P[k][2]>>]
StairFailing(ev) ==
    LET g == ev.g
        P2 == Dbl(g.p)
        R2 == [i \in DOMAIN ev.pieces |-> Dbl(ev.pieces[i])]
        qs == {<<2 * i + 1, 2 * j + 1>> : i \in {c \in 0..(g.n - 1) : c % 13 = 0}, j \in 0..8}
        bad == {q \in qs : Cardinality({k \in DOMAIN R2 : Winding(R2[k], q) # 0})
                              # (IF Winding(P2, q) # 0 THEN 1 ELSE 0)}
    IN  (IF ev.lat /\ ev.err = 0 THEN {} ELSE {<<"lattice_or_error">>})
        \cup (IF \A i \in DOMAIN ev.pieces : Len(ev.pieces[i]) <= g.limit THEN {} ELSE {<<"piece_exceeds_limit">>})
        \cup (IF Len(ev.pieces) >= 2 THEN {} ELSE {<<"not_fractured">>})
        \cup (IF GroupArea2(ev.pieces) = Area2(g.p) THEN {} ELSE {<<"piece_areas_do_not_add_up">>})
        \cup (IF bad = {} THEN {} ELSE {<<"cover_count", CHOOSE q \in bad : TRUE>>})
        \cup (IF ev.same_meta THEN {} ELSE {<<"tag_repetition_properties_not_copied">>})

Check(ev) == CASE ev.e = "fracture" -> FractureFailing(ev)
               [] ev.e = "stair" -> StairFailing(ev)
               [] ev.e = "slice" -> SliceFailing(ev)
               [] ev.e = "gdsfrac" -> GdsFracFailing(ev)
               [] ev.e = "gdspath" -> GdsPathFailing(ev)
               [] OTHER -> {<<ev.e>>}
TInit == l = 1
TNext == /\ l <= Len(Log) /\ l' = l + 1
         /\ LET f == Check(Ev) IN IF f = {} THEN TRUE
                                  ELSE PrintT("REJECT " \o ToString(l) \o " " \o ToString(f))
=============================================================================
