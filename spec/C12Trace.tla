------------------------------ MODULE C12Trace ------------------------------
(* Validates Polygon::fracture and slice() against Region.tla on exact samples.   *)
EXTENDS Region, Json, IOUtils

Log == ndJsonDeserialize(IOEnv.TRACE)
VARIABLES l
Ev == Log[l]

FractureFailing(ev) ==
    LET g == ev.g
        S == g.s
        P == FineOfUser(<<g.p>>, S)
        R == FineOfGrid(ev.pieces)
        qs == {q \in FineSamples(-1, 12, S) : FarU(P, q)}
        badu == {q \in qs : InRegion(R, q) # InRegion(P, q)}
        over == {q \in qs : Cardinality(Covering(R, q)) > 1}
    IN  IF g.limit < 5
        THEN (IF Len(ev.pieces) = 0 /\ ev.err = 0 THEN {} ELSE {<<"limit_below_5_must_leave_polygon_alone">>})
        ELSE (IF ev.lat /\ ev.err = 0 THEN {} ELSE {<<"lattice_or_error">>})
             \cup (IF \A i \in DOMAIN ev.pieces : Len(ev.pieces[i]) <= g.limit THEN {}
                   ELSE {<<"piece_exceeds_limit">>})
             \cup (IF badu = {} THEN {} ELSE {<<"union_differs", CHOOSE q \in badu : TRUE>>})
             \cup (IF over = {} THEN {} ELSE {<<"pieces_overlap", CHOOSE q \in over : TRUE>>})
             \cup (IF ev.same_meta THEN {} ELSE {<<"tag_repetition_properties_not_copied">>})
             \cup (IF Len(ev.pieces) >= 1 THEN {} ELSE {<<"no_pieces">>})

\* slice: bin i (1-based) holds the part of P between cut i-1 and cut i (cuts in half user units)
SliceFailing(ev) ==
    LET g == ev.g
        S == g.s
        P == FineOfUser(<<g.p>>, S)
        ax == IF g.axis = "x" THEN 1 ELSE 2
        cutf == [i \in DOMAIN g.cuts |-> S * g.cuts[i]]        \* fine units
        NearCut(q) == \E i \in DOMAIN cutf : Abs(q[ax] - cutf[i]) <= 3
        Bin(q) == 1 + Cardinality({i \in DOMAIN cutf : cutf[i] < q[ax]})
        qs == {q \in FineSamples(-1, 12, S) : FarU(P, q) /\ ~NearCut(q)}
        bad == {q \in qs : \E b \in DOMAIN ev.bins :
                   InRegion(FineOfGrid(ev.bins[b]), q) # (InRegion(P, q) /\ Bin(q) = b)}
    IN  (IF ev.lat /\ ev.err = 0 THEN {} ELSE {<<"lattice_or_error">>})
        \cup (IF Len(ev.bins) = Len(g.cuts) + 1 THEN {} ELSE {<<"bin_count">>})
        \cup (IF bad = {} THEN {} ELSE {<<"slice_region", CHOOSE q \in bad : TRUE>>})

Check(ev) == CASE ev.e = "fracture" -> FractureFailing(ev)
               [] ev.e = "slice" -> SliceFailing(ev)
               [] OTHER -> {<<ev.e>>}
TInit == l = 1
TNext == /\ l <= Len(Log) /\ l' = l + 1
         /\ LET f == Check(Ev) IN IF f = {} THEN TRUE
                                  ELSE PrintT("REJECT " \o ToString(l) \o " " \o ToString(f))
=============================================================================
