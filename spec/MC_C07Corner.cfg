INIT Init
NEXT Next
INVARIANTS Laws Export
CHECK_DEADLOCK FALSE
