-------------------------------- MODULE Region --------------------------------
(***************************************************************************)
(* Membership semantics of polygons and polygon groups on exact integer    *)
(* points (Base.tla), and the measures derived from vertex lists.          *)
(* A polygon is a sequence of points, implicitly closed; a group is a      *)
(* sequence of polygons.                                                   *)
(***************************************************************************)
EXTENDS Base

\* ---- single polygon (C14) -------------------------------------------------
Inside(P, q) == InsidePoly(P, q)             \* on an edge / vertex, or winding # 0
\* ---- groups ----------------------------------------------------------------
InGroup(G, q) == \E i \in DOMAIN G : Inside(G[i], q)
InsideEach(G, pts) == [i \in DOMAIN pts |-> InGroup(G, pts[i])]
AllInside(G, pts) == \A i \in DOMAIN pts : InGroup(G, pts[i])
AnyInside(G, pts) == \E i \in DOMAIN pts : InGroup(G, pts[i])
ContainAll(P, pts) == \A i \in DOMAIN pts : Inside(P, pts[i])
ContainAny(P, pts) == \E i \in DOMAIN pts : Inside(P, pts[i])

\* ---- measures -----------------------------------------------------------------
Area2(P) == Abs(SignedArea2(P))                  \* twice the area
Len2(a, b) == Dot(VSub(b, a), VSub(b, a))
\* sum over the closed edge list of floor(S * |edge|); S * perimeter lies in [lo, lo + #edges]
RECURSIVE PerimLo(_, _, _)
PerimLo(P, i, S) == IF i = 0 THEN 0
                    ELSE ISqrt(Len2(P[i], P[NextIdx(P, i)]) * S * S) + PerimLo(P, i - 1, S)
PerimeterBounds(P, S) == IF Len(P) < 3 THEN <<0, 0>> ELSE <<PerimLo(P, Len(P), S), PerimLo(P, Len(P), S) + Len(P)>>

\* strict interior / exterior with winding number (for region comparisons)
WindingOf(P, q) == Winding(P, q)
GroupWinding(G, q) == [i \in DOMAIN G |-> Winding(G[i], q)]
=============================================================================
