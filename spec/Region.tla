-------------------------------- MODULE Region --------------------------------
(***************************************************************************)
(* Membership semantics of polygons and polygon groups on exact integer    *)
(* points (Base.tla), and the measures derived from vertex lists.          *)
(* A polygon is a sequence of points, implicitly closed; a group is a      *)
(* sequence of polygons.                                                   *)
(***************************************************************************)
EXTENDS Base

\* ---- single polygon (C14) -------------------------------------------------
Inside(P, q) == InsidePoly(P, q)             \* on an edge / vertex, or winding # 0
\* ---- groups ----------------------------------------------------------------
InGroup(G, q) == \E i \in DOMAIN G : Inside(G[i], q)
InsideEach(G, pts) == [i \in DOMAIN pts |-> InGroup(G, pts[i])]
AllInside(G, pts) == \A i \in DOMAIN pts : InGroup(G, pts[i])
AnyInside(G, pts) == \E i \in DOMAIN pts : InGroup(G, pts[i])
ContainAll(P, pts) == \A i \in DOMAIN pts : Inside(P, pts[i])
ContainAny(P, pts) == \E i \in DOMAIN pts : Inside(P, pts[i])

\* ---- measures -----------------------------------------------------------------
Area2(P) == Abs(SignedArea2(P))                  \* twice the area
Len2(a, b) == Dot(VSub(b, a), VSub(b, a))
\* sum over the closed edge list of floor(S * |edge|); S * perimeter lies in [lo, lo + #edges]
RECURSIVE PerimLo(_, _, _)
PerimLo(P, i, S) == IF i = 0 THEN 0
                    ELSE ISqrt(Len2(P[i], P[NextIdx(P, i)]) * S * S) + PerimLo(P, i - 1, S)
PerimeterBounds(P, S) == IF Len(P) < 3 THEN <<0, 0>> ELSE <<PerimLo(P, Len(P), S), PerimLo(P, Len(P), S) + Len(P)>>

\* strict interior / exterior with winding number (for region comparisons)
WindingOf(P, q) == Winding(P, q)
GroupWinding(G, q) == [i \in DOMAIN G |-> Winding(G[i], q)]
\* ---- region comparison on sample points (C05 C12 C13) ---------------------------------
\* Everything below works in DOUBLED user coordinates: operand vertices are even, sample
\* points are odd (cell centres), so a sample never lies on an axis-parallel edge or on a
\* vertex.  S is the scaling of the operation (grid = 1/S user unit = 2/S doubled units).
IsAxisParallel(a, b) == a[1] = b[1] \/ a[2] = b[2]
\* squared distance from q to segment ab, as a comparison  dist > g  with g = 3/S doubled units
\* (= 1.5 grid units), by cross-multiplication; all products fit 31 bits for S <= 100 and
\* coordinates below 64
FarFromSeg(a, b, q, S) ==
    LET ab == VSub(b, a)
        aq == VSub(q, a)
        len2 == Dot(ab, ab)
        t == Dot(aq, ab)
    IN  IF len2 = 0 THEN Dot(aq, aq) * S * S > 9
        ELSE IF t <= 0 THEN Dot(aq, aq) * S * S > 9
        ELSE IF t >= len2 THEN Dot(VSub(q, b), VSub(q, b)) * S * S > 9
        ELSE LET c == Cross(ab, aq) IN
             \* |c| / sqrt(len2) > 3 / S   <=>   c^2 S^2 > 9 len2
             IF c * c >= 9 * len2 THEN TRUE ELSE c * c * S * S > 9 * len2
Edges(P) == {<<P[i], P[NextIdx(P, i)]>> : i \in DOMAIN P}
GroupEdges(G) == UNION {Edges(G[i]) : i \in DOMAIN G}
\* a sample is decisive when it is farther than 1.5 grid units from every operand edge that is
\* not axis-parallel (only those can produce rounded intersection points)
Far(G, q, S) == \A e \in GroupEdges(G) : IsAxisParallel(e[1], e[2]) \/ FarFromSeg(e[1], e[2], q, S)

Samples(lo, hi) == {<<2 * x + 1, 2 * y + 1>> : x \in lo..hi, y \in lo..hi}
InRegion(G, q) == \E i \in DOMAIN G : Winding(G[i], q) # 0      \* q is never on a boundary here
Covering(G, q) == {i \in DOMAIN G : Winding(G[i], q) # 0}
OpHolds(op, a, b) == CASE op = "or" -> a \/ b
                       [] op = "and" -> a /\ b
                       [] op = "not" -> a /\ ~b
                       [] op = "xor" -> a # b
GroupArea2(G) == LET RECURSIVE Sum(_)
                     Sum(i) == IF i = 0 THEN 0 ELSE Area2(G[i]) + Sum(i - 1)
                 IN  Sum(Len(G))
GroupPerimLen(G) == LET RECURSIVE Sum(_)
                        Sum(i) == IF i = 0 THEN 0 ELSE PerimeterBounds(G[i], 1)[2] + Sum(i - 1)
                    IN  Sum(Len(G))
AllManhattan(G) == \A e \in GroupEdges(G) : IsAxisParallel(e[1], e[2])

\* ---- fine coordinates ---------------------------------------------------------------------
\* For an operation with scaling S (grid = 1/S user unit) everything is mapped to FINE units of
\* 1/(2S) user unit: user integer x -> 2 S x, grid integer r -> 2 r, and sample points are ODD, so
\* that a sample can never lie on a grid line (cut line, rounded vertex, axis-parallel edge).
FineOfUser(G, S) == [i \in DOMAIN G |-> [k \in DOMAIN G[i] |-> <<2 * S * G[i][k][1], 2 * S * G[i][k][2]>>]]
FineOfGrid(G) == [i \in DOMAIN G |-> [k \in DOMAIN G[i] |-> <<2 * G[i][k][1], 2 * G[i][k][2]>>]]
FineSample(x, y, S) == LET o == IF S % 2 = 0 THEN 1 ELSE 0 IN <<S * (2 * x + 1) + o, S * (2 * y + 1) + o>>
FineSamples(lo, hi, S) == {FineSample(x, y, S) : x \in lo..hi, y \in lo..hi}
\* farther than 3 fine units (= 1.5 grid units) from segment ab; products kept inside 31 bits
FarFromSegU(a, b, q) ==
    LET ab == VSub(b, a)
        aq == VSub(q, a)
        bq == VSub(q, b)
        len2 == Dot(ab, ab)
        t == Dot(aq, ab)
        NearPt(v) == Abs(v[1]) <= 3 /\ Abs(v[2]) <= 3 /\ Dot(v, v) <= 9
    IN  IF len2 = 0 \/ t <= 0 THEN ~NearPt(aq)
        ELSE IF t >= len2 THEN ~NearPt(bq)
        ELSE LET c == Abs(Cross(ab, aq)) IN
             IF c >= 3 * (Abs(ab[1]) + Abs(ab[2])) THEN TRUE ELSE c * c > 9 * len2
FarU(G, q) == \A e \in GroupEdges(G) : IsAxisParallel(e[1], e[2]) \/ FarFromSegU(e[1], e[2], q)

\* ---- distances (C13): conservative integer tests in fine units --------------------------------
\* CloserThan => dist(q, segment ab) < T ;  FartherThan => dist(q, segment ab) > T
SegCloserThan(a, b, q, T) ==
    LET ab == VSub(b, a)
        aq == VSub(q, a)
        bq == VSub(q, b)
        len2 == Dot(ab, ab)
        t == Dot(aq, ab)
    IN  IF len2 = 0 \/ t <= 0 THEN Dot(aq, aq) < T * T
        ELSE IF t >= len2 THEN Dot(bq, bq) < T * T
        ELSE Abs(Cross(ab, aq)) < T * ISqrt(len2)
SegFartherThan(a, b, q, T) ==
    LET ab == VSub(b, a)
        aq == VSub(q, a)
        bq == VSub(q, b)
        len2 == Dot(ab, ab)
        t == Dot(aq, ab)
    IN  IF len2 = 0 \/ t <= 0 THEN Dot(aq, aq) > T * T
        ELSE IF t >= len2 THEN Dot(bq, bq) > T * T
        ELSE Abs(Cross(ab, aq)) > T * (ISqrt(len2) + 1)
\* a part of a region: [outer |-> polygon, holes |-> sequence of polygons]
PartEdges(part) == Edges(part.outer) \cup GroupEdges(part.holes)
InPart(part, q) == Winding(part.outer, q) # 0 /\ \A i \in DOMAIN part.holes : Winding(part.holes[i], q) = 0
BoundaryCloserThan(part, q, T) == \E e \in PartEdges(part) : SegCloserThan(e[1], e[2], q, T)
BoundaryFartherThan(part, q, T) == \A e \in PartEdges(part) : SegFartherThan(e[1], e[2], q, T)

=============================================================================
