------------------------------ MODULE C01Trace ------------------------------
(* Validates save/load cycles of API-built libraries (C01) and the files gdstk     *)
(* writes (C03, reverse direction).  One log line = one library: write_gds, the     *)
(* file's bytes, then read_gds / write_gds / read_gds / write_gds / read_gds.       *)
(*  - the strict decoder of Gdsii.tla must accept the bytes, and what it decodes     *)
(*    must denote Norm(description)           (file agrees with the format + C03)    *)
(*  - every reloaded projection must denote Norm(description)  (C01, all cycles)     *)
(*  - unit / precision survive; timestamps are the ones requested                    *)
EXTENDS GdsApi, Json, IOUtils

Log == ndJsonDeserialize(IOEnv.TRACE)
Gen == ndJsonDeserialize(IOEnv.GEN)
VARIABLES l
Ev == Log[l]

UnitsOK(p, u) == /\ DblWithinUlps(BytesToBits(u.prec), BytesToBits(p.precision), 2)
                 /\ DblWithinUlps(BytesToBits(u.unit), BytesToBits(p.unit), 4)
Tag3(k, S) == {<<"cycle", k, x>> : x \in S}

WriteFailing(ev) ==
    LET g == Gen[ev.i + 1]
        u == UnitsPalette[g.u]
        N == Norm(g.al)
        d == Decode(ev.bytes)
        ts12 == g.ts \o g.ts
        dangling == \E i \in DOMAIN g.al.cells : \E k \in DOMAIN g.al.cells[i].refs :
                        g.al.cells[i].refs[k].kind = "name"
        okerrs == IF dangling THEN {0, 4} ELSE {0}      \* 4 = MissingReference (a warning)
    IN  (IF ev.werr = 0 /\ \A k \in DOMAIN ev.errs : ev.errs[k] \in okerrs THEN {} ELSE {<<"error_code">>})
        \cup (IF ev.fd = 0 THEN {} ELSE {<<"file_handle_leak">>})
        \cup (IF ~d.ok THEN {<<"strict_decoder_rejects_file">>}
              ELSE (IF d.tailok THEN {} ELSE {<<"garbage_after_ENDLIB">>})
                   \cup {<<"file", x>> : x \in MFailing(Meaning(d.lib), N)}
                   \cup (IF /\ GdsWithinUlps(d.lib.meters, BytesToBits(u.prec), 1)
                            /\ GdsWithinUlps(d.lib.user, BytesToBits(u.ratio), 2)
                         THEN {} ELSE {<<"units_record">>})
                   \cup (IF d.lib.time = ts12 /\ \A k \in DOMAIN d.lib.cells : d.lib.cells[k].time = ts12
                         THEN {} ELSE {<<"timestamps">>}))
        \cup UNION {Tag3(k, LibFailing(ev.projs[k], N)
                           \cup (IF UnitsOK(ev.projs[k], u) THEN {} ELSE {"unit_precision"}))
                    : k \in DOMAIN ev.projs}

Check(ev) == IF ev.e = "write" THEN WriteFailing(ev) ELSE {<<ev.e>>}
TInit == l = 1
TNext == /\ l <= Len(Log) /\ l' = l + 1
         /\ LET f == Check(Ev) IN IF f = {} THEN TRUE ELSE PrintT("REJECT " \o ToString(l) \o " " \o ToString(f))
=============================================================================
