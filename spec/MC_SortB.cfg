INIT Init
NEXT Next
CONSTANTS
  InsMax = 3
  DepthMul = 0
  MaxN = 7
  ValsS = {1, 2, 3, 4}
  Cmps = {"lt", "gt", "mod"}
INVARIANTS InvIntro
CHECK_DEADLOCK FALSE
