INIT TInit
NEXT TNext
CONSTANTS
  Names <- MCNames
  PVals <- MCPVals
  Attrs <- MCAttrs
  GStrs <- MCGStrs
  MaxLen = 0
CHECK_DEADLOCK FALSE
