------------------------------ MODULE Inflate -------------------------------
(***************************************************************************)
(* RFC 1951 "deflate" streams, as the OASIS CBLOCK record (compression      *)
(* type 0) carries them: a strict decoder (stored, fixed-Huffman and        *)
(* dynamic-Huffman blocks, LZ77 copies) written from the RFC, and two small *)
(* encoders the file generator uses (stored blocks, fixed-Huffman literal   *)
(* blocks).  Bytes are 0..255; the bit stream is least significant bit of   *)
(* each byte first; Huffman codes are packed most significant bit first.    *)
(*                                                                         *)
(* CRC-32 (ISO 3309, reflected, as zlib's crc32) and the OASIS CHECKSUM32   *)
(* (byte sum modulo 2^32) live here too: both are properties of a byte      *)
(* sequence.                                                               *)
(***************************************************************************)
EXTENDS Integers, Sequences, FiniteSets, TLC

P2(n) == 2 ^ n
BitOf(bytes, k) == (bytes[(k \div 8) + 1] \div P2(k % 8)) % 2         \* k-th bit, 0-based
NBits(bytes) == 8 * Len(bytes)
RECURSIVE BitsVal(_, _, _)
BitsVal(bytes, k, n) == IF n = 0 THEN 0 ELSE BitOf(bytes, k) + 2 * BitsVal(bytes, k + 1, n - 1)

\* ---- canonical Huffman tables (RFC 1951 3.2.2) --------------------------------------
\* lens: sequence indexed 1..n, lens[s + 1] = code length of symbol s (0 = unused)
CountLen(lens, l) == Cardinality({i \in DOMAIN lens : lens[i] = l})
RECURSIVE SymsOfLen(_, _, _)
SymsOfLen(lens, l, i) == IF i > Len(lens) THEN <<>>
                         ELSE (IF lens[i] = l THEN <<i - 1>> ELSE <<>>) \o SymsOfLen(lens, l, i + 1)
Table(lens) == [cnt |-> [l \in 1..15 |-> CountLen(lens, l)],
                syms |-> [l \in 1..15 |-> SymsOfLen(lens, l, 1)]]
\* an over-subscribed or (except for the single-code case) incomplete set of lengths is malformed
RECURSIVE KraftLeft(_, _, _)
KraftLeft(cnt, l, left) == IF l > 15 THEN left
                           ELSE LET nl == 2 * left - cnt[l] IN
                                IF nl < 0 THEN -1 ELSE KraftLeft(cnt, l + 1, nl)
TableOK(t) == KraftLeft(t.cnt, 1, 1) >= 0

\* decode one symbol starting at bit k: [ok, sym, next]
RECURSIVE DecSym(_, _, _, _, _, _)
DecSym(bytes, t, k, l, code, first) ==      \* the reference loop of RFC 1951 3.2.2 / puff.c
    IF l > 15 \/ k >= NBits(bytes) THEN [ok |-> FALSE, sym |-> 0, next |-> k]
    ELSE LET c == code + BitOf(bytes, k)
             n == t.cnt[l] IN
         IF c - n < first THEN [ok |-> TRUE, sym |-> t.syms[l][c - first + 1], next |-> k + 1]
         ELSE DecSym(bytes, t, k + 1, l + 1, 2 * c, 2 * (first + n))
Sym(bytes, t, k) == DecSym(bytes, t, k, 1, 0, 0)

LenBase == <<3, 4, 5, 6, 7, 8, 9, 10, 11, 13, 15, 17, 19, 23, 27, 31, 35, 43, 51, 59, 67, 83, 99,
             115, 131, 163, 195, 227, 258>>
LenExtra == <<0, 0, 0, 0, 0, 0, 0, 0, 1, 1, 1, 1, 2, 2, 2, 2, 3, 3, 3, 3, 4, 4, 4, 4, 5, 5, 5, 5, 0>>
DistBase == <<1, 2, 3, 4, 5, 7, 9, 13, 17, 25, 33, 49, 65, 97, 129, 193, 257, 385, 513, 769, 1025,
              1537, 2049, 3073, 4097, 6145, 8193, 12289, 16385, 24577>>
DistExtra == <<0, 0, 0, 0, 1, 1, 2, 2, 3, 3, 4, 4, 5, 5, 6, 6, 7, 7, 8, 8, 9, 9, 10, 10, 11, 11, 12,
               12, 13, 13>>

FixedLitLens == [i \in 1..288 |-> IF i <= 144 THEN 8 ELSE IF i <= 256 THEN 9 ELSE IF i <= 280 THEN 7 ELSE 8]
FixedDistLens == [i \in 1..30 |-> 5]
FixedLit == Table(FixedLitLens)
FixedDist == Table(FixedDistLens)

RECURSIVE CopyFrom(_, _, _)
CopyFrom(out, dist, n) == IF n = 0 THEN out ELSE CopyFrom(Append(out, out[Len(out) - dist + 1]), dist, n - 1)

\* symbols of one compressed block: [ok, out, next]
RECURSIVE Codes(_, _, _, _, _)
Codes(bytes, k, out, lit, dst) ==
    LET s == Sym(bytes, lit, k) IN
    IF ~s.ok THEN [ok |-> FALSE, out |-> out, next |-> k]
    ELSE IF s.sym < 256 THEN Codes(bytes, s.next, Append(out, s.sym), lit, dst)
    ELSE IF s.sym = 256 THEN [ok |-> TRUE, out |-> out, next |-> s.next]
    ELSE IF s.sym > 285 THEN [ok |-> FALSE, out |-> out, next |-> k]
    ELSE LET li == s.sym - 256
             ln == LenBase[li] + BitsVal(bytes, s.next, LenExtra[li])
             k2 == s.next + LenExtra[li]
             d == Sym(bytes, dst, k2) IN
         IF ~d.ok \/ d.sym > 29 THEN [ok |-> FALSE, out |-> out, next |-> k]
         ELSE LET dist == DistBase[d.sym + 1] + BitsVal(bytes, d.next, DistExtra[d.sym + 1])
                  k3 == d.next + DistExtra[d.sym + 1] IN
              IF dist > Len(out) \/ k3 > NBits(bytes) THEN [ok |-> FALSE, out |-> out, next |-> k]
              ELSE Codes(bytes, k3, CopyFrom(out, dist, ln), lit, dst)

\* dynamic block header (3.2.7)
ClOrder == <<16, 17, 18, 0, 8, 7, 9, 6, 10, 5, 11, 4, 12, 3, 13, 2, 14, 1, 15>>
RECURSIVE ReadLens(_, _, _, _, _)
ReadLens(bytes, k, cl, n, acc) ==      \* n code lengths through the code-length code cl
    IF Len(acc) >= n THEN [ok |-> Len(acc) = n, lens |-> acc, next |-> k]
    ELSE LET s == Sym(bytes, cl, k) IN
         IF ~s.ok THEN [ok |-> FALSE, lens |-> acc, next |-> k]
         ELSE IF s.sym < 16 THEN ReadLens(bytes, s.next, cl, n, Append(acc, s.sym))
         ELSE IF s.sym = 16 THEN
              IF Len(acc) = 0 THEN [ok |-> FALSE, lens |-> acc, next |-> k]
              ELSE LET r == 3 + BitsVal(bytes, s.next, 2) IN
                   ReadLens(bytes, s.next + 2, cl, n, acc \o [i \in 1..r |-> acc[Len(acc)]])
         ELSE IF s.sym = 17 THEN
              LET r == 3 + BitsVal(bytes, s.next, 3) IN
              ReadLens(bytes, s.next + 3, cl, n, acc \o [i \in 1..r |-> 0])
         ELSE LET r == 11 + BitsVal(bytes, s.next, 7) IN
              ReadLens(bytes, s.next + 7, cl, n, acc \o [i \in 1..r |-> 0])

Dynamic(bytes, k, out) ==
    IF k + 14 > NBits(bytes) THEN [ok |-> FALSE, out |-> out, next |-> k]
    ELSE LET nlen == BitsVal(bytes, k, 5) + 257
             ndist == BitsVal(bytes, k + 5, 5) + 1
             ncode == BitsVal(bytes, k + 10, 4) + 4
             k1 == k + 14
             cll == [s \in 1..19 |->
                       LET pos == CHOOSE j \in 1..19 : ClOrder[j] = s - 1 IN
                       IF pos <= ncode THEN BitsVal(bytes, k1 + 3 * (pos - 1), 3) ELSE 0]
             cl == Table(cll)
             rl == ReadLens(bytes, k1 + 3 * ncode, cl, nlen + ndist, <<>>) IN
         IF nlen > 286 \/ ndist > 30 \/ k1 + 3 * ncode > NBits(bytes) \/ ~TableOK(cl) \/ ~rl.ok
         THEN [ok |-> FALSE, out |-> out, next |-> k]
         ELSE LET ll == SubSeq(rl.lens, 1, nlen)
                  dl == SubSeq(rl.lens, nlen + 1, nlen + ndist)
                  lt == Table(ll)
                  dt == Table(dl) IN
              IF ll[257] = 0 \/ ~TableOK(lt) \/ ~TableOK(dt) THEN [ok |-> FALSE, out |-> out, next |-> k]
              ELSE Codes(bytes, rl.next, out, lt, dt)

RECURSIVE Blocks(_, _, _)
Blocks(bytes, k, out) ==
    IF k + 3 > NBits(bytes) THEN [ok |-> FALSE, out |-> out, next |-> k]
    ELSE LET final == BitOf(bytes, k)
             type == BitsVal(bytes, k + 1, 2)
             r == CASE type = 0 ->
                         LET b == ((k + 3 + 7) \div 8) + 1 IN          \* first byte (1-based) after padding
                         IF b + 3 > Len(bytes) THEN [ok |-> FALSE, out |-> out, next |-> k]
                         ELSE LET ln == bytes[b] + 256 * bytes[b + 1]
                                  nl == bytes[b + 2] + 256 * bytes[b + 3] IN
                              IF ln + nl # 65535 \/ b + 3 + ln > Len(bytes)
                              THEN [ok |-> FALSE, out |-> out, next |-> k]
                              ELSE [ok |-> TRUE, out |-> out \o SubSeq(bytes, b + 4, b + 3 + ln),
                                    next |-> 8 * (b + 3 + ln)]
                      [] type = 1 -> Codes(bytes, k + 3, out, FixedLit, FixedDist)
                      [] type = 2 -> Dynamic(bytes, k + 3, out)
                      [] OTHER -> [ok |-> FALSE, out |-> out, next |-> k] IN
         IF ~r.ok THEN r
         ELSE IF final = 1 THEN r
         ELSE Blocks(bytes, r.next, r.out)

\* the whole sequence must be exactly one deflate stream (trailing bits of the last byte free)
Inflate(bytes) ==
    LET r == Blocks(bytes, 0, <<>>) IN
    IF r.ok /\ (r.next + 7) \div 8 = Len(bytes) THEN [ok |-> TRUE, out |-> r.out]
    ELSE [ok |-> FALSE, out |-> <<>>]

\* ---- encoders used by the generator -------------------------------------------------
Lo(n) == n % 256
Hi(n) == n \div 256
StoredBlock(data, final) ==
    <<IF final THEN 1 ELSE 0, Lo(Len(data)), Hi(Len(data)), Lo(65535 - Len(data)), Hi(65535 - Len(data))>> \o data
DeflateStored(data) == StoredBlock(data, TRUE)
DeflateStored2(data, cut) ==        \* two stored blocks
    StoredBlock(SubSeq(data, 1, cut), FALSE) \o StoredBlock(SubSeq(data, cut + 1, Len(data)), TRUE)

MsbBits(v, n) == [i \in 1..n |-> (v \div P2(n - i)) % 2]
FixedLitCode(s) == IF s < 144 THEN MsbBits(48 + s, 8)
                   ELSE IF s < 256 THEN MsbBits(400 + (s - 144), 9)
                   ELSE IF s < 280 THEN MsbBits(s - 256, 7)
                   ELSE MsbBits(192 + (s - 280), 8)
RECURSIVE LitBits(_, _)
LitBits(data, i) == IF i > Len(data) THEN FixedLitCode(256) ELSE FixedLitCode(data[i]) \o LitBits(data, i + 1)
PackBits(bits) ==
    LET n == (Len(bits) + 7) \div 8
        B(j) == IF j <= Len(bits) THEN bits[j] ELSE 0 IN
    [b \in 1..n |-> B(8 * b - 7) + 2 * B(8 * b - 6) + 4 * B(8 * b - 5) + 8 * B(8 * b - 4)
                    + 16 * B(8 * b - 3) + 32 * B(8 * b - 2) + 64 * B(8 * b - 1) + 128 * B(8 * b)]
DeflateFixed(data) == PackBits(<<1, 1, 0>> \o LitBits(data, 1))
\* fixed-Huffman block whose second half repeats the first through one LZ77 copy
\* (length 3..10, distance 1..4: no extra bits):  data \o last n bytes again
FixedCopyBits(n, dist) == MsbBits(257 + (n - 3) - 256, 7) \o MsbBits(dist - 1, 5)
RECURSIVE LitOnly(_, _)
LitOnly(data, i) == IF i > Len(data) THEN <<>> ELSE FixedLitCode(data[i]) \o LitOnly(data, i + 1)
DeflateFixedWithCopy(data, n, dist) ==
    PackBits(<<1, 1, 0>> \o LitOnly(data, 1) \o FixedCopyBits(n, dist) \o FixedLitCode(256))

\* ---- CRC-32 and CHECKSUM32 --------------------------------------------------------
\* 32-bit words as sequences of 32 bits, least significant first
XorW(a, b) == [i \in 1..32 |-> (a[i] + b[i]) % 2]
ShrW(a, n) == [i \in 1..32 |-> IF i + n <= 32 THEN a[i + n] ELSE 0]
WordOf(hi16, lo16) == [i \in 1..32 |-> IF i <= 16 THEN (lo16 \div P2(i - 1)) % 2 ELSE (hi16 \div P2(i - 17)) % 2]
CrcPoly == WordOf(60856, 33568)           \* 0xEDB88320
RECURSIVE CrcEntry(_, _)
CrcEntry(w, n) == IF n = 0 THEN w
                  ELSE CrcEntry(IF w[1] = 1 THEN XorW(ShrW(w, 1), CrcPoly) ELSE ShrW(w, 1), n - 1)
CrcTable == [b \in 0..255 |-> CrcEntry(WordOf(0, b), 8)]
Ones == [i \in 1..32 |-> 1]
LowByte(w) == w[1] + 2 * w[2] + 4 * w[3] + 8 * w[4] + 16 * w[5] + 32 * w[6] + 64 * w[7] + 128 * w[8]
XorByte(a, b) == LET X(i) == (((a \div P2(i)) % 2) + ((b \div P2(i)) % 2)) % 2 IN
                 X(0) + 2 * X(1) + 4 * X(2) + 8 * X(3) + 16 * X(4) + 32 * X(5) + 64 * X(6) + 128 * X(7)
RECURSIVE CrcRun(_, _, _, _)
CrcRun(bytes, i, n, w) == IF i > n THEN w
                          ELSE CrcRun(bytes, i + 1, n, XorW(CrcTable[XorByte(LowByte(w), bytes[i])], ShrW(w, 8)))
WordBytesLE(w) == [k \in 1..4 |-> LET o == 8 * (k - 1) IN
                     w[o + 1] + 2 * w[o + 2] + 4 * w[o + 3] + 8 * w[o + 4] + 16 * w[o + 5]
                     + 32 * w[o + 6] + 64 * w[o + 7] + 128 * w[o + 8]]
\* CRC-32 of bytes[1..n], as its 4 little-endian bytes
Crc32LE(bytes, n) == WordBytesLE(XorW(CrcRun(bytes, 1, n, Ones), Ones))
\* byte sum modulo 2^32 of bytes[1..n], 4 little-endian bytes (sums here stay far below 2^31)
RECURSIVE SumRun(_, _, _)
SumRun(bytes, i, n) == IF i > n THEN 0 ELSE bytes[i] + SumRun(bytes, i + 1, n)
Checksum32LE(bytes, n) == LET s == SumRun(bytes, 1, n) IN
                          <<s % 256, (s \div 256) % 256, (s \div 65536) % 256, (s \div 16777216) % 256>>
=============================================================================
