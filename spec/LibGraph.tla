------------------------------ MODULE LibGraph ------------------------------
(***************************************************************************)
(* The cell graph of a gdstk Library and its editing / query API           *)
(* (src/library.cpp, src/cell.cpp, src/rawcell.cpp).                        *)
(*                                                                         *)
(* Objects are cells ("c1".."c5") and raw cells ("r1".."r3"), inside or     *)
(* outside the library.  A reference is [kind, tgt]:                        *)
(*    kind = "cell" : tgt is a cell object   (ReferenceType::Cell)          *)
(*    kind = "raw"  : tgt is a raw-cell object (ReferenceType::RawCell)     *)
(*    kind = "name" : tgt is a name string   (ReferenceType::Name)          *)
(* and DESIGNATES an object: the pointer target, or the library member      *)
(* (cell or raw cell) carrying that name, or "none".                        *)
(* The ghost variable intent records, per reference of every member cell,   *)
(* the object its author meant; edits must keep Designates = intent.        *)
(***************************************************************************)
EXTENDS Naturals, Sequences, FiniteSets, TLC

CONSTANTS Cells, Raws,        \* object ids (strings)
          NewNames,           \* fresh names available to Rename
          TagMaps,            \* tag remappings: records [id, f] with f a function Tag -> Tag
          MaxLen

VARIABLES members,   \* cells in the library          (cell_array, as a set)
          rmembers,  \* raw cells in the library      (rawcell_array)
          name,      \* [object -> name]
          refs,      \* [cell -> sequence of references]
          shapes,    \* [cell -> sequence of tags of its polygons]
          labels,    \* [cell -> sequence of tags of its labels]
          rawdeps,   \* [raw cell -> set of raw cells]  fixed when the raw cell was read
          intent,    \* ghost [cell -> sequence of objects or "none"], aligned with refs
          hist
vars == <<members, rmembers, name, refs, shapes, labels, rawdeps, intent, hist>>
view == <<members, rmembers, name, refs, shapes, labels>>

Objects == Cells \cup Raws
None == "none"

Ref(k, t) == [kind |-> k, tgt |-> t]

\* ---- designation -----------------------------------------------------------
MemberNamed(mem, rmem, nm, n) ==
    LET s == {o \in mem \cup rmem : nm[o] = n} IN
    IF s = {} THEN None ELSE CHOOSE o \in s : TRUE
DesigIn(mem, rmem, nm, r) ==
    IF r.kind = "name" THEN MemberNamed(mem, rmem, nm, r.tgt) ELSE r.tgt
Designates(r) == DesigIn(members, rmembers, name, r)

\* names are unique among library members (gdstk's documented requirement)
UniqueNames == \A a, b \in members \cup rmembers : name[a] = name[b] => a = b

\* ---- graph queries (the definitions the property states) --------------------
Range(s) == {s[i] : i \in DOMAIN s}
DesigSet(c) == {Designates(refs[c][i]) : i \in DOMAIN refs[c]} \ {None}

\* cells referenced BY POINTER (what a cell-level query can see without a library)
PtrCells(c) == {refs[c][i].tgt : i \in {j \in DOMAIN refs[c] : refs[c][j].kind = "cell"}}
PtrRaws(c)  == {refs[c][i].tgt : i \in {j \in DOMAIN refs[c] : refs[c][j].kind = "raw"}}

RECURSIVE ReachCells(_, _)
ReachCells(front, seen) ==
    LET nxt == (UNION {PtrCells(c) : c \in front}) \ seen IN
    IF nxt = {} THEN seen ELSE ReachCells(nxt, seen \cup nxt)
DepsDirect(c) == PtrCells(c)
DepsRec(c) == ReachCells({c}, {})      \* transitive closure (c itself only if on a cycle)

RECURSIVE ReachRaws(_, _)
ReachRaws(front, seen) ==
    LET nxt == (UNION {rawdeps[r] : r \in front}) \ seen IN
    IF nxt = {} THEN seen ELSE ReachRaws(nxt, seen \cup nxt)
RawDepsDirect(c) == PtrRaws(c)
RawDepsRec(c) ==
    LET cs == {c} \cup DepsRec(c)
        direct == UNION {PtrRaws(x) : x \in cs}
    IN  ReachRaws(direct, direct)

\* top level: members that no member of the library references, by pointer or by name
ReferencedByMembers ==
    (UNION {DesigSet(c) : c \in members}) \cup (UNION {rawdeps[r] : r \in rmembers})
TopCells == members \ ReferencedByMembers
TopRaws == rmembers \ ReferencedByMembers

ShapeTags == UNION {Range(shapes[c]) : c \in members}
LabelTags == UNION {Range(labels[c]) : c \in members}

\* does cell x depend (through any kind of reference, in the current library) on object o ?
RECURSIVE ReachAny(_, _)
ReachAny(front, seen) ==
    LET nxt == (UNION {IF x \in Cells THEN DesigSet(x) ELSE rawdeps[x] : x \in front}) \ seen IN
    IF nxt = {} THEN seen ELSE ReachAny(nxt, seen \cup nxt)
DependsOn(x, o) == o \in ReachAny({x}, {})

-----------------------------------------------------------------------------
H(op, a, b) == [op |-> op, a |-> a, b |-> b]

\* rename_cell(cell, new_name): by-name references of member cells follow the cell
Rename(c, n) ==
    /\ c \in members
    /\ \A o \in Objects : name[o] # n
    /\ \A x \in Cells : \A i \in DOMAIN refs[x] : ~(refs[x][i].kind = "name" /\ refs[x][i].tgt = n)
    /\ name' = [name EXCEPT ![c] = n]
    /\ refs' = [x \in Cells |->
                  IF x \in members
                  THEN [i \in DOMAIN refs[x] |->
                          IF refs[x][i].kind = "name" /\ refs[x][i].tgt = name[c]
                          THEN Ref("name", n) ELSE refs[x][i]]
                  ELSE refs[x]]
    /\ UNCHANGED <<members, rmembers, shapes, labels, rawdeps, intent>>
    /\ hist' = Append(hist, H("rename", c, n))

\* replace_cell(old, new) in its four overloads: new takes old's place; every reference of a
\* member cell that designated old designates new afterwards.
KindOf(o) == IF o \in Cells THEN "cell" ELSE "raw"
\* Two libraries may share cells (Library::copy_from(lib, false)).  When the OTHER library replaces
\* member X by an object of the other kind carrying X's name, the shared cells' references to X
\* now point at that object, which is not a member here: a STALE designation of this library's X.
\* gdstk resolves it by name: each replace_cell overload matches references of old's own kind by
\* pointer and references of the other kind by the target's name, and re-binds (and re-types)
\* both to the new object.
StaleFor(r, old) == /\ r.kind # "name" /\ r.kind # KindOf(old)
                    /\ r.tgt \notin members \cup rmembers
                    /\ name[r.tgt] = name[old]
EverReplaced == {hist[i].a : i \in {j \in DOMAIN hist : hist[j].op = "replace"}}
Replace(old, new) ==
    /\ old \in members \cup rmembers
    /\ new \in Objects \ (members \cup rmembers)
    \* an object that was replaced away is not brought back: its own references were not
    \* maintained while it was outside the library
    /\ new \notin EverReplaced
    /\ new \in Cells => (PtrCells(new) \cup PtrRaws(new)) \cap EverReplaced = {}
    /\ \A o \in (members \cup rmembers) \ {old} : name[o] # name[new]
    /\ new \in Cells => ~DependsOn(new, old)
    /\ new \in Raws => old \notin ReachRaws({new}, {})
    \* a raw cell that other raw cells of the library need cannot be replaced: their bytes are
    \* immutable and name it
    /\ \A r \in rmembers \ {old} : old \notin rawdeps[r]
    \* the new name must not already be used by dangling by-name references meaning something else
    /\ name[new] # name[old] =>
          \A x \in members : \A i \in DOMAIN refs[x] :
              ~(refs[x][i].kind = "name" /\ refs[x][i].tgt = name[new])
    /\ LET mem2 == (members \ {old}) \cup (IF new \in Cells THEN {new} ELSE {})
           rmem2 == (rmembers \ {old}) \cup (IF new \in Raws THEN {new} ELSE {})
           Rew(r) == IF r.kind = "name"
                     THEN (IF r.tgt = name[old] THEN Ref("name", name[new]) ELSE r)
                     ELSE (IF r.tgt = old \/ StaleFor(r, old) THEN Ref(KindOf(new), new) ELSE r)
       IN  /\ members' = mem2 /\ rmembers' = rmem2
           /\ refs' = [x \in Cells |->
                         IF x \in mem2 THEN [i \in DOMAIN refs[x] |-> Rew(refs[x][i])]
                         ELSE refs[x]]
           /\ intent' = [x \in Cells |->
                           IF x = new
                           THEN [i \in DOMAIN refs[x] |->
                                   DesigIn(mem2, rmem2, name, Rew(refs[x][i]))]
                           ELSE IF x \in mem2
                           THEN [i \in DOMAIN intent[x] |->
                                   IF intent[x][i] = old \/ StaleFor(refs[x][i], old)
                                   THEN new ELSE intent[x][i]]
                           ELSE intent[x]]
    /\ UNCHANGED <<name, shapes, labels, rawdeps>>
    /\ hist' = Append(hist, H("replace", old, new))

Remap(m) ==
    /\ shapes' = [c \in Cells |-> IF c \in members
                                  THEN [i \in DOMAIN shapes[c] |-> m.f[shapes[c][i]]]
                                  ELSE shapes[c]]
    /\ labels' = [c \in Cells |-> IF c \in members
                                  THEN [i \in DOMAIN labels[c] |-> m.f[labels[c][i]]]
                                  ELSE labels[c]]
    /\ UNCHANGED <<members, rmembers, name, refs, rawdeps, intent>>
    /\ hist' = Append(hist, H("remap", m.id, ""))

\* cell_array.append / remove_item: plain array edits (no gdstk logic), kept to vary the library
Add(c) ==
    /\ c \in Cells \ members
    /\ c \notin EverReplaced
    /\ (PtrCells(c) \cup PtrRaws(c)) \cap EverReplaced = {}
    /\ \A o \in members \cup rmembers : name[o] # name[c]
    /\ members' = members \cup {c}
    /\ intent' = [intent EXCEPT ![c] =
                    [i \in DOMAIN refs[c] |->
                        DesigIn(members \cup {c}, rmembers, name, refs[c][i])]]
    /\ UNCHANGED <<rmembers, name, refs, shapes, labels, rawdeps>>
    /\ hist' = Append(hist, H("add", c, ""))
    \* adding a cell must not capture dangling by-name references that meant nothing
    /\ \A x \in members : \A i \in DOMAIN refs[x] :
          ~(refs[x][i].kind = "name" /\ refs[x][i].tgt = name[c])

Remove(c) ==
    /\ c \in TopCells
    /\ members' = members \ {c}
    /\ UNCHANGED <<rmembers, name, refs, shapes, labels, rawdeps, intent>>
    /\ hist' = Append(hist, H("remove", c, ""))

\* cell_array.remove_item of a cell that member cells still reference BY POINTER (by-name references
\* to it would lose their meaning, so those histories are left out): the references keep designating
\* the object, which is no longer a member
RemoveReferenced(c) ==
    /\ c \in members \ TopCells
    /\ \A x \in members : \A i \in DOMAIN refs[x] :
          ~(refs[x][i].kind = "name" /\ refs[x][i].tgt = name[c])
    /\ \A r \in rmembers : c \notin rawdeps[r]
    /\ members' = members \ {c}
    /\ UNCHANGED <<rmembers, name, refs, shapes, labels, rawdeps, intent>>
    /\ hist' = Append(hist, H("remove", c, ""))
\* replace_cell(old, new) for a cell that is NOT in the library (it was removed): "new_cell is not
\* inserted either, but references are updated anyway" (library.hpp)
ReplaceAbsent(old, new) ==
    /\ old \in Cells \ members /\ new \in Cells \ members /\ old # new
    /\ \E x \in members : old \in PtrCells(x)
    /\ new \notin EverReplaced /\ old \notin EverReplaced
    /\ (PtrCells(new) \cup PtrRaws(new)) \cap EverReplaced = {}
    /\ ~DependsOn(new, old)
    /\ \A x \in members : ~DependsOn(new, x)
    \* no by-name reference carries either name (the name rewriting is then without effect)
    /\ \A x \in members : \A i \in DOMAIN refs[x] :
          ~(refs[x][i].kind = "name" /\ refs[x][i].tgt \in {name[old], name[new]})
    \* (the absent cell's name is not the name of a raw cell that member cells reference: the name
    \* match of the other-kind references would then re-bind references that never meant old)
    /\ \A x \in members : \A i \in DOMAIN refs[x] :
          refs[x][i].kind = "raw" => name[refs[x][i].tgt] # name[old]
    /\ LET Rew(r) == IF r.kind = "cell" /\ r.tgt = old THEN Ref("cell", new) ELSE r IN
       /\ refs' = [x \in Cells |-> IF x \in members THEN [i \in DOMAIN refs[x] |-> Rew(refs[x][i])] ELSE refs[x]]
       /\ intent' = [x \in Cells |-> IF x \in members
                                     THEN [i \in DOMAIN intent[x] |-> IF intent[x][i] = old THEN new ELSE intent[x][i]]
                                     ELSE intent[x]]
    /\ UNCHANGED <<members, rmembers, name, shapes, labels, rawdeps>>
    /\ hist' = Append(hist, H("replace", old, new))

\* Copies are observations: the harness copies, projects the copy, mutates the copy and
\* projects the source again; the state of the library under test does not change.
CopyLib(deep) == /\ UNCHANGED <<members, rmembers, name, refs, shapes, labels, rawdeps, intent>>
                 /\ hist' = Append(hist, H("copylib", IF deep THEN "deep" ELSE "shallow", ""))
CopyCell(c, deep) ==
    /\ c \in members
    /\ UNCHANGED <<members, rmembers, name, refs, shapes, labels, rawdeps, intent>>
    /\ hist' = Append(hist, H("copycell", c, IF deep THEN "deep" ELSE "shallow"))

Next == \/ \E c \in Cells, n \in NewNames : Rename(c, n)
        \/ \E o, p \in Objects : Replace(o, p)
        \/ \E m \in TagMaps : Remap(m)
        \/ \E c \in Cells : Add(c) \/ Remove(c) \/ RemoveReferenced(c)
        \/ \E o, p \in Cells : ReplaceAbsent(o, p)
        \/ \E d \in BOOLEAN : CopyLib(d)
        \/ \E c \in Cells, d \in BOOLEAN : CopyCell(c, d)

Bounded == Len(hist) <= MaxLen

-----------------------------------------------------------------------------
(* Invariants (the property, as theorems of the specification)               *)

\* every reference of every member cell designates what its author meant
IntentOK == \A c \in members : \A i \in DOMAIN refs[c] :
                Designates(refs[c][i]) = intent[c][i]
\* no pointer reference of a member cell designates an object that was replaced away:
\* intent never names an object that left the library through Replace (ghost kept in hist)
ReplacedAway == {hist[i].a : i \in {j \in DOMAIN hist : hist[j].op = "replace"}}
                  \ (members \cup rmembers)
NoStaleRef == \A c \in members : \A i \in DOMAIN refs[c] :
                 Designates(refs[c][i]) \notin ReplacedAway
TopLevelSound == /\ TopCells \subseteq members /\ TopRaws \subseteq rmembers
                 /\ (members # {} /\ \A c \in members : ~DependsOn(c, c)) => TopCells # {}
DepsTransitive == \A c \in members : DepsDirect(c) \subseteq DepsRec(c)
                     /\ \A d \in DepsRec(c) : PtrCells(d) \subseteq DepsRec(c)
=============================================================================
