-------------------------------- MODULE Oasis --------------------------------
(***************************************************************************)
(* The OASIS stream format (SEMI P39) as an abstract machine:               *)
(*                                                                         *)
(*   bytes --Records--> record sequence --Step (modal machine)--> layout    *)
(*                                                                         *)
(* Records(b) is a STRICT parser: magic, START, every record layout with    *)
(* its info byte, CBLOCKs (inflated with Inflate.tla), END of exactly 256   *)
(* bytes.  Step is the modal-variable machine of the format definition:     *)
(* one case per record kind, every element field either explicit in the     *)
(* record or taken from the modal variable its kind names; using a modal    *)
(* variable that is undefined makes the file illegal ("bad").  Finish       *)
(* resolves reference numbers through the four name tables.  Ser* are the   *)
(* matching serialisers used by the file generator (MC_Oasis).              *)
(*                                                                         *)
(* Coordinates are integers in grid units; anything that may be wide on the *)
(* wire (layer numbers, property integers, reals) stays a bit sequence.     *)
(***************************************************************************)
EXTENDS Codec, Inflate

Magic == <<37, 83, 69, 77, 73, 45, 79, 65, 83, 73, 83, 13, 10>>      \* "%SEMI-OASIS\r\n"
Has(info, mask) == (info \div mask) % 2 = 1
Max(a, b) == IF a > b THEN a ELSE b
Min(a, b) == IF a < b THEN a ELSE b

\* ---- primitive field readers:  [ok, v, next] ------------------------------------------
Fail(p) == [ok |-> FALSE, v |-> 0, next |-> p]
\* unsigned integer that has to be small here (counts, sizes, reference numbers, offsets)
RdU(b, p) == LET d == DecUnsignedAt(b, p) IN
             IF d.ok /\ Len(d.v) <= 30 THEN [ok |-> TRUE, v |-> ToInt(d.v), next |-> d.next] ELSE Fail(p)
\* unsigned integer kept wide (layer, datatype, property values)
RdW(b, p) == LET d == DecUnsignedAt(b, p) IN
             IF d.ok THEN [ok |-> TRUE, v |-> d.v, next |-> d.next] ELSE Fail(p)
RdS(b, p) == LET d == DecSignedAt(b, p) IN
             IF d.ok /\ Len(d.v.mag) <= 30 THEN [ok |-> TRUE, v |-> SInt(d.v), next |-> d.next] ELSE Fail(p)
RdSW(b, p) == LET d == DecSignedAt(b, p) IN
              IF d.ok THEN [ok |-> TRUE, v |-> d.v, next |-> d.next] ELSE Fail(p)
RdByte(b, p) == IF p <= Len(b) THEN [ok |-> TRUE, v |-> b[p], next |-> p + 1] ELSE Fail(p)
RdStr(b, p) == LET n == RdU(b, p) IN
               IF n.ok /\ n.next + n.v - 1 <= Len(b)
               THEN [ok |-> TRUE, v |-> SubSeq(b, n.next, n.next + n.v - 1), next |-> n.next + n.v]
               ELSE Fail(p)
\* a real value: [kind |-> "ratio", neg, a, b] (a / b, bit naturals) or [kind |-> "single" | "double", bits]
RdReal(b, p) == LET d == DecRealAt(b, p) IN
                IF ~d.ok THEN Fail(p)
                ELSE [ok |-> TRUE, next |-> d.next,
                      v |-> IF d.kind = "ratio" THEN [kind |-> "ratio", neg |-> d.neg, a |-> d.a, b |-> d.b]
                            ELSE [kind |-> d.kind, bits |-> d.bits]]
RdG(b, p) == LET d == DecGDeltaAt(b, p) IN
             IF d.ok /\ Len(d.v.x.mag) <= 30 /\ Len(d.v.y.mag) <= 30
             THEN [ok |-> TRUE, v |-> <<SInt(d.v.x), SInt(d.v.y)>>, next |-> d.next] ELSE Fail(p)

\* point list: [ok, v |-> vertices relative to the first one (which is <<0,0>>, included), next]
DeltaPairs(kind, ds) == [i \in DOMAIN ds |-> IF kind = 1 THEN SInt(ds[i]) ELSE <<SInt(ds[i].x), SInt(ds[i].y)>>]
RdPointList(b, p, closed) ==
    LET t == RdByte(b, p)
        n == RdU(b, t.next) IN
    IF ~t.ok \/ ~n.ok \/ t.v > 5 THEN Fail(p)
    ELSE LET kind == CASE t.v \in {0, 1} -> 1 [] t.v = 2 -> 2 [] t.v = 3 -> 3 [] OTHER -> 4
             dd == DecDeltas(b, n.next, n.v, kind, <<>>) IN
         IF ~dd.ok THEN Fail(p)
         ELSE [ok |-> TRUE, v |-> PLVertices(t.v, DeltaPairs(kind, dd.ds), closed), next |-> dd.next]

\* repetition: [ok, v |-> [t |-> type, offs |-> displacements of all instances, first <<0,0>>], next]
RECURSIVE RdUs(_, _, _, _)
RdUs(b, p, n, acc) == IF n = 0 THEN [ok |-> TRUE, v |-> acc, next |-> p]
                      ELSE LET d == RdU(b, p) IN
                           IF ~d.ok THEN Fail(p) ELSE RdUs(b, d.next, n - 1, Append(acc, d.v))
RECURSIVE RdGs(_, _, _, _)
RdGs(b, p, n, acc) == IF n = 0 THEN [ok |-> TRUE, v |-> acc, next |-> p]
                      ELSE LET d == RdG(b, p) IN
                           IF ~d.ok THEN Fail(p) ELSE RdGs(b, d.next, n - 1, Append(acc, d.v))
RECURSIVE Cumul(_, _, _, _)
Cumul(ds, i, cur, acc) == IF i > Len(ds) THEN acc
                          ELSE LET nx == cur + ds[i] IN Cumul(ds, i + 1, nx, Append(acc, nx))
RECURSIVE Cumul2(_, _, _, _)
Cumul2(ds, i, cur, acc) == IF i > Len(ds) THEN acc
                           ELSE LET nx == <<cur[1] + ds[i][1], cur[2] + ds[i][2]>> IN
                                Cumul2(ds, i + 1, nx, Append(acc, nx))
\* nx columns along a, ny rows along b; instance (i, j) at i*a + j*b, column index fastest
Lattice(nx, ny, a, b) == [k \in 1..(nx * ny) |->
                            LET i == (k - 1) % nx
                                j == (k - 1) \div nx IN
                            <<i * a[1] + j * b[1], i * a[2] + j * b[2]>>]
RdRepetition(b, p) ==
    LET t == RdByte(b, p) IN
    IF ~t.ok \/ t.v > 11 THEN Fail(p)
    ELSE CASE t.v = 0 -> [ok |-> TRUE, v |-> [t |-> 0, offs |-> <<>>], next |-> t.next]
      [] t.v = 1 -> LET f == RdUs(b, t.next, 4, <<>>) IN
                    IF ~f.ok THEN Fail(p)
                    ELSE [ok |-> TRUE, next |-> f.next,
                          v |-> [t |-> 1, offs |-> Lattice(f.v[1] + 2, f.v[2] + 2, <<f.v[3], 0>>, <<0, f.v[4]>>)]]
      [] t.v = 2 -> LET f == RdUs(b, t.next, 2, <<>>) IN
                    IF ~f.ok THEN Fail(p)
                    ELSE [ok |-> TRUE, next |-> f.next,
                          v |-> [t |-> 2, offs |-> Lattice(f.v[1] + 2, 1, <<f.v[2], 0>>, <<0, 0>>)]]
      [] t.v = 3 -> LET f == RdUs(b, t.next, 2, <<>>) IN
                    IF ~f.ok THEN Fail(p)
                    ELSE [ok |-> TRUE, next |-> f.next,
                          v |-> [t |-> 3, offs |-> Lattice(1, f.v[1] + 2, <<0, 0>>, <<0, f.v[2]>>)]]
      [] t.v \in {4, 5, 6, 7} ->
                    LET n == RdU(b, t.next)
                        g == IF t.v \in {5, 7} THEN RdU(b, n.next) ELSE [ok |-> TRUE, v |-> 1, next |-> n.next]
                        f == IF n.ok /\ g.ok THEN RdUs(b, g.next, n.v + 1, <<>>) ELSE Fail(p) IN
                    IF ~n.ok \/ ~g.ok \/ ~f.ok THEN Fail(p)
                    ELSE LET cs == Cumul([i \in DOMAIN f.v |-> g.v * f.v[i]], 1, 0, <<0>>) IN
                         [ok |-> TRUE, next |-> f.next,
                          v |-> [t |-> t.v, offs |-> [i \in DOMAIN cs |-> IF t.v \in {4, 5} THEN <<cs[i], 0>>
                                                                          ELSE <<0, cs[i]>>]]]
      [] t.v = 8 -> LET f == RdUs(b, t.next, 2, <<>>)
                        g == IF f.ok THEN RdGs(b, f.next, 2, <<>>) ELSE Fail(p) IN
                    IF ~f.ok \/ ~g.ok THEN Fail(p)
                    ELSE [ok |-> TRUE, next |-> g.next,
                          v |-> [t |-> 8, offs |-> Lattice(f.v[1] + 2, f.v[2] + 2, g.v[1], g.v[2])]]
      [] t.v = 9 -> LET f == RdU(b, t.next)
                        g == IF f.ok THEN RdG(b, f.next) ELSE Fail(p) IN
                    IF ~f.ok \/ ~g.ok THEN Fail(p)
                    ELSE [ok |-> TRUE, next |-> g.next,
                          v |-> [t |-> 9, offs |-> Lattice(f.v + 2, 1, g.v, <<0, 0>>)]]
      [] OTHER ->   LET n == RdU(b, t.next)
                        g == IF t.v = 11 THEN RdU(b, n.next) ELSE [ok |-> TRUE, v |-> 1, next |-> n.next]
                        f == IF n.ok /\ g.ok THEN RdGs(b, g.next, n.v + 1, <<>>) ELSE Fail(p) IN
                    IF ~n.ok \/ ~g.ok \/ ~f.ok THEN Fail(p)
                    ELSE [ok |-> TRUE, next |-> f.next,
                          v |-> [t |-> t.v,
                                 offs |-> Cumul2([i \in DOMAIN f.v |-> <<g.v * f.v[i][1], g.v * f.v[i][2]>>],
                                                 1, <<0, 0>>, << <<0, 0>> >>)]]

\* ---- record reader -------------------------------------------------------------------
\* A reader state is [ok, p, f]: f a record of the fields read so far (defaults for absent ones).
\* Field combinators: read the field only when cond holds.
Opt(st, cond, name, rd) == IF ~st.ok \/ ~cond THEN st
                           ELSE IF ~rd.ok THEN [st EXCEPT !.ok = FALSE]
                           ELSE [ok |-> TRUE, p |-> rd.next, f |-> (name :> rd.v) @@ st.f]
OU(b, st, cond, name) == Opt(st, cond, name, IF st.ok /\ cond THEN RdU(b, st.p) ELSE Fail(0))
OW(b, st, cond, name) == Opt(st, cond, name, IF st.ok /\ cond THEN RdW(b, st.p) ELSE Fail(0))
OS(b, st, cond, name) == Opt(st, cond, name, IF st.ok /\ cond THEN RdS(b, st.p) ELSE Fail(0))
OStr(b, st, cond, name) == Opt(st, cond, name, IF st.ok /\ cond THEN RdStr(b, st.p) ELSE Fail(0))
OReal(b, st, cond, name) == Opt(st, cond, name, IF st.ok /\ cond THEN RdReal(b, st.p) ELSE Fail(0))
OByte(b, st, cond, name) == Opt(st, cond, name, IF st.ok /\ cond THEN RdByte(b, st.p) ELSE Fail(0))
ORep(b, st, cond) == Opt(st, cond, "rep", IF st.ok /\ cond THEN RdRepetition(b, st.p) ELSE Fail(0))
OPts(b, st, cond, closed) == Opt(st, cond, "pts", IF st.ok /\ cond THEN RdPointList(b, st.p, closed) ELSE Fail(0))

Defaults == [layer |-> <<>>, dtype |-> <<>>, w |-> 0, h |-> 0, x |-> 0, y |-> 0, rep |-> [t |-> 0, offs |-> <<>>],
             pts |-> <<>>, hw |-> 0, scheme |-> 0, es |-> 0, ee |-> 0, da |-> 0, db |-> 0, ct |-> 0,
             rad |-> 0, str |-> <<>>, num |-> 0, mag |-> [kind |-> "none"], ang |-> [kind |-> "none"],
             vals |-> <<>>, nvals |-> 0]
Start(info, p) == [ok |-> TRUE, p |-> p, f |-> ("info" :> info) @@ Defaults]

\* property values
RECURSIVE RdValues(_, _, _, _)
RdValues(b, p, n, acc) ==
    IF n = 0 THEN [ok |-> TRUE, v |-> acc, next |-> p]
    ELSE LET t == RdByte(b, p) IN
         IF ~t.ok \/ t.v > 15 THEN Fail(p)
         ELSE LET r == CASE t.v <= 7 -> LET d == RdReal(b, p) IN        \* the type byte belongs to the real
                                         [ok |-> d.ok, v |-> [t |-> "r", x |-> d.v], next |-> d.next]
                         [] t.v = 8 -> LET d == RdW(b, t.next) IN [ok |-> d.ok, v |-> [t |-> "u", x |-> d.v], next |-> d.next]
                         [] t.v = 9 -> LET d == RdSW(b, t.next) IN [ok |-> d.ok, v |-> [t |-> "i", x |-> d.v], next |-> d.next]
                         [] t.v \in {10, 11, 12} ->
                                LET d == RdStr(b, t.next) IN [ok |-> d.ok, v |-> [t |-> "s", x |-> d.v, st |-> t.v], next |-> d.next]
                         [] OTHER -> LET d == RdU(b, t.next) IN [ok |-> d.ok, v |-> [t |-> "sref", x |-> d.v, st |-> t.v], next |-> d.next]
              IN IF ~r.ok THEN Fail(p) ELSE RdValues(b, r.next, n - 1, Append(acc, r.v))

\* LAYERNAME interval
RdInterval(b, p) == LET t == RdU(b, p) IN
                    IF ~t.ok \/ t.v > 4 THEN Fail(p)
                    ELSE IF t.v = 0 THEN [ok |-> TRUE, v |-> 0, next |-> t.next]
                    ELSE LET a == RdW(b, t.next) IN
                         IF ~a.ok THEN Fail(p)
                         ELSE IF t.v < 4 THEN [ok |-> TRUE, v |-> 0, next |-> a.next]
                         ELSE LET c == RdW(b, a.next) IN IF c.ok THEN [ok |-> TRUE, v |-> 0, next |-> c.next] ELSE Fail(p)

\* One record starting at b[p] (p at the record id).  [ok, k (id), f (fields), next]
Rec(st, k) == [ok |-> st.ok, k |-> k, f |-> st.f, next |-> st.p]
NoRec(p) == [ok |-> FALSE, k |-> -1, f |-> Defaults, next |-> p]
RecordAt(b, p) ==
    LET id == b[p]
        ib == RdByte(b, p + 1)
        info == ib.v
        S0 == Start(0, p + 1)                       \* records without an info byte
        S1 == Start(info, p + 2) IN
    CASE id = 0 -> Rec(S0, 0)
      [] id \in {3, 5, 7, 9} -> Rec(OStr(b, S0, TRUE, "str"), id)
      [] id \in {4, 6, 8, 10} -> LET a == OStr(b, S0, TRUE, "str") IN Rec(OU(b, a, TRUE, "num"), id)
      [] id \in {11, 12} ->
            LET a == OStr(b, S0, TRUE, "str")
                i1 == IF a.ok THEN RdInterval(b, a.p) ELSE Fail(0)
                i2 == IF i1.ok THEN RdInterval(b, i1.next) ELSE Fail(0) IN
            [ok |-> a.ok /\ i1.ok /\ i2.ok, k |-> id, f |-> a.f, next |-> i2.next]
      [] id = 13 -> Rec(OU(b, S0, TRUE, "num"), 13)
      [] id = 14 -> Rec(OStr(b, S0, TRUE, "str"), 14)
      [] id \in {15, 16} -> Rec(S0, id)
      [] id \in {17, 18} ->
            IF ~ib.ok THEN NoRec(p)
            ELSE LET a == OU(b, S1, Has(info, 128) /\ Has(info, 64), "num")
                     c == OStr(b, a, Has(info, 128) /\ ~Has(info, 64), "str")
                     d == OReal(b, c, id = 18 /\ Has(info, 4), "mag")
                     e == OReal(b, d, id = 18 /\ Has(info, 2), "ang")
                     x == OS(b, e, Has(info, 32), "x")
                     y == OS(b, x, Has(info, 16), "y") IN
                 Rec(ORep(b, y, Has(info, 8)), id)
      [] id = 19 ->
            IF ~ib.ok \/ Has(info, 128) THEN NoRec(p)
            ELSE LET a == OU(b, S1, Has(info, 64) /\ Has(info, 32), "num")
                     c == OStr(b, a, Has(info, 64) /\ ~Has(info, 32), "str")
                     l == OW(b, c, Has(info, 1), "layer")
                     t == OW(b, l, Has(info, 2), "dtype")
                     x == OS(b, t, Has(info, 16), "x")
                     y == OS(b, x, Has(info, 8), "y") IN
                 Rec(ORep(b, y, Has(info, 4)), 19)
      [] id = 20 ->
            IF ~ib.ok \/ (Has(info, 128) /\ Has(info, 32)) THEN NoRec(p)      \* square: no height
            ELSE LET l == OW(b, S1, Has(info, 1), "layer")
                     t == OW(b, l, Has(info, 2), "dtype")
                     w == OU(b, t, Has(info, 64), "w")
                     h == OU(b, w, Has(info, 32), "h")
                     x == OS(b, h, Has(info, 16), "x")
                     y == OS(b, x, Has(info, 8), "y") IN
                 Rec(ORep(b, y, Has(info, 4)), 20)
      [] id = 21 ->
            IF ~ib.ok \/ info >= 64 THEN NoRec(p)
            ELSE LET l == OW(b, S1, Has(info, 1), "layer")
                     t == OW(b, l, Has(info, 2), "dtype")
                     q == OPts(b, t, Has(info, 32), TRUE)
                     x == OS(b, q, Has(info, 16), "x")
                     y == OS(b, x, Has(info, 8), "y") IN
                 Rec(ORep(b, y, Has(info, 4)), 21)
      [] id = 22 ->
            IF ~ib.ok THEN NoRec(p)
            ELSE LET l == OW(b, S1, Has(info, 1), "layer")
                     t == OW(b, l, Has(info, 2), "dtype")
                     w == OU(b, t, Has(info, 64), "hw")
                     s == OByte(b, w, Has(info, 128), "scheme")
                     sc == IF s.ok THEN s.f.scheme ELSE 0
                     es == OS(b, s, Has(info, 128) /\ (sc \div 4) % 4 = 3, "es")
                     ee == OS(b, es, Has(info, 128) /\ sc % 4 = 3, "ee")
                     q == OPts(b, ee, Has(info, 32), FALSE)
                     x == OS(b, q, Has(info, 16), "x")
                     y == OS(b, x, Has(info, 8), "y") IN
                 IF s.ok /\ sc >= 16 THEN NoRec(p) ELSE Rec(ORep(b, y, Has(info, 4)), 22)
      [] id \in {23, 24, 25} ->
            IF ~ib.ok THEN NoRec(p)
            ELSE LET l == OW(b, S1, Has(info, 1), "layer")
                     t == OW(b, l, Has(info, 2), "dtype")
                     w == OU(b, t, Has(info, 64), "w")
                     h == OU(b, w, Has(info, 32), "h")
                     da == OS(b, h, id \in {23, 24}, "da")
                     db == OS(b, da, id \in {23, 25}, "db")
                     x == OS(b, db, Has(info, 16), "x")
                     y == OS(b, x, Has(info, 8), "y") IN
                 Rec(ORep(b, y, Has(info, 4)), id)
      [] id = 26 ->
            IF ~ib.ok THEN NoRec(p)
            ELSE LET l == OW(b, S1, Has(info, 1), "layer")
                     t == OW(b, l, Has(info, 2), "dtype")
                     c == OU(b, t, Has(info, 128), "ct")
                     w == OU(b, c, Has(info, 64), "w")
                     h == OU(b, w, Has(info, 32), "h")
                     x == OS(b, h, Has(info, 16), "x")
                     y == OS(b, x, Has(info, 8), "y") IN
                 Rec(ORep(b, y, Has(info, 4)), 26)
      [] id = 27 ->
            IF ~ib.ok \/ info >= 64 THEN NoRec(p)
            ELSE LET l == OW(b, S1, Has(info, 1), "layer")
                     t == OW(b, l, Has(info, 2), "dtype")
                     r == OU(b, t, Has(info, 32), "rad")
                     x == OS(b, r, Has(info, 16), "x")
                     y == OS(b, x, Has(info, 8), "y") IN
                 Rec(ORep(b, y, Has(info, 4)), 27)
      [] id = 28 ->
            IF ~ib.ok \/ (Has(info, 8) /\ info \div 16 # 0) THEN NoRec(p)
            ELSE LET a == OU(b, S1, Has(info, 4) /\ Has(info, 2), "num")
                     c == OStr(b, a, Has(info, 4) /\ ~Has(info, 2), "str")
                     n == OU(b, c, ~Has(info, 8) /\ info \div 16 = 15, "nvals")
                     cnt == IF ~n.ok \/ Has(info, 8) THEN 0 ELSE IF info \div 16 = 15 THEN n.f.nvals ELSE info \div 16
                     vs == IF n.ok THEN RdValues(b, n.p, cnt, <<>>) ELSE Fail(0) IN
                 IF ~n.ok \/ ~vs.ok THEN NoRec(p)
                 ELSE [ok |-> TRUE, k |-> 28, f |-> [n.f EXCEPT !.vals = vs.v, !.nvals = cnt], next |-> vs.next]
      [] id = 29 -> Rec(S0, 29)
      \* extension records: XNAME (implicit / explicit number), XELEMENT, XGEOMETRY
      [] id \in {30, 32} -> LET a == OU(b, S0, TRUE, "ct") IN Rec(OStr(b, a, TRUE, "str"), id)
      [] id = 31 -> LET a == OU(b, S0, TRUE, "ct")
                        c == OStr(b, a, TRUE, "str") IN Rec(OU(b, c, TRUE, "num"), 31)
      [] id = 33 ->
            IF ~ib.ok \/ info >= 32 THEN NoRec(p)
            ELSE LET a == OU(b, S1, TRUE, "ct")
                     l == OW(b, a, Has(info, 1), "layer")
                     t == OW(b, l, Has(info, 2), "dtype")
                     c == OStr(b, t, TRUE, "str")
                     x == OS(b, c, Has(info, 16), "x")
                     y == OS(b, x, Has(info, 8), "y") IN
                 Rec(ORep(b, y, Has(info, 4)), 33)
      [] id = 34 ->
            LET ct == OU(b, S0, TRUE, "ct")
                un == OU(b, ct, TRUE, "w")
                cn == OU(b, un, TRUE, "h") IN
            IF ~cn.ok \/ cn.f.ct # 0 \/ cn.p + cn.f.h - 1 > Len(b) THEN NoRec(p)
            ELSE [ok |-> TRUE, k |-> 34, f |-> [cn.f EXCEPT !.str = SubSeq(b, cn.p, cn.p + cn.f.h - 1)],
                  next |-> cn.p + cn.f.h]
      [] OTHER -> NoRec(p)          \* START / END out of place, X records, unknown ids

\* Records of b[p..last] in order, each with its offset (0-based file offset, or -1 inside a
\* CBLOCK).  A CBLOCK is replaced by a marker followed by the records of its inflated content,
\* which must parse completely and may not contain CBLOCK, START or END.
RECURSIVE RecordsFrom(_, _, _, _, _)
RecordsFrom(b, p, last, inblock, acc) ==
    IF p > last THEN [ok |-> TRUE, recs |-> acc, why |-> "", at |-> p]
    ELSE LET r == RecordAt(b, p) IN
         IF ~r.ok \/ r.next > last + 1 THEN [ok |-> FALSE, recs |-> acc, why |-> "malformed_record", at |-> p]
         ELSE IF r.k = 34 THEN
              IF inblock THEN [ok |-> FALSE, recs |-> acc, why |-> "nested_cblock", at |-> p]
              ELSE LET z == Inflate(r.f.str) IN
                   IF ~z.ok \/ Len(z.out) # r.f.w
                   THEN [ok |-> FALSE, recs |-> acc, why |-> "cblock_deflate_or_size", at |-> p]
                   ELSE LET inner == RecordsFrom(z.out, 1, Len(z.out), TRUE,
                                                 Append(acc, [k |-> 34, f |-> r.f, off |-> p - 1])) IN
                        IF ~inner.ok THEN [inner EXCEPT !.at = p]
                        ELSE RecordsFrom(b, r.next, last, inblock, inner.recs)
         ELSE RecordsFrom(b, r.next, last, inblock,
                          Append(acc, [k |-> r.k, f |-> r.f, off |-> IF inblock THEN -1 ELSE p - 1]))

\* ---- file frame: magic, START, END -----------------------------------------------------
\* table offsets: 6 pairs (strict flag, offset): cellname textstring propname propstring layername xname
RdOffsets(b, p) == RdUs(b, p, 12, <<>>)
FileFrame(b) ==
    LET n == Len(b)
        ver == RdStr(b, 15)
        unit == IF ver.ok THEN RdReal(b, ver.next) ELSE Fail(0)
        flag == IF unit.ok THEN RdU(b, unit.next) ELSE Fail(0)
        toS == IF flag.ok /\ flag.v = 0 THEN RdOffsets(b, flag.next) ELSE [ok |-> flag.ok, v |-> <<>>, next |-> flag.next]
        endp == n - 255                                     \* END is the last 256 bytes
        toE == IF flag.ok /\ flag.v = 1 THEN RdOffsets(b, endp + 1) ELSE [ok |-> TRUE, v |-> <<>>, next |-> endp + 1]
        pad == IF toE.ok THEN RdStr(b, toE.next) ELSE Fail(0)
        vs == IF pad.ok THEN RdU(b, pad.next) ELSE Fail(0)
        siglen == IF vs.ok /\ vs.v \in {1, 2} THEN 4 ELSE 0 IN
    IF n < 14 + 256 \/ SubSeq(b, 1, 13) # Magic \/ b[14] # 1 THEN [ok |-> FALSE, why |-> "magic_or_start"]
    ELSE IF ~ver.ok \/ ver.v # <<49, 46, 48>> \/ ~unit.ok \/ ~flag.ok \/ flag.v > 1 \/ ~toS.ok
         THEN [ok |-> FALSE, why |-> "start_record"]
    ELSE IF toS.next > endp \/ b[endp] # 2 THEN [ok |-> FALSE, why |-> "end_record_position"]
    ELSE IF ~toE.ok \/ ~pad.ok \/ ~vs.ok \/ vs.v > 2 \/ vs.next + siglen # n + 1
              \/ \E i \in DOMAIN pad.v : pad.v[i] # 0
         THEN [ok |-> FALSE, why |-> "end_record_layout"]
    ELSE [ok |-> TRUE, why |-> "", unit |-> unit.v, body |-> toS.next, endp |-> endp,
          offsets |-> IF flag.v = 0 THEN toS.v ELSE toE.v, offsets_in_end |-> flag.v = 1,
          scheme |-> vs.v, sig |-> SubSeq(b, vs.next, n), sigstart |-> vs.next]

Records(b) ==
    LET fr == FileFrame(b) IN
    IF ~fr.ok THEN [ok |-> FALSE, why |-> fr.why, recs |-> <<>>, at |-> 0, frame |-> fr]
    ELSE LET r == RecordsFrom(b, fr.body, fr.endp - 1, FALSE, <<>>) IN
         [ok |-> r.ok, why |-> r.why, recs |-> r.recs, at |-> r.at, frame |-> fr]

\* ---- geometry of the shape records ------------------------------------------------------
\* TRAPEZOID (27.x): bounding box (0,0)-(w,h); horizontal: parallel sides horizontal
TrapVertices(vertical, w, h, da, db) ==
    IF vertical
    THEN << <<0, Max(da, 0)>>, <<0, h + Min(db, 0)>>, <<w, h - Max(db, 0)>>, <<w, -Min(da, 0)>> >>
    ELSE << <<Max(da, 0), h>>, <<w + Min(db, 0), h>>, <<w - Max(db, 0), 0>>, <<-Min(da, 0), 0>> >>
\* CTRAPEZOID (28.x, figure of the 26 types): vertices as (xw, xh, yw, yh) coefficient rows,
\* x = xw*w + xh*h, y = yw*w + yh*h
CTrapTable == <<
  << <<0,0,0,0>>, <<0,0,0,1>>, <<1,-1,0,1>>, <<1,0,0,0>> >>,      \* 0
  << <<0,0,0,0>>, <<0,0,0,1>>, <<1,0,0,1>>, <<1,-1,0,0>> >>,      \* 1
  << <<0,0,0,0>>, <<0,1,0,1>>, <<1,0,0,1>>, <<1,0,0,0>> >>,       \* 2
  << <<0,1,0,0>>, <<0,0,0,1>>, <<1,0,0,1>>, <<1,0,0,0>> >>,       \* 3
  << <<0,0,0,0>>, <<0,1,0,1>>, <<1,-1,0,1>>, <<1,0,0,0>> >>,      \* 4
  << <<0,1,0,0>>, <<0,0,0,1>>, <<1,0,0,1>>, <<1,-1,0,0>> >>,      \* 5
  << <<0,0,0,0>>, <<0,1,0,1>>, <<1,0,0,1>>, <<1,-1,0,0>> >>,      \* 6
  << <<0,1,0,0>>, <<0,0,0,1>>, <<1,-1,0,1>>, <<1,0,0,0>> >>,      \* 7
  << <<0,0,0,0>>, <<0,0,0,1>>, <<1,0,-1,1>>, <<1,0,0,0>> >>,      \* 8
  << <<0,0,0,0>>, <<0,0,-1,1>>, <<1,0,0,1>>, <<1,0,0,0>> >>,      \* 9
  << <<0,0,0,0>>, <<0,0,0,1>>, <<1,0,0,1>>, <<1,0,1,0>> >>,       \* 10
  << <<0,0,1,0>>, <<0,0,0,1>>, <<1,0,0,1>>, <<1,0,0,0>> >>,       \* 11
  << <<0,0,0,0>>, <<0,0,0,1>>, <<1,0,-1,1>>, <<1,0,1,0>> >>,      \* 12
  << <<0,0,1,0>>, <<0,0,-1,1>>, <<1,0,0,1>>, <<1,0,0,0>> >>,      \* 13
  << <<0,0,0,0>>, <<0,0,-1,1>>, <<1,0,0,1>>, <<1,0,1,0>> >>,      \* 14
  << <<0,0,1,0>>, <<0,0,0,1>>, <<1,0,-1,1>>, <<1,0,0,0>> >>,      \* 15
  << <<0,0,0,0>>, <<0,0,1,0>>, <<1,0,0,0>> >>,                    \* 16
  << <<0,0,0,0>>, <<0,0,1,0>>, <<1,0,1,0>> >>,                    \* 17
  << <<0,0,0,0>>, <<1,0,1,0>>, <<1,0,0,0>> >>,                    \* 18
  << <<0,0,1,0>>, <<1,0,1,0>>, <<1,0,0,0>> >>,                    \* 19
  << <<0,0,0,0>>, <<0,1,0,1>>, <<0,2,0,0>> >>,                    \* 20
  << <<0,0,0,1>>, <<0,2,0,1>>, <<0,1,0,0>> >>,                    \* 21
  << <<0,0,0,0>>, <<0,0,2,0>>, <<1,0,1,0>> >>,                    \* 22
  << <<1,0,0,0>>, <<0,0,1,0>>, <<1,0,2,0>> >>,                    \* 23
  << <<0,0,0,0>>, <<0,0,0,1>>, <<1,0,0,1>>, <<1,0,0,0>> >>,       \* 24
  << <<0,0,0,0>>, <<0,0,1,0>>, <<1,0,1,0>>, <<1,0,0,0>> >> >>     \* 25
CTrapUsesW(t) == t \notin {20, 21}
CTrapUsesH(t) == t < 16 \/ t \in {20, 21, 24}
CTrapVertices(t, w, h) == LET rows == CTrapTable[t + 1] IN
                          [i \in DOMAIN rows |-> <<rows[i][1] * w + rows[i][2] * h, rows[i][3] * w + rows[i][4] * h>>]
Shift(pts, x, y) == [i \in DOMAIN pts |-> <<pts[i][1] + x, pts[i][2] + y>>]

\* ---- the modal machine ----------------------------------------------------------------
Undef == "undef"          \* marker; never compared with numbers (guards test the flags in `def`)
ModalNames == {"layer", "dtype", "tlayer", "ttype", "gw", "gh", "rep", "tstr", "pcell", "polypts",
               "pathpts", "hw", "es", "ee", "ct", "rad", "pname", "pvals"}
Modal0 == [abs |-> TRUE, px |-> 0, py |-> 0, tx |-> 0, ty |-> 0, gx |-> 0, gy |-> 0,
           def |-> {},                       \* which of ModalNames are defined
           layer |-> <<>>, dtype |-> <<>>, tlayer |-> <<>>, ttype |-> <<>>, gw |-> 0, gh |-> 0,
           rep |-> <<>>, tstr |-> <<>>, pcell |-> <<>>, polypts |-> <<>>, pathpts |-> <<>>,
           hw |-> 0, es |-> 0, ee |-> 0, ct |-> 0, rad |-> 0, pname |-> <<>>, pvals |-> <<>>]
\* CELL: positions and xy-mode are reset, every other modal variable becomes undefined
\* (the property modals are kept: the definition resets them at name records only in strict readers;
\*  generated files never reuse a property across a CELL record)
ModalAtCell(m) == [Modal0 EXCEPT !.def = m.def \cap {"pname", "pvals"}, !.pname = m.pname, !.pvals = m.pvals]

EmptyCell(nm) == [name |-> nm, polys |-> <<>>, paths |-> <<>>, refs |-> <<>>, labels |-> <<>>, props |-> <<>>,
                  off |-> -1]
State0 == [m |-> Modal0, cells |-> <<>>, libprops |-> <<>>, bad |-> {},
           tgt |-> <<"lib">>,                 \* what a PROPERTY record attaches to
           cellnames |-> <<>>, textstrings |-> <<>>, propnames |-> <<>>, propstrings |-> <<>>,
           \* each table: sequence of [num, str, props, off, implicit]
           xrecords |-> FALSE,                \* an XNAME / XELEMENT / XGEOMETRY record was seen
           nrec |-> 0]

\* new value of a modal: explicit (then it becomes defined) or the current one (must be defined)
Use(st, name, explicit, val) ==
    IF explicit THEN [st EXCEPT !.m = [@ EXCEPT ![name] = val, !.def = @ \cup {name}]]
    ELSE IF name \in st.m.def THEN st
    ELSE [st EXCEPT !.bad = @ \cup {"undefined_modal_" \o name}]
SetPos(st, kx, ky, f, hasx, hasy) ==
    [st EXCEPT !.m = [@ EXCEPT ![kx] = IF hasx THEN (IF st.m.abs THEN f.x ELSE @ + f.x) ELSE @,
                               ![ky] = IF hasy THEN (IF st.m.abs THEN f.y ELSE @ + f.y) ELSE @]]
\* repetition field: type 0 = reuse the modal repetition
UseRep(st, has, f) ==
    IF ~has THEN st
    ELSE IF f.rep.t = 0 THEN Use(st, "rep", FALSE, <<>>)
    ELSE Use(st, "rep", TRUE, f.rep.offs)
RepOf(st, has) == IF has THEN st.m.rep ELSE <<>>          \* <<>> = not repeated

InCell(st) == Len(st.cells) > 0
AddTo(st, kind, el) ==
    IF ~InCell(st) THEN [st EXCEPT !.bad = @ \cup {"element_outside_cell"}]
    ELSE LET ci == Len(st.cells) IN
         [st EXCEPT !.cells[ci][kind] = Append(@, el),
                    !.tgt = <<kind, ci, Len(st.cells[ci][kind]) + 1>>]
LT(st, f, info) ==         \* layer / datatype modals for geometry records
    Use(Use(st, "layer", Has(info, 1), f.layer), "dtype", Has(info, 2), f.dtype)

AddTable(st, tab, f, implicit, off) ==
    LET cur == st[tab]
        num == IF implicit THEN Len(cur) ELSE f.num
        mixed == \E i \in DOMAIN cur : cur[i].implicit # implicit
        dup == \E i \in DOMAIN cur : cur[i].num = num IN
    [st EXCEPT ![tab] = Append(@, [num |-> num, str |-> f.str, props |-> <<>>, off |-> off, implicit |-> implicit]),
               !.tgt = <<tab, Len(cur) + 1>>,
               !.bad = @ \cup (IF mixed THEN {"implicit_and_explicit_numbers_mixed"} ELSE {})
                         \cup (IF dup THEN {"duplicate_reference_number"} ELSE {})]

AttachProp(st, p) ==
    LET t == st.tgt IN
    CASE t[1] = "lib" -> [st EXCEPT !.libprops = Append(@, p)]
      [] t[1] = "cell" -> [st EXCEPT !.cells[t[2]].props = Append(@, p)]
      [] t[1] \in {"polys", "paths", "refs", "labels"} ->
            [st EXCEPT !.cells[t[2]][t[1]][t[3]].props = Append(@, p)]
      [] t[1] \in {"cellnames", "textstrings", "propnames", "propstrings"} ->
            [st EXCEPT ![t[1]][t[2]].props = Append(@, p)]
      [] t[1] = "ignored" -> st                      \* properties of records this model does not hold
      [] OTHER -> [st EXCEPT !.bad = @ \cup {"property_without_owner"}]

Step(st0, r) ==
    LET st == [st0 EXCEPT !.nrec = @ + 1]
        f == r.f
        info == f.info IN
    CASE r.k = 0 -> st
      [] r.k = 34 -> st                                    \* CBLOCK marker
      [] r.k \in {3, 4} -> AddTable(st, "cellnames", f, r.k = 3, r.off)
      [] r.k \in {5, 6} -> AddTable(st, "textstrings", f, r.k = 5, r.off)
      [] r.k \in {7, 8} -> AddTable(st, "propnames", f, r.k = 7, r.off)
      [] r.k \in {9, 10} -> AddTable(st, "propstrings", f, r.k = 9, r.off)
      [] r.k \in {11, 12} -> [st EXCEPT !.tgt = <<"ignored">>]
      [] r.k \in {13, 14} ->
            [st EXCEPT !.cells = Append(@, [EmptyCell(IF r.k = 13 THEN <<"num", f.num>> ELSE <<"str", f.str>>)
                                            EXCEPT !.off = r.off]),
                       !.m = ModalAtCell(@), !.tgt = <<"cell", Len(st.cells) + 1>>]
      [] r.k = 15 -> [st EXCEPT !.m.abs = TRUE]
      [] r.k = 16 -> [st EXCEPT !.m.abs = FALSE]
      [] r.k \in {17, 18} ->
            LET s1 == Use(st, "pcell", Has(info, 128), IF Has(info, 64) THEN <<"num", f.num>> ELSE <<"str", f.str>>)
                s2 == SetPos(s1, "px", "py", f, Has(info, 32), Has(info, 16))
                s3 == UseRep(s2, Has(info, 8), f)
                rot == IF r.k = 17 THEN <<"quarter", (info \div 2) % 4>>
                       ELSE IF Has(info, 2) THEN <<"real", f.ang>> ELSE <<"quarter", 0>>
                mag == IF r.k = 18 /\ Has(info, 4) THEN <<"real", f.mag>> ELSE <<"one">> IN
            AddTo(s3, "refs", [cell |-> s3.m.pcell, refl |-> Has(info, 1), rot |-> rot, mag |-> mag,
                               x |-> s3.m.px, y |-> s3.m.py, rep |-> RepOf(s3, Has(info, 8)), props |-> <<>>])
      [] r.k = 19 ->
            LET s1 == Use(st, "tstr", Has(info, 64), IF Has(info, 32) THEN <<"num", f.num>> ELSE <<"str", f.str>>)
                s2 == Use(Use(s1, "tlayer", Has(info, 1), f.layer), "ttype", Has(info, 2), f.dtype)
                s3 == SetPos(s2, "tx", "ty", f, Has(info, 16), Has(info, 8))
                s4 == UseRep(s3, Has(info, 4), f) IN
            AddTo(s4, "labels", [text |-> s4.m.tstr, l |-> s4.m.tlayer, t |-> s4.m.ttype, x |-> s4.m.tx,
                                 y |-> s4.m.ty, rep |-> RepOf(s4, Has(info, 4)), props |-> <<>>])
      [] r.k = 20 ->
            LET s1 == LT(st, f, info)
                s2 == Use(s1, "gw", Has(info, 64), f.w)
                \* a square sets the height modal to the width
                s3 == IF Has(info, 128) THEN Use(s2, "gh", "gw" \in s2.m.def, s2.m.gw) ELSE Use(s2, "gh", Has(info, 32), f.h)
                s4 == SetPos(s3, "gx", "gy", f, Has(info, 16), Has(info, 8))
                s5 == UseRep(s4, Has(info, 4), f)
                m == s5.m IN
            AddTo(s5, "polys", [l |-> m.layer, t |-> m.dtype, rep |-> RepOf(s5, Has(info, 4)), props |-> <<>>,
                                shape |-> "rect",
                                pts |-> << <<m.gx, m.gy>>, <<m.gx + m.gw, m.gy>>, <<m.gx + m.gw, m.gy + m.gh>>,
                                           <<m.gx, m.gy + m.gh>> >>])
      [] r.k = 21 ->
            LET s1 == LT(st, f, info)
                s2 == Use(s1, "polypts", Has(info, 32), f.pts)
                s3 == SetPos(s2, "gx", "gy", f, Has(info, 16), Has(info, 8))
                s4 == UseRep(s3, Has(info, 4), f)
                m == s4.m IN
            AddTo(s4, "polys", [l |-> m.layer, t |-> m.dtype, rep |-> RepOf(s4, Has(info, 4)), props |-> <<>>,
                                shape |-> "polygon", pts |-> Shift(m.polypts, m.gx, m.gy)])
      [] r.k = 22 ->
            LET s1 == LT(st, f, info)
                s2 == Use(s1, "hw", Has(info, 64), f.hw)
                ss == (f.scheme \div 4) % 4
                se == f.scheme % 4
                \* extension scheme: 0 reuse modal, 1 flush (0), 2 half-width, 3 explicit
                s3 == IF ~Has(info, 128) THEN Use(Use(s2, "es", FALSE, 0), "ee", FALSE, 0)
                      ELSE LET a == IF ss = 0 THEN Use(s2, "es", FALSE, 0)
                                    ELSE Use(s2, "es", TRUE, CASE ss = 1 -> 0 [] ss = 2 -> s2.m.hw [] OTHER -> f.es) IN
                           IF se = 0 THEN Use(a, "ee", FALSE, 0)
                           ELSE Use(a, "ee", TRUE, CASE se = 1 -> 0 [] se = 2 -> s2.m.hw [] OTHER -> f.ee)
                s4 == Use(s3, "pathpts", Has(info, 32), f.pts)
                s5 == SetPos(s4, "gx", "gy", f, Has(info, 16), Has(info, 8))
                s6 == UseRep(s5, Has(info, 4), f)
                m == s6.m IN
            AddTo(s6, "paths", [l |-> m.layer, t |-> m.dtype, rep |-> RepOf(s6, Has(info, 4)), props |-> <<>>,
                                hw |-> m.hw, es |-> m.es, ee |-> m.ee, pts |-> Shift(m.pathpts, m.gx, m.gy)])
      [] r.k \in {23, 24, 25} ->
            LET s1 == LT(st, f, info)
                s2 == Use(Use(s1, "gw", Has(info, 64), f.w), "gh", Has(info, 32), f.h)
                s3 == SetPos(s2, "gx", "gy", f, Has(info, 16), Has(info, 8))
                s4 == UseRep(s3, Has(info, 4), f)
                m == s4.m
                v == TrapVertices(Has(info, 128), m.gw, m.gh, f.da, f.db)
                \* the two slanted sides must fit into the bounding box
                fits == IF Has(info, 128) THEN Max(f.da, -f.da) <= m.gh /\ Max(f.db, -f.db) <= m.gh
                        ELSE Max(f.da, -f.da) <= m.gw /\ Max(f.db, -f.db) <= m.gw
                s5 == IF fits THEN s4 ELSE [s4 EXCEPT !.bad = @ \cup {"trapezoid_deltas_exceed_box"}] IN
            AddTo(s5, "polys", [l |-> m.layer, t |-> m.dtype, rep |-> RepOf(s4, Has(info, 4)), props |-> <<>>,
                                shape |-> "trapezoid", pts |-> Shift(v, m.gx, m.gy)])
      [] r.k = 26 ->
            LET s1 == LT(st, f, info)
                s2 == Use(s1, "ct", Has(info, 128), f.ct)
                ct == s2.m.ct
                okt == ct <= 25
                \* a dimension the type does not use must not be given; one it uses must be available
                s3 == IF okt /\ CTrapUsesW(ct) THEN Use(s2, "gw", Has(info, 64), f.w)
                      ELSE IF Has(info, 64) THEN [s2 EXCEPT !.bad = @ \cup {"ctrapezoid_unused_width_given"}] ELSE s2
                s4 == IF okt /\ CTrapUsesH(ct) THEN Use(s3, "gh", Has(info, 32), f.h)
                      ELSE IF Has(info, 32) THEN [s3 EXCEPT !.bad = @ \cup {"ctrapezoid_unused_height_given"}] ELSE s3
                s5 == SetPos(s4, "gx", "gy", f, Has(info, 16), Has(info, 8))
                s6 == UseRep(s5, Has(info, 4), f)
                m == s6.m
                v == IF okt THEN CTrapVertices(ct, m.gw, m.gh) ELSE <<>>
                s7 == IF okt THEN s6 ELSE [s6 EXCEPT !.bad = @ \cup {"ctrapezoid_type"}]
                \* after a type that does not use one of w / h the generator never reuses that modal:
                \* what the unused dimension's modal holds afterwards is marked undefined here
                s8 == [s7 EXCEPT !.m.def = @ \ ((IF okt /\ ~CTrapUsesW(ct) THEN {"gw"} ELSE {})
                                                 \cup (IF okt /\ ~CTrapUsesH(ct) THEN {"gh"} ELSE {}))] IN
            AddTo(s8, "polys", [l |-> m.layer, t |-> m.dtype, rep |-> RepOf(s6, Has(info, 4)), props |-> <<>>,
                                shape |-> "ctrapezoid", pts |-> Shift(v, m.gx, m.gy)])
      [] r.k = 27 ->
            LET s1 == LT(st, f, info)
                s2 == Use(s1, "rad", Has(info, 32), f.rad)
                s3 == SetPos(s2, "gx", "gy", f, Has(info, 16), Has(info, 8))
                s4 == UseRep(s3, Has(info, 4), f)
                m == s4.m IN
            AddTo(s4, "polys", [l |-> m.layer, t |-> m.dtype, rep |-> RepOf(s4, Has(info, 4)), props |-> <<>>,
                                shape |-> "circle", pts |-> << <<m.gx, m.gy>>, <<m.rad, 0>> >>])
      [] r.k = 28 ->
            LET s1 == Use(st, "pname", Has(info, 4), IF Has(info, 2) THEN <<"num", f.num>> ELSE <<"str", f.str>>)
                s2 == Use(s1, "pvals", ~Has(info, 8), f.vals) IN
            AttachProp(s2, [name |-> s2.m.pname, std |-> Has(info, 1), vals |-> s2.m.pvals])
      [] r.k = 29 ->
            LET s1 == Use(Use(st, "pname", FALSE, <<>>), "pvals", FALSE, <<>>) IN
            AttachProp(s1, [name |-> s1.m.pname, std |-> FALSE, vals |-> s1.m.pvals])
      \* extension records carry nothing this data model holds; XGEOMETRY is a geometry record as far
      \* as the modal variables are concerned
      [] r.k \in {30, 31, 32} -> [st EXCEPT !.tgt = <<"ignored">>, !.xrecords = TRUE]
      [] r.k = 33 ->
            LET s1 == LT(st, f, info)
                s2 == SetPos(s1, "gx", "gy", f, Has(info, 16), Has(info, 8))
                s3 == UseRep(s2, Has(info, 4), f) IN
            [s3 EXCEPT !.tgt = <<"ignored">>, !.xrecords = TRUE,
                       !.bad = @ \cup (IF InCell(st) THEN {} ELSE {"element_outside_cell"})]
      [] OTHER -> [st EXCEPT !.bad = @ \cup {"unexpected_record"}]

RECURSIVE Run(_, _, _)
Run(st, recs, i) == IF i > Len(recs) THEN st ELSE Run(Step(st, recs[i]), recs, i + 1)

\* ---- name resolution ---------------------------------------------------------------------
Lookup(tab, num) == {i \in DOMAIN tab : tab[i].num = num}
HasNum(tab, num) == Lookup(tab, num) # {}
Entry(tab, num) == tab[CHOOSE i \in Lookup(tab, num) : TRUE]
\* a name given as <<"str", bytes>> or <<"num", n>>
NameOK(tab, nm) == nm[1] = "str" \/ HasNum(tab, nm[2])
NameOf(tab, nm) == IF nm[1] = "str" THEN nm[2] ELSE IF HasNum(tab, nm[2]) THEN Entry(tab, nm[2]).str ELSE <<>>
NameProps(tab, nm) == IF nm[1] = "num" /\ HasNum(tab, nm[2]) THEN Entry(tab, nm[2]).props ELSE <<>>

ResolveVal(st, v) == IF v.t = "sref" THEN [t |-> "s", x |-> NameOf(st.propstrings, <<"num", v.x>>)] ELSE
                     IF v.t = "s" THEN [t |-> "s", x |-> v.x] ELSE v
ResolveProp(st, p) == [name |-> NameOf(st.propnames, p.name), std |-> p.std,
                       vals |-> [i \in DOMAIN p.vals |-> ResolveVal(st, p.vals[i])]]
ResolveProps(st, ps) == [i \in DOMAIN ps |-> ResolveProp(st, ps[i])]
PropRefsOK(st, ps) == \A i \in DOMAIN ps :
                         /\ NameOK(st.propnames, ps[i].name)
                         /\ \A k \in DOMAIN ps[i].vals : ps[i].vals[k].t = "sref" => HasNum(st.propstrings, ps[i].vals[k].x)
ElemsOK(st, es) == \A i \in DOMAIN es : PropRefsOK(st, es[i].props)

Finish(st) ==
    LET RP(ps) == ResolveProps(st, ps)
        WithProps(es) == [i \in DOMAIN es |-> [es[i] EXCEPT !.props = RP(@)]]
        cellnames == {NameOf(st.cellnames, st.cells[i].name) : i \in DOMAIN st.cells}
        refsOK == \A i \in DOMAIN st.cells :
                     /\ NameOK(st.cellnames, st.cells[i].name)
                     /\ \A k \in DOMAIN st.cells[i].refs : NameOK(st.cellnames, st.cells[i].refs[k].cell)
                     /\ \A k \in DOMAIN st.cells[i].labels : NameOK(st.textstrings, st.cells[i].labels[k].text)
                     /\ ElemsOK(st, st.cells[i].polys) /\ ElemsOK(st, st.cells[i].paths)
                     /\ ElemsOK(st, st.cells[i].refs) /\ ElemsOK(st, st.cells[i].labels)
                     /\ PropRefsOK(st, st.cells[i].props)
                     /\ PropRefsOK(st, NameProps(st.cellnames, st.cells[i].name))
        tabsOK == /\ PropRefsOK(st, st.libprops)
                  /\ \A i \in DOMAIN st.cellnames : PropRefsOK(st, st.cellnames[i].props)
                  /\ \A i \in DOMAIN st.textstrings : PropRefsOK(st, st.textstrings[i].props)
        dupcells == \E i, j \in DOMAIN st.cells : i < j /\ NameOf(st.cellnames, st.cells[i].name)
                                                            = NameOf(st.cellnames, st.cells[j].name)
        bad == st.bad \cup (IF refsOK /\ tabsOK THEN {} ELSE {"dangling_reference_number"})
                      \cup (IF dupcells THEN {"duplicate_cell_name"} ELSE {}) IN
    [bad |-> bad, xrecords |-> st.xrecords,
     libprops |-> RP(st.libprops),
     cells |-> [i \in DOMAIN st.cells |->
                  LET c == st.cells[i] IN
                  [name |-> NameOf(st.cellnames, c.name), off |-> c.off,
                   \* properties of the CELLNAME record belong to the cell, before its own
                   props |-> RP(NameProps(st.cellnames, c.name) \o c.props),
                   polys |-> WithProps(c.polys), paths |-> WithProps(c.paths),
                   refs |-> [k \in DOMAIN c.refs |->
                               LET nm == NameOf(st.cellnames, c.refs[k].cell) IN
                               [c.refs[k] EXCEPT !.props = RP(@), !.cell = nm] @@ [known |-> nm \in cellnames]],
                   labels |-> [k \in DOMAIN c.labels |->
                                 [c.labels[k] EXCEPT !.text = NameOf(st.textstrings, @),
                                                     \* properties of the TEXTSTRING record come first
                                                     !.props = RP(NameProps(st.textstrings, c.labels[k].text) \o @)]]]]]

\* the layout a byte sequence denotes:  [ok, why, lay, frame, st]
Decode(b) ==
    LET rs == Records(b) IN
    IF ~rs.ok THEN [ok |-> FALSE, why |-> rs.why, at |-> rs.at]
    ELSE LET st == Run(State0, rs.recs, 1)
             lay == Finish(st) IN
         [ok |-> lay.bad = {}, why |-> ToString(lay.bad), at |-> 0, lay |-> lay, frame |-> rs.frame, st |-> st,
          recs |-> rs.recs]
=============================================================================
