------------------------------ MODULE MC_Props ------------------------------
EXTENDS Props, Json, IOUtils

V(t, x) == [t |-> t, x |-> x, z |-> FALSE]
MCNames == {"a", "b", GdsName}
MCPVals == {V("u", 1), V("i", 2), V("s", "xy"), V("r", 3)}
MCAttrs == {1, 2}
MCGStrs == {"p", "qq"}

AppendOpts == [format |-> "TXT", charset |-> "UTF-8",
               openOptions |-> <<"WRITE", "CREATE", "APPEND">>]
Export ==
    IF Len(hist') <= MaxLen
    THEN Serialize(ToJson([h |-> hist']) \o "\n", IOEnv.GEN_OUT, AppendOpts).exitValue = 0
    ELSE TRUE

\* ---- richer starting lists (same-named neighbours away from the head, mixed GDSII entries) ----
\* each prefix is itself a history from the empty list, so a generated history is still complete
PreLen == 4
Pre == { <<H("set", "b", V("u", 1), TRUE), H("set", "b", V("i", 2), TRUE), H("set", "a", V("r", 3), TRUE),
           H("set", "a", V("s", "xy"), FALSE)>>,                                        \* a(2 values) b b
         <<H("set", "a", V("u", 1), TRUE), H("set", "b", V("u", 1), TRUE), H("set", "b", V("i", 2), TRUE),
           H("set", "a", V("i", 2), TRUE)>>,                                            \* a b b a
         <<H("set", "b", V("u", 1), TRUE), H("set", "b", V("r", 3), TRUE), H("set", "b", V("i", 2), TRUE),
           H("set", "a", V("u", 1), TRUE)>>,                                            \* a b b b
         <<H("setgds", "", UVal(1), FALSE) @@ [s |-> "p"], H("setgds", "", UVal(2), FALSE) @@ [s |-> "qq"],
           H("set", "a", V("u", 1), TRUE), H("set", GdsName, V("u", 1), TRUE)>> }       \* gds-named a gds gds
ApplyH(pl, e) == CASE e.op = "set" -> SetProperty(pl, e.n, e.v, e.f)
                   [] e.op = "setgds" -> SetGdsProperty(pl, e.v.x, e.s)
                   [] OTHER -> pl
RECURSIVE FoldH(_, _, _)
FoldH(pl, h, i) == IF i > Len(h) THEN pl ELSE FoldH(ApplyH(pl, h[i]), h, i + 1)
InitRich == \E p \in Pre : hist = p /\ plist = FoldH(<<>>, p, 1) /\ res = "none"
BoundedRich == Len(hist) <= PreLen + MaxLen
ExportRich ==
    IF Len(hist') <= PreLen + MaxLen
    THEN Serialize(ToJson([h |-> hist']) \o "\n", IOEnv.GEN_OUT, AppendOpts).exitValue = 0
    ELSE TRUE
=============================================================================
