------------------------------ MODULE MC_Props ------------------------------
EXTENDS Props, Json, IOUtils

V(t, x) == [t |-> t, x |-> x, z |-> FALSE]
MCNames == {"a", "b", GdsName}
MCPVals == {V("u", 1), V("i", 2), V("s", "xy"), V("r", 3)}
MCAttrs == {1, 2}
MCGStrs == {"p", "qq"}

AppendOpts == [format |-> "TXT", charset |-> "UTF-8",
               openOptions |-> <<"WRITE", "CREATE", "APPEND">>]
Export ==
    IF Len(hist') <= MaxLen
    THEN Serialize(ToJson([h |-> hist']) \o "\n", IOEnv.GEN_OUT, AppendOpts).exitValue = 0
    ELSE TRUE
=============================================================================
