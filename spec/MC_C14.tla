------------------------------- MODULE MC_C14 -------------------------------
(* Enumerates every vertex list of length 0..MaxLen on the GxG grid (doubled     *)
(* coordinates so that query points also fall between grid lines), plus groups.  *)
(* Theorems: winding membership is invariant under rotation of the vertex list    *)
(* and under reversal (orientation), and the shoelace sum changes sign.           *)
EXTENDS Region, Json, IOUtils
CONSTANTS G, MaxLen
VARIABLES case
poly == case.pts

GridPts == {<<2 * x, 2 * y>> : x \in 0..(G - 1), y \in 0..(G - 1)}
Queries == {<<x, y>> : x \in -2..(2 * G), y \in -2..(2 * G)}

\* groups: pairs / triples from a palette, with repetition on the measured polygon
Pal == << << <<0, 0>>, <<4, 0>>, <<4, 4>>, <<0, 4>> >>,                  \* square
          << <<2, 2>>, <<6, 2>>, <<2, 6>> >>,                            \* triangle overlapping it
          << <<0, 0>>, <<4, 4>>, <<4, 0>>, <<0, 4>> >>,                  \* bow tie
          << <<4, 0>>, <<4, 4>> >>,                                      \* two vertices
          <<>>,                                                          \* empty
          << <<0, 4>>, <<4, 4>>, <<4, 0>>, <<0, 0>> >> >>                \* clockwise square
GroupsIdx == {<<>>} \cup {<<i>> : i \in 1..6} \cup {<<i, j>> : i \in 1..6, j \in 1..6}
             \cup {<<1, 2, 3>>, <<5, 4, 6>>}
Rows == {[i \in 1..(hi - (-2) + 1) |-> <<-2 + i - 1, y>>] : y \in {-1, 0, 1, 2, 3, 4}, hi \in {4}}
PointLists == Rows \cup {<<>>, << <<1, 1>> >>, << <<1, 1>>, <<3, 1>>, <<5, 3>> >>,
                         << <<1, 1>>, <<9, 9>> >>, << <<4, 4>>, <<2, 2>>, <<0, 0>> >>}
\* polygons with long slanted edges (doubled coordinates up to 62) queried on every half-unit point of
\* a 67 x 67 window: many query points lie exactly ON a slanted edge far from its ends, where a
\* crossing computed by interpolation instead of an exact determinant goes wrong first
BigPolys == { << <<0, 0>>, <<44, 44>>, <<0, 44>> >>, << <<0, 0>>, <<60, 40>>, <<10, 58>> >>,
              << <<10, 58>>, <<60, 40>>, <<0, 0>> >>, << <<2, 0>>, <<62, 36>>, <<32, 62>>, <<0, 30>> >>,
              << <<0, 0>>, <<46, 2>>, <<44, 48>>, <<2, 46>> >> }
\* polygons far from the origin: every vertex (and every query point) is displaced by
\* (sx, sy) * (2^e + f/8) user units, all exactly representable in a double.  The shoelace sum, the
\* edge lengths and the winding number are translation invariant (law ShiftLaws below), so the
\* expected answers are those of the undisplaced vertex list; an implementation that multiplies raw
\* coordinates (products beyond 2^53) instead of differences loses them to rounding.
FarPolys == {Pal[1], Pal[2], Pal[3], Pal[6],
             << <<0, 0>>, <<6, 0>>, <<6, 2>>, <<2, 2>>, <<2, 6>>, <<0, 6>> >>,       \* L, area 20 (doubled: 80)
             << <<0, 0>>, <<2, 0>>, <<2, 2>>, <<0, 2>> >>,                            \* unit square
             << <<1, 0>>, <<7, 3>>, <<3, 8>> >>}
Init == \/ case = [k |-> "poly", pts |-> <<>>, lo |-> -2, hi |-> 2 * G]
        \/ \E P \in FarPolys, e \in {27, 40}, f \in {5, 7}, sg \in {<<1, -1>>, <<-1, 1>>, <<1, 1>>} :
              case = [k |-> "far", pts |-> P, lo |-> -2, hi |-> 8, e |-> e, f |-> f, sx |-> sg[1], sy |-> sg[2]]
        \/ \E P \in BigPolys : case = [k |-> "poly", pts |-> P, lo |-> -2, hi |-> 64]
        \/ \E gi \in GroupsIdx, pl \in PointLists :
              case = [k |-> "group", pts |-> <<>>, polys |-> [i \in DOMAIN gi |-> Pal[gi[i]]], list |-> pl]
Next == /\ case.k = "poly" /\ Len(poly) < MaxLen /\ case.hi = 2 * G
        /\ \E p \in GridPts : case' = [case EXCEPT !.pts = Append(@, p)]

Rotl(s) == IF Len(s) = 0 THEN s ELSE Tail(s) \o <<Head(s)>>
Rev(s) == [i \in DOMAIN s |-> s[Len(s) + 1 - i]]
Shift(s, t) == [i \in DOMAIN s |-> <<s[i][1] + t[1], s[i][2] + t[2]>>]
ShiftLaws == \A t \in {<<6, -10>>, <<-14, 2>>} :
                /\ SignedArea2(Shift(poly, t)) = SignedArea2(poly)
                /\ Area2(Shift(poly, t)) = Area2(poly)
                /\ \A q \in Queries : Inside(Shift(poly, t), <<q[1] + t[1], q[2] + t[2]>>) = Inside(poly, q)
Laws == /\ ShiftLaws
        /\ \A q \in Queries : Inside(poly, q) = Inside(Rotl(poly), q)
        /\ \A q \in Queries : Inside(poly, q) = Inside(Rev(poly), q)
        /\ SignedArea2(Rev(poly)) = -SignedArea2(poly)
        /\ SignedArea2(Rotl(poly)) = SignedArea2(poly)
        \* a point strictly inside a simple triangle has winding +-1
        /\ (Len(poly) = 3 /\ SignedArea2(poly) # 0) =>
              \A q \in Queries : Winding(poly, q) \in {-1, 0, 1}

AppendOpts == [format |-> "TXT", charset |-> "UTF-8",
               openOptions |-> <<"WRITE", "CREATE", "APPEND">>]
Export == Serialize(ToJson(case) \o "\n",
                    IOEnv.GEN_OUT, AppendOpts).exitValue = 0
=============================================================================
