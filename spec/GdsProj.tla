------------------------------- MODULE GdsProj -------------------------------
(* Conversion of a library projection logged by the harness (proj.hpp) into the    *)
(* canonical meaning shape of Gdsii.tla (Gdsii!Meaning), so that what gdstk loaded  *)
(* can be compared with what a stream or a saved library denotes.                   *)
EXTENDS Gdsii

PropSetJ(js) == {<<js[i][1], js[i][2]>> : i \in DOMAIN js}
NoDupAttr(js) == \A i, j \in DOMAIN js : js[i][1] = js[j][1] => i = j

PolyP(j) == [l |-> j.l, t |-> j.t, xy |-> j.xy, props |-> PropSetJ(j.props)]
\* a loaded GDSII path is a one-element simple FlexPath with one width/offset entry per point
PathWF(j) == j.simple /\ j.nel = 1 /\ j.els[1].off = 0 /\ j.els[1].nwo = Len(j.spine)
             /\ j.rep.type = "none" /\ NoDupAttr(j.props)
PathP(j) == LET el == j.els[1] IN
            [l |-> el.l, t |-> el.t, pt |-> el.pt, w |-> el.w,
             sw |-> IF el.w = 0 THEN TRUE ELSE j.sw,
             ext |-> IF el.pt = 4 THEN el.ext ELSE <<0, 0>>, spine |-> Simplify(j.spine),
             props |-> PropSetJ(j.props)]
RefsP(j) ==
    LET offs == IF j.rep.type = "none" THEN << <<0, 0>> >> ELSE j.rep.offs IN
    [k \in DOMAIN offs |->
        [sname |-> j.sname, kind |-> j.kind, refl |-> j.refl, mag |-> j.mag, ang |-> j.ang,
         xy |-> VAdd(j.xy, offs[k]), props |-> PropSetJ(j.props)]]
LabelP(j) == [l |-> j.l, t |-> j.t, anchor |-> j.anchor, refl |-> j.refl, mag |-> j.mag,
              ang |-> j.ang, xy |-> j.xy, text |-> j.text, props |-> PropSetJ(j.props)]
CellP(c) == [name |-> c.name, polys |-> Map(PolyP, c.polys), paths |-> Map(PathP, c.paths),
             refs |-> FlatMap(RefsP, c.refs), labels |-> Map(LabelP, c.labels)]
ProjToM(p) == [name |-> p.name, cells |-> Map(CellP, p.cells)]

\* well-formedness of a projection that came out of read_gds
ProjWF(p) ==
    (IF p.lat THEN {} ELSE {"off_lattice"})
    \cup (IF p.nraw = 0 THEN {} ELSE {"raw_cells"})
    \cup UNION {(IF \A k \in DOMAIN p.cells[i].paths : PathWF(p.cells[i].paths[k])
                 THEN {} ELSE {"path_shape"})
                \cup (IF p.cells[i].nrobust = 0 THEN {} ELSE {"robustpaths"})
                \cup (IF /\ \A k \in DOMAIN p.cells[i].polys :
                              p.cells[i].polys[k].rep.type = "none" /\ NoDupAttr(p.cells[i].polys[k].props)
                         /\ \A k \in DOMAIN p.cells[i].labels : p.cells[i].labels[k].rep.type = "none"
                      THEN {} ELSE {"element_repetition_or_duplicate_attribute"})
                : i \in DOMAIN p.cells}

LibFailing(p, m) == ProjWF(p) \cup MFailing(ProjToM(p), m)
=============================================================================
