------------------------------ MODULE MC_GdsApi ------------------------------
(* Case enumeration for GdsApi.tla: API-level library descriptions for C01 / C03. *)
EXTENDS GdsApi, Json, IOUtils
CONSTANTS Depth
VARIABLES case


S_TOP == <<84, 79, 80>>
S_A == <<65>>
S_CELL == <<67, 69, 76, 76>>
S_NOPE == <<78, 79, 80, 69>>
S_LIB == <<76, 73, 66, 49>>

GP(a, s) == [k |-> "gds", a |-> a, s |-> s]
GenP == [k |-> "gen", n |-> <<112, 114, 111, 112>>, v |-> <<[t |-> "u", x |-> 5]>>]
PR0 == <<>>
PR1 == <<GP(1, <<97, 98>>)>>
PR2 == <<GP(2, <<120>>), GenP, GP(7, <<104, 101, 108, 108, 111>>)>>
\* the same kind of property built through the generic property interface, its string stored without a
\* terminating NUL (odd and even lengths: the writer has to pad the odd one itself)
GPRaw(a, s) == [k |-> "gds", a |-> a, s |-> s, raw |-> TRUE]
PR3 == <<GPRaw(3, <<97, 98, 99>>), GPRaw(4, <<120, 121>>), GPRaw(5, <<122>>)>>

\* ---- repetitions (quanta; whole database units so that sums never create ties) -----
Reps == {NoRep, Rect(2, 2, <<400, 800>>), Rect(3, 2, <<400, 800>>), Rect(3, 1, <<-400, 0>>), Rect(1, 1, <<40, 40>>),
         Regular(2, 3, <<400, 400>>, <<-400, 800>>), Explicit(<< <<400, 0>>, <<-400, 800>> >>),
         Explicit(<<>>), ExplicitX(<<400, -800>>), ExplicitY(<<800, 800>>)}
\* (a non-square array: rotated references exchange columns and rows)
QuickReps == {NoRep, Rect(3, 2, <<400, 800>>), Regular(2, 3, <<400, 400>>, <<-400, 800>>),
              Explicit(<< <<400, 0>>, <<-400, 800>> >>), ExplicitX(<<400, -800>>)}
RepSet == IF Depth = "thorough" THEN Reps ELSE QuickReps

TriQ == << <<0, 0>>, <<401, 0>>, <<3, 283>> >>
RectQ == << <<-201, -83>>, <<121, -83>>, <<121, 181>>, <<-201, 181>> >>
PentQ == << <<0, 0>>, <<160, 1>>, <<243, 120>>, <<159, 240>>, <<-1, 239>> >>
Polys(rep) == {Poly(1, 0, TriQ, rep, PR0), Poly(2, 5, RectQ, rep, PR1), Poly(30000, 3, PentQ, rep, PR2)}

LSpine == << <<0, 0>>, <<4000, 0>>, <<4000, 3001>> >>
HSpine == << <<1, 3>>, <<4001, 3>> >>
VSpine == << <<0, 0>>, <<0, -2000>> >>
PathsOf(rep) ==
    {Path(rb, TRUE, TRUE, <<El(1, 0, 41, 0, pt, <<21, -13>>)>>, LSpine, rep, PR0)
        : rb \in BOOLEAN, pt \in {0, 1, 2, 4, 5}}
    \cup {Path(rb, TRUE, FALSE, <<El(3, 1, 80, 200, 0, <<0, 0>>), El(4, 2, 40, -200, 2, <<0, 0>>)>>,
               HSpine, rep, PR1) : rb \in BOOLEAN}
    \cup {Path(FALSE, TRUE, TRUE, <<El(5, 0, 0, 0, 0, <<0, 0>>), El(6, 0, 120, 400, 4, <<43, 45>>)>>,
               VSpine, rep, PR2)}
    \* two (and three) elements that all carry explicit end extensions
    \cup {Path(rb, TRUE, TRUE, <<El(7, 1, 40, 200, 4, <<11, 9>>), El(8, 1, 40, -200, 4, <<5, -3>>),
                                El(9, 1, 80, 0, 4, <<1, 3>>)>>, HSpine, rep, PR0) : rb \in BOOLEAN}
Labels(rep) == {Label(10, 0, 0, FALSE, 1024, 0, <<1, 3>>, <<104, 105>>, rep, PR0),
                Label(11, 3, 5, TRUE, 2048, 90 * 64, <<-401, 799>>, <<111, 100, 100>>, rep, PR1),
                Label(12, 1, 10, FALSE, 512, 61 * 32, <<0, 0>>, <<84>>, rep, PR2),
                \* reflection as the only transformation (STRANS without MAG / ANGLE)
                Label(13, 0, 0, TRUE, 1024, 0, <<7, -5>>, <<114>>, rep, PR0),
                \* exact powers of 16 (magnification 16, angle 16 degrees): in an excess-64 base-16 real
                \* the mantissa of 16^k is exactly 1/16 of the next exponent, the boundary of normalisation
                Label(14, 0, 0, FALSE, 16384, 16 * 64, <<5, 5>>, <<109>>, rep, PR0)}
Refs(rep) == {Ref(S_CELL, "cell", FALSE, 1024, 0, <<41, 83>>, rep, PR0),
              Ref(S_CELL, "cell", FALSE, 1024, 90 * 64, <<0, 0>>, rep, PR1),
              Ref(S_CELL, "cell", TRUE, 2048, 180 * 64, <<-399, 1>>, rep, PR0),
              Ref(S_CELL, "cell", FALSE, 512, 45 * 64, <<3, 3>>, rep, PR0),
              Ref(S_NOPE, "name", TRUE, 1024, 270 * 64, <<7, -7>>, rep, PR2),
              Ref(S_CELL, "cell", TRUE, 1024, 0, <<-3, 9>>, rep, PR0),
              \* magnification 1/16 and angle 256 degrees: exact powers of 16 again
              Ref(S_CELL, "cell", FALSE, 64, 256 * 64, <<9, 11>>, rep, PR0)}

Empty(nm) == [name |-> nm, polys |-> <<>>, paths |-> <<>>, labels |-> <<>>, refs |-> <<>>]
SubCell == [Empty(S_CELL) EXCEPT !.polys = <<Poly(1, 0, TriQ, NoRep, PR0)>>]
AL(k, cells) == [name |-> S_LIB, unit |-> UnitsPalette[k].unit, prec |-> UnitsPalette[k].prec,
                 cells |-> cells, outside |-> <<>>]
T0 == <<2024, 2, 29, 23, 59, 58>>

Case(al, k) == [al |-> al, u |-> k, maxpts |-> 0, ts |-> T0]
One(field, e) == [Empty(S_TOP) EXCEPT ![field] = <<e>>]
Singles == UNION {{Case(AL(1, <<One("polys", e), SubCell>>), 1) : e \in Polys(r)}
                  \cup {Case(AL(1, <<SubCell, One("paths", e)>>), 1) : e \in PathsOf(r)}
                  \cup {Case(AL(1, <<One("labels", e), SubCell>>), 1) : e \in Labels(r)}
                  \cup {Case(AL(1, <<One("refs", e), SubCell>>), 1) : e \in Refs(r)}
                  : r \in RepSet}
MixedCell(r) == [name |-> S_TOP,
                 polys |-> <<Poly(2, 5, RectQ, r, PR1), Poly(1, 0, TriQ, NoRep, PR0)>>,
                 paths |-> <<Path(FALSE, TRUE, TRUE, <<El(1, 0, 41, 0, 4, <<21, -13>>)>>, LSpine, NoRep, PR0),
                             Path(TRUE, TRUE, FALSE, <<El(3, 1, 80, 200, 0, <<0, 0>>),
                                                       El(4, 2, 40, -200, 2, <<0, 0>>)>>, HSpine, r, PR1)>>,
                 labels |-> <<Label(11, 3, 5, TRUE, 2048, 90 * 64, <<-401, 799>>, <<111, 100, 100>>, r, PR1)>>,
                 refs |-> <<Ref(S_CELL, "cell", FALSE, 1024, 90 * 64, <<0, 0>>, r, PR1),
                            Ref(S_A, "cell", FALSE, 1024, 0, <<5, 5>>, NoRep, PR0)>>]
Mixed == {Case(AL(k, <<MixedCell(r), SubCell, [Empty(S_A) EXCEPT !.refs =
                          <<Ref(S_CELL, "cell", TRUE, 1024, 0, <<1, 1>>, NoRep, PR0)>>]>>), k)
             : r \in RepSet, k \in {1, 4}}
\* ---- eighths of a database unit: vertices, origins AND repetition offsets all off the grid
\* (residue 3 of 8 each; every sum has residue 3, 6 or 1, never the tie 4).  The re-loaded
\* copies are the expanded originals rounded once: round(vertex + offset), which differs
\* from round(vertex) + round(offset) for every copy but the first.
Reps8 == {Rect(2, 2, <<803, 1603>>), Regular(2, 2, <<803, 803>>, <<-797, 1603>>),
          Explicit(<< <<803, 11>>, <<-797, 1603>> >>), ExplicitX(<<803, -1597>>), ExplicitY(<<1603, 11>>)}
Tri8 == << <<3, 3>>, <<803, 3>>, <<11, 563>> >>
Spine8 == << <<3, 3>>, <<4003, 3>>, <<4003, 3003>> >>
AL8(cells) == [AL(1, cells) EXCEPT !.name = S_LIB] @@ [qd |-> 8]
Eighths == UNION {{Case(AL8(<<One("polys", Poly(1, 0, Tri8, r, PR0)), SubCell>>), 1),
                   Case(AL8(<<One("labels", Label(10, 0, 0, FALSE, 1024, 0, <<3, -5>>, <<104, 105>>, r, PR0)), SubCell>>), 1),
                   \* (a reference with a lattice repetition becomes an AREF, whose pitch is stored through
                   \* two rounded corner points: with an off-grid pitch the interior copies are not at
                   \* round(origin + offset), a limit of the record, so only the explicit kinds, which are
                   \* written as one SREF per copy, are held to the rule here)
                   Case(AL8(<<One("refs", Ref(S_CELL, "cell", FALSE, 1024, 0, <<-5, 11>>,
                                               IF r.type \in {"rect", "regular"} THEN NoRep ELSE r, PR0)), SubCell>>), 1)}
                  \cup {Case(AL8(<<SubCell, One("paths", Path(rb, TRUE, TRUE, <<El(1, 0, 41, 0, 4, <<21, -13>>)>>,
                                                             Spine8, r, PR0))>>), 1) : rb \in BOOLEAN}
                  : r \in Reps8}
RawProps == {Case(AL(1, <<One("polys", Poly(7, 1, RectQ, NoRep, PR3)), SubCell>>), 1),
             Case(AL(1, <<One("labels", Label(10, 0, 0, FALSE, 1024, 0, <<1, 3>>, <<104, 105>>, NoRep, PR3)), SubCell>>), 1),
             Case(AL(1, <<One("refs", Ref(S_CELL, "cell", FALSE, 1024, 0, <<41, 83>>, Rect(3, 2, <<400, 800>>), PR3)), SubCell>>), 1),
             Case(AL(1, <<SubCell, One("paths", Path(FALSE, TRUE, TRUE, <<El(1, 0, 41, 0, 4, <<21, -13>>)>>, LSpine, NoRep, PR3))>>), 1)}
Cases == Singles \cup Mixed \cup Eighths \cup RawProps \cup {Case(AL(1, <<>>), 1)}

Init == case \in Cases
Next == UNCHANGED case

\* ---- theorems: Norm is idempotent on what it produces (a second save/load changes nothing) --
\* re-describe a normal form as an AL (whole database units) and normalise again
ReAL(m) == [name |-> m.name, cells |->
    [i \in DOMAIN m.cells |->
        LET c == m.cells[i] IN
        [name |-> c.name,
         polys |-> [k \in DOMAIN c.polys |-> Poly(c.polys[k].l, c.polys[k].t,
                      [q \in DOMAIN c.polys[k].xy |-> <<4 * c.polys[k].xy[q][1], 4 * c.polys[k].xy[q][2]>>],
                      NoRep, <<>>)],
         paths |-> <<>>, labels |-> <<>>, refs |-> <<>>]]]
StripProps(m) == [m EXCEPT !.cells = [i \in DOMAIN m.cells |->
                    [m.cells[i] EXCEPT !.polys = [k \in DOMAIN m.cells[i].polys |->
                        [m.cells[i].polys[k] EXCEPT !.props = {}]],
                     !.paths = <<>>, !.labels = <<>>, !.refs = <<>>]]]
Idempotent == Norm(ReAL(Norm(case.al))) = StripProps(Norm(case.al))

AppendOpts == [format |-> "TXT", charset |-> "UTF-8",
               openOptions |-> <<"WRITE", "CREATE", "APPEND">>]
Export == Serialize(ToJson(case) \o "\n", IOEnv.GEN_OUT, AppendOpts).exitValue = 0
=============================================================================
