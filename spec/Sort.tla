-------------------------------- MODULE Sort --------------------------------
(***************************************************************************)
(* include/gdstk/sort.hpp transcribed: insertion sort, heap sort (bottom-  *)
(* up sift with leaf search), Hoare partition with a median of three on    *)
(* indices 0, hi/4, hi, and the intro sort that combines them.  Arrays are *)
(* functions [0..n-1 -> element]; every index used by the code is used by  *)
(* the transcription, so an out-of-range access (the Hoare loops rely on   *)
(* sentinels) is a TLC evaluation error, not a silent wrap.                *)
(* The thresholds are constants so that all three regimes are reachable in *)
(* a scope TLC can enumerate; gdstk's values are InsMax = 16, DepthMul = 2.*)
(***************************************************************************)
EXTENDS Naturals, Integers, Sequences, FiniteSets, TLC

CONSTANTS InsMax,     \* arrays of at most this many items are insertion sorted
          DepthMul    \* depth budget = DepthMul * floor(log2(count))

\* ---- strict orderings over small integers (comparator id c) --------------
Lt(c, a, b) == CASE c = "lt"  -> a < b
                 [] c = "gt"  -> a > b
                 [] c = "mod" -> (a % 2) < (b % 2)      \* a strict WEAK order (many ties)
                 [] c = "div" -> (a \div 3) < (b \div 3)

Swap(a, i, j) == [a EXCEPT ![i] = a[j], ![j] = a[i]]

\* ---- insertion_sort(items + lo, n) -----------------------------------------
RECURSIVE InsInner(_, _, _, _, _)
InsInner(a, lo, j, store, c) ==
    IF j >= 0 /\ Lt(c, store, a[lo + j])
    THEN InsInner([a EXCEPT ![lo + j + 1] = a[lo + j]], lo, j - 1, store, c)
    ELSE [a EXCEPT ![lo + j + 1] = store]
RECURSIVE InsOuter(_, _, _, _, _)
InsOuter(a, lo, i, n, c) ==
    IF i >= n THEN a ELSE InsOuter(InsInner(a, lo, i - 1, a[lo + i], c), lo, i + 1, n, c)
InsertionSort(a, lo, n, c) == InsOuter(a, lo, 1, n, c)

\* ---- heap_sort ---------------------------------------------------------------
Parent(n) == (n - 1) \div 2        \* only used with n >= 1, or n = 0 via the C shift (-1)
CParent(n) == IF n = 0 THEN -1 ELSE IF n = -1 THEN -1 ELSE (n - 1) \div 2
Left(n) == 2 * n + 1
Right(n) == 2 * n + 2

RECURSIVE LeafSearch(_, _, _, _, _)
LeafSearch(a, lo, j, end, c) ==
    IF Right(j) <= end
    THEN LeafSearch(a, lo, IF Lt(c, a[lo + Left(j)], a[lo + Right(j)]) THEN Right(j) ELSE Left(j),
                    end, c)
    ELSE IF Left(j) <= end THEN Left(j) ELSE j

RECURSIVE ClimbWhileSorted(_, _, _, _, _)
ClimbWhileSorted(a, lo, j, start, c) ==
    IF Lt(c, a[lo + j], a[lo + start]) THEN ClimbWhileSorted(a, lo, CParent(j), start, c) ELSE j

\* the rotation loop: store bubbles up from j to start
RECURSIVE Rotate(_, _, _, _, _)
Rotate(a, lo, j, start, store) ==
    IF j > start
    THEN LET p == CParent(j) IN Rotate([a EXCEPT ![lo + p] = store], lo, p, start, a[lo + p])
    ELSE a

SiftDown(a, lo, start, end, c) ==
    LET j0 == LeafSearch(a, lo, start, end, c)
        j == ClimbWhileSorted(a, lo, j0, start, c)
        store == a[lo + j]
        a1 == [a EXCEPT ![lo + j] = a[lo + start]]
    IN  Rotate(a1, lo, j, start, store)

RECURSIVE BuildHeap(_, _, _, _, _)
BuildHeap(a, lo, start, n, c) ==
    IF start < 0 THEN a ELSE BuildHeap(SiftDown(a, lo, start, n - 1, c), lo, start - 1, n, c)
RECURSIVE HeapLoop(_, _, _, _)
HeapLoop(a, lo, end, c) ==
    IF end > 0
    THEN HeapLoop(SiftDown(Swap(a, lo, lo + end), lo, 0, end - 1, c), lo, end - 1, c)
    ELSE a
HeapSort(a, lo, n, c) == HeapLoop(BuildHeap(a, lo, CParent(n - 1), n, c), lo, n - 1, c)

\* ---- partition -----------------------------------------------------------------
RECURSIVE ScanUp(_, _, _, _, _)
ScanUp(a, lo, i, pivot, c) ==       \* do i++ while sorted(items[i], pivot)
    IF Lt(c, a[lo + i + 1], pivot) THEN ScanUp(a, lo, i + 1, pivot, c) ELSE i + 1
RECURSIVE ScanDown(_, _, _, _, _)
ScanDown(a, lo, j, pivot, c) ==     \* do j-- while sorted(pivot, items[j])
    IF Lt(c, pivot, a[lo + j - 1]) THEN ScanDown(a, lo, j - 1, pivot, c) ELSE j - 1
RECURSIVE HoareLoop(_, _, _, _, _, _)
HoareLoop(a, lo, i, j, pivot, c) ==
    LET i2 == ScanUp(a, lo, i, pivot, c)
        j2 == ScanDown(a, lo, j, pivot, c)
    IN  IF i2 >= j2 THEN <<a, j2 + 1>>
        ELSE HoareLoop(Swap(a, lo + i2, lo + j2), lo, i2, j2, pivot, c)

Partition(a, lo, n, c) ==
    LET hi == n - 1
        mid == hi \div 4
        a1 == IF Lt(c, a[lo + hi], a[lo]) THEN Swap(a, lo, lo + hi) ELSE a
        a2 == IF Lt(c, a1[lo + mid], a1[lo]) THEN Swap(a1, lo, lo + mid) ELSE a1
        a3 == IF Lt(c, a2[lo + hi], a2[lo + mid]) THEN Swap(a2, lo + mid, lo + hi) ELSE a2
    IN  HoareLoop(a3, lo, -1, n, a3[lo + mid], c)

\* ---- intro_sort ------------------------------------------------------------------
RECURSIVE IntroSort(_, _, _, _, _)
IntroSort(a, lo, n, depth, c) ==
    IF n <= 1 THEN a
    ELSE IF n = 2 THEN (IF Lt(c, a[lo + 1], a[lo]) THEN Swap(a, lo, lo + 1) ELSE a)
    ELSE IF n <= InsMax THEN InsertionSort(a, lo, n, c)
    ELSE IF depth = 0 THEN HeapSort(a, lo, n, c)
    ELSE LET pr == Partition(a, lo, n, c)
             p == pr[2]
             left == IntroSort(pr[1], lo, p, depth - 1, c)
         IN  IntroSort(left, lo + p, n - p, depth - 1, c)

RECURSIVE Log2(_)
Log2(n) == IF n <= 1 THEN 0 ELSE 1 + Log2(n \div 2)
SortArr(a, n, c) == IntroSort(a, 0, n, DepthMul * Log2(n), c)

\* ---- the property -------------------------------------------------------------------
Arr(s) == [i \in 0..(Len(s) - 1) |-> s[i + 1]]
IsOrdered(a, n, c) == \A i \in 0..(n - 2) : ~Lt(c, a[i + 1], a[i])
CountIn(a, n, x) == Cardinality({i \in 0..(n - 1) : a[i] = x})
IsPermutation(a, b, n) == \A x \in {a[i] : i \in 0..(n - 1)} \cup {b[i] : i \in 0..(n - 1)} :
                             CountIn(a, n, x) = CountIn(b, n, x)
SortedPermutation(inp, out, n, c) == IsOrdered(out, n, c) /\ IsPermutation(inp, out, n)

\* Termination measure of partition: both parts non-empty, so the recursion shrinks.
PartitionProgress(a, n, c) == LET p == Partition(a, 0, n, c)[2] IN p >= 1 /\ p <= n - 1
=============================================================================
