INIT TInit
NEXT TNext
CONSTANTS
  Cells <- MCCells
  Raws <- MCRaws
  NewNames <- MCNewNames
  TagMaps <- MCTagMaps
  MaxLen = 0
INVARIANTS TraceInv
CHECK_DEADLOCK FALSE
