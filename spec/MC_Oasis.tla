------------------------------ MODULE MC_Oasis ------------------------------
(***************************************************************************)
(* File generator for C04 (forward direction): TLC walks the modal machine  *)
(* of Oasis.tla.  One step = one record appended to the file body.  The     *)
(* candidate records of a step are serialised by the encoders below         *)
(* (independent of the parser) and a candidate is enabled only if the       *)
(* machine accepts it (no undefined modal variable, element inside a cell,  *)
(* ...), so every behaviour is a legal file.  Finish closes the file: the   *)
(* missing name-table records, optional CBLOCK around a run of records,     *)
(* END with padding and validation signature.  The Export invariant writes  *)
(* each finished file as one JSON line.                                     *)
(*                                                                         *)
(* Theorems checked on every state: the strict parser reads back exactly    *)
(* the record that was serialised (ParserAgrees); the machine never goes    *)
(* bad (Legal).                                                             *)
(***************************************************************************)
EXTENDS Oasis, Json, IOUtils

CONSTANTS Salts, MaxRecs, MinRecs,     \* records added by the walk (after the prefix)
          Mode                    \* "walk": random walks over everything; "pairs": exhaustive short files
VARIABLES st, body, cfg, phase, lastk, file

vars == <<st, body, cfg, phase, lastk, file>>

\* ---- encoders ---------------------------------------------------------------------------
EU(n) == EncUnsigned(FromInt(n))
EU2(n) == GroupsToBytes(FromInt(n), MinGroups(FromInt(n)) + 1)       \* legal non-minimal form
EW(bits) == EncUnsigned(bits)
ES(n) == EncSigned(SOfInt(n))
EStr(s) == EU(Len(s)) \o s
EG(x, y, form) == IF form = 0 /\ DirOf(DOfInts(x, y)) >= 0 THEN EncGDelta0(DOfInts(x, y)) ELSE EncGDelta1(DOfInts(x, y))
F(info, mask, bytes) == IF Has(info, mask) THEN bytes ELSE <<>>
RECURSIVE Flat(_)
Flat(chunks) == IF chunks = <<>> THEN <<>> ELSE Head(chunks) \o Flat(Tail(chunks))

\* IEEE encodings of a few dyadic values (little endian)
F32(v) == CASE v = 1000 -> <<0, 0, 122, 68>> [] v = 2 -> <<0, 0, 0, 64>> [] v = 90 -> <<0, 0, 180, 66>>
            [] v = 45 -> <<0, 0, 52, 66>> [] v = 1 -> <<0, 0, 128, 63>> [] OTHER -> <<0, 0, 0, 63>>        \* 0.5
F64(v) == CASE v = 1000 -> <<0, 0, 0, 0, 0, 64, 143, 64>> [] v = 2 -> <<0, 0, 0, 0, 0, 0, 0, 64>>
            [] v = 90 -> <<0, 0, 0, 0, 0, 128, 86, 64>> [] v = 45 -> <<0, 0, 0, 0, 0, 128, 70, 64>>
            [] v = 1 -> <<0, 0, 0, 0, 0, 0, 240, 63>> [] OTHER -> <<0, 0, 0, 0, 0, 0, 224, 63>>
\* a positive integer value v in real encoding number e (0 integer, 2 reciprocal of.., 4 ratio, 6, 7)
RealEnc(v, e) == CASE e = 0 -> <<0>> \o EU(v)
                   [] e = 4 -> <<4>> \o EU(3 * v) \o EU(3)
                   [] e = 6 -> <<6>> \o F32(v)
                   [] e = 7 -> <<7>> \o F64(v)
                   [] OTHER -> <<0>> \o EU2(v)

\* ---- value palettes (indexed by the step number i and a variant j) ----------------------
Xs == <<0, 7, -13, 120, -300, 5, 64, -1>>
Ys == <<0, -9, 21, -250, 33, 128, -64, 2>>
Pick(seq, k) == seq[(k % Len(seq)) + 1]
Layers == << <<>>, <<1>>, FromInt(70000), <<0, 1>>, Zeros(31) \o <<1>>, [q \in 1..32 |-> 1] >>
LayerV(k) == Pick(Layers, k)

\* repetition field bytes
RepV(k) == Pick(<< <<1, 1, 0, 10, 20>>,                                   \* 3 x 2, spacings 10 / 20
                   <<2, 2, 15>>, <<3, 0, 9>>,
                   <<4, 1, 5, 12>>, <<5, 1, 4, 2, 3>>,                    \* x: 0 5 17 | grid 4: 0 8 20
                   <<6, 0, 7>>, <<7, 1, 3, 1, 1>>,
                   <<8, 0, 1>> \o EG(10, 2, 1) \o EG(-3, 11, 1),          \* 2 x 3 general lattice
                   <<8, 1, 0>> \o EG(6, 6, 0) \o EG(0, -8, 0),
                   <<9, 1>> \o EG(-7, 7, 0),
                   <<10, 1>> \o EG(5, -5, 0) \o EG(-20, 3, 1),
                   <<11, 1, 3>> \o EG(1, 2, 1) \o EG(-4, 0, 0) >>, k)
\* point lists (type, count, deltas)
PolyPts(k) == Pick(<< <<0, 2>> \o ES(30) \o ES(20),                          \* rectangle, implicit closing
                      <<1, 4>> \o ES(10) \o ES(25) \o ES(15) \o ES(-12),     \* vertical first, 6 vertices
                      <<2, 3>> \o Enc2Delta(DOfInts(40, 0)) \o Enc2Delta(DOfInts(0, 30)) \o Enc2Delta(DOfInts(-40, 0)),
                      <<3, 3>> \o Enc3Delta(DOfInts(20, 20)) \o Enc3Delta(DOfInts(-20, 20)) \o Enc3Delta(DOfInts(-20, -20)),
                      <<4, 3>> \o EG(50, 10, 1) \o EG(-10, 30, 1) \o EG(-45, -5, 1),
                      <<5, 3>> \o EG(30, 0, 0) \o EG(-30, 25, 1) \o EG(-30, -25, 1) >>, k)   \* (30,0) (0,25) (-30,0)
PathPts(k) == Pick(<< <<0, 3>> \o ES(40) \o ES(30) \o ES(-15),
                      <<1, 2>> \o ES(-25) \o ES(35),
                      <<2, 2>> \o Enc2Delta(DOfInts(0, 50)) \o Enc2Delta(DOfInts(60, 0)),
                      <<3, 2>> \o Enc3Delta(DOfInts(30, -30)) \o Enc3Delta(DOfInts(40, 0)),
                      <<4, 2>> \o EG(35, 12, 1) \o EG(18, -40, 1),
                      <<5, 2>> \o EG(20, 0, 0) \o EG(0, 20, 0) >>, k)                        \* (20,0) then (20,20)

NameStr(n) == Pick(<< <<65>>, <<66>>, <<67, 49>>, <<68>> >>, n)           \* cell names 0..3 (3 never a cell)
TextStr(n) == Pick(<< <<84, 48>>, <<104, 105>> >>, n)
PropNameStr(n) == Pick(<< <<80, 48>>, <<81>> >>, n)
PropStr(n) == Pick(<< <<118, 48>>, <<1, 2, 255>> >>, n)

\* property value lists (count, bytes)
ValsV(k) == Pick(<< <<1, <<8>> \o EU(77)>>,
                    <<2, <<9>> \o ES(-5) \o <<0>> \o EU(3)>>,
                    <<3, <<1>> \o EU(12) \o <<2>> \o EU(4) \o <<5>> \o EU(7) \o EU(2)>>,        \* -12, 1/4, -7/2
                    <<2, <<6>> \o F32(0) \o <<7>> \o F64(90)>>,                                  \* 0.5, 90.0
                    <<2, <<10>> \o EStr(<<97, 32, 98>>) \o <<11>> \o EStr(<<0, 200>>)>>,
                    <<2, <<12>> \o EStr(<<110>>) \o <<14, 1>>>>,                                  \* n-string, ref 1
                    <<1, <<13, 0>>>>,
                    <<0, <<>>>>,
                    <<16, Flat([q \in 1..16 |-> <<8>> \o EU(q)])>> >>, k)                          \* count >= 15

N == Len(body) - Len(cfg.prefix)          \* records added by the walk so far

\* ---- candidate records of step i ----------------------------------------------------------
Geo(i, j) == [x |-> Pick(Xs, i + j), y |-> Pick(Ys, i + 2 * j), layer |-> LayerV(i + j), dtype |-> LayerV(i + 3 * j),
              w |-> 10 + 3 * ((i + j) % 5), h |-> 6 + 2 * ((i + 2 * j) % 7), rep |-> RepV(i + 5 * j)]
LTf(info, g) == F(info, 1, EW(g.layer)) \o F(info, 2, EW(g.dtype))
XYR(info, g, mx, my, mr) == F(info, mx, ES(g.x)) \o F(info, my, ES(g.y)) \o F(info, mr, g.rep)
RepOrReuse(info, mr, g, reuse) == F(info, mr, IF reuse THEN <<0>> ELSE g.rep)

Rect(info, g) == <<20, info>> \o LTf(info, g) \o F(info, 64, EU(g.w)) \o F(info, 32, EU(g.h)) \o XYR(info, g, 16, 8, 4)
Poly(info, g, k) == <<21, info>> \o LTf(info, g) \o F(info, 32, PolyPts(k)) \o XYR(info, g, 16, 8, 4)
PathR(info, g, k, scheme) ==
    <<22, info>> \o LTf(info, g) \o F(info, 64, EU(g.w \div 2)) \o
    F(info, 128, <<scheme>> \o (IF (scheme \div 4) % 4 = 3 THEN ES(Pick(<<4, -3, 0>>, k)) ELSE <<>>)
                            \o (IF scheme % 4 = 3 THEN ES(Pick(<<-2, 9, 5>>, k)) ELSE <<>>)) \o
    F(info, 32, PathPts(k)) \o XYR(info, g, 16, 8, 4)
Trap(id, info, g, da, db) ==
    <<id, info>> \o LTf(info, g) \o F(info, 64, EU(g.w)) \o F(info, 32, EU(g.h)) \o
    (IF id \in {23, 24} THEN ES(da) ELSE <<>>) \o (IF id \in {23, 25} THEN ES(db) ELSE <<>>) \o XYR(info, g, 16, 8, 4)
CTrap(info, g, t) == <<26, info>> \o LTf(info, g) \o F(info, 128, EU(t)) \o F(info, 64, EU(g.w)) \o F(info, 32, EU(g.h))
                     \o XYR(info, g, 16, 8, 4)
Circle(info, g) == <<27, info>> \o LTf(info, g) \o F(info, 32, EU(20 + g.w)) \o XYR(info, g, 16, 8, 4)
TextR(info, g, n) == <<19, info>> \o F(info, 64, IF Has(info, 32) THEN EU(n % 2) ELSE EStr(TextStr(n)))
                     \o LTf(info, g) \o XYR(info, g, 16, 8, 4)
Place17(info, g, n) == <<17, info>> \o F(info, 128, IF Has(info, 64) THEN EU(n % 4) ELSE EStr(NameStr(n)))
                       \o XYR(info, g, 32, 16, 8)
Place18(info, g, n, me, ae, mv, av) ==
    <<18, info>> \o F(info, 128, IF Has(info, 64) THEN EU(n % 4) ELSE EStr(NameStr(n)))
    \o F(info, 4, RealEnc(mv, me)) \o F(info, 2, RealEnc(av, ae)) \o XYR(info, g, 32, 16, 8)
PropR(info, n, vals) ==
    <<28, info + 16 * (IF Has(info, 8) THEN 0 ELSE IF vals[1] >= 15 THEN 15 ELSE vals[1])>>
    \o F(info, 4, IF Has(info, 2) THEN EU(n % 2) ELSE EStr(PropNameStr(n)))
    \o (IF ~Has(info, 8) /\ vals[1] >= 15 THEN EU(vals[1]) ELSE <<>>)
    \o (IF Has(info, 8) THEN <<>> ELSE vals[2])

InfoPat(seq, i, j) == Pick(seq, i + j)
\* j ranges over 0..2: three variants per kind and step
Variants == IF Mode = "pairs" /\ N >= 1 THEN {0} ELSE 0..2
Candidates(i) ==
    UNION {
      LET g == Geo(i, j) IN
      { Rect(InfoPat(<<123, 127, 219, 0, 24, 99, 128, 4, 64, 223>>, i, j), g),
        Rect(123, g),
        Poly(InfoPat(<<59, 63, 0, 24, 35, 32, 4>>, i, j), g, i + j),
        Poly(59, g, i + 2 * j),
        PathR(InfoPat(<<251, 255, 0, 24, 128, 96, 187, 68>>, i, j), g, i + j, Pick(<<5, 10, 15, 7, 13, 0, 1, 4, 11>>, i + j)),
        PathR(251, g, i + 2 * j, Pick(<<5, 10, 15, 14, 6>>, i + j)),
        Trap(Pick(<<23, 24, 25>>, i + j), InfoPat(<<123, 251, 127, 0, 152, 227, 99>>, i, j), g,
             Pick(<<4, -5, 0, 6>>, i + j), Pick(<<-3, 2, 5, 0>>, i + 2 * j)),
        CTrap(InfoPat(<<251, 255, 251, 27, 24, 155>>, i, j), g, (7 * i + 3 * j) % 26),
        CTrap(155 + (IF CTrapUsesW((5 * i + j) % 26) THEN 64 ELSE 0) + (IF CTrapUsesH((5 * i + j) % 26) THEN 32 ELSE 0),
              g, (5 * i + j) % 26),
        Circle(InfoPat(<<59, 63, 0, 24, 32>>, i, j), g),
        TextR(InfoPat(<<91, 123, 95, 0, 24, 64, 99, 4>>, i, j), g, i + j),
        TextR(123, g, 2 * (i + j)),                      \* text string number 0, explicit everything
        Place17(InfoPat(<<176, 240, 184, 0, 48, 183, 245, 8, 179>>, i, j), g, i + j),
        Place18(InfoPat(<<182, 246, 190, 0, 180, 178, 55, 6>>, i, j), g, i + j,
                Pick(<<0, 4, 6, 7, 1>>, i + j), Pick(<<7, 0, 6, 4>>, i + 2 * j), Pick(<<2, 1, 2>>, i + j), Pick(<<90, 45, 90, 1>>, i + j)),
        PropR(InfoPat(<<4, 6, 5, 0, 12, 14, 8, 7>>, i, j), i + j, ValsV(i + 2 * j)),
        PropR(4, i + j, ValsV(i + j)),
        <<14>> \o EStr(NameStr(i + j)), <<13>> \o EU((i + j) % 3) }
      : j \in Variants }
    \cup
    \* name-table, mode and padding records: one variant per step, so that elements dominate
    { <<3>> \o EStr(NameStr(Len(st.cellnames))), <<4>> \o EStr(NameStr(i)) \o EU(i % 4),
      <<5>> \o EStr(TextStr(Len(st.textstrings))), <<6>> \o EStr(TextStr(i)) \o EU(i % 2),
      <<7>> \o EStr(PropNameStr(Len(st.propnames))), <<8>> \o EStr(PropNameStr(i)) \o EU(i % 2),
      <<9>> \o EStr(PropStr(Len(st.propstrings))), <<10>> \o EStr(PropStr(i)) \o EU(i % 2),
      <<29>>, <<0>>, <<15>>, <<16>>,
      <<11>> \o EStr(<<76>>) \o <<3, 5, 4, 1, 2>>, <<12>> \o EStr(<<77>>) \o <<0, 1, 9>>,
      \* extension records (skipped by the reader, which reports UnsupportedRecord)
      <<30>> \o EU(7) \o EStr(<<120>>), <<31>> \o EU(7) \o EStr(<<120, 121>>) \o EU(3), <<32>> \o EU(1) \o EStr(<<1, 2, 3>>),
      <<33, Pick(<<27, 0, 24, 31, 4>>, i)>> \o EU(2) \o F(Pick(<<27, 0, 24, 31, 4>>, i), 1, EW(LayerV(i)))
            \o F(Pick(<<27, 0, 24, 31, 4>>, i), 2, EW(LayerV(i + 1))) \o EStr(<<9, 9>>)
            \o XYR(Pick(<<27, 0, 24, 31, 4>>, i), Geo(i, 1), 16, 8, 4) }

\* ---- legality of a candidate in the current state --------------------------------------------
\* name records must keep their table consistent with the universe; a cell name is used once;
\* cells 0..2 only; PROPERTY must directly follow its owner
TableOKFor(tab, r, strOf(_)) ==
    LET cur == st[tab]
        num == IF r.k % 2 = 1 THEN Len(cur) ELSE r.f.num IN
    r.f.str = strOf(num) /\ (r.k % 2 = 1 => \A q \in DOMAIN cur : cur[q].implicit)
CandOK(r) ==
    CASE r.k \in {3, 4} -> TableOKFor("cellnames", r, NameStr) /\ (r.k = 3 => Len(st.cellnames) <= 3)
      [] r.k \in {5, 6} -> TableOKFor("textstrings", r, TextStr) /\ (r.k = 5 => Len(st.textstrings) <= 1)
      [] r.k \in {7, 8} -> TableOKFor("propnames", r, PropNameStr) /\ (r.k = 7 => Len(st.propnames) <= 1)
      [] r.k \in {9, 10} -> TableOKFor("propstrings", r, PropStr) /\ (r.k = 9 => Len(st.propstrings) <= 1)
      [] r.k \in {13, 14} ->
            LET nm == IF r.k = 13 THEN NameStr(r.f.num) ELSE r.f.str IN
            /\ nm # NameStr(3)
            /\ \A c \in DOMAIN st.cells :
                   (IF st.cells[c].name[1] = "num" THEN NameStr(st.cells[c].name[2]) ELSE st.cells[c].name[2]) # nm
      [] r.k \in {28, 29} -> lastk \notin {0, 15, 16} /\ (r.k = 29 => lastk # -1)
      [] OTHER -> TRUE

\* file-level choices.  "pairs" keeps them few and varies the palette salt and the prefix instead
Configs ==
    IF Mode = "walk"
    THEN [unit : {RealEnc(1000, e) : e \in {0, 4, 6, 7, 1}} \cup {RealEnc(2, 0)},
          offs_in_end : BOOLEAN, scheme : 0..2,
          cb : {<<0, 0, 0>>, <<1, 2, 4>>, <<2, 1, 3>>, <<3, 3, 9>>, <<2, 2, 99>>, <<1, 4, 4>>},
          salt : 0..25, prefix : {<<>>}]
    ELSE [unit : {RealEnc(1000, 0)}, offs_in_end : {TRUE}, scheme : {0},
          cb : {<<0, 0, 0>>, <<2, 2, 99>>},
          salt : Salts,
          \* third prefix: a TEXTSTRING whose property gives its name and a value by reference number,
          \* then a cell: labels that use the string by number inherit that property
          prefix : {<< <<14>> \o EStr(NameStr(0)) >>, << <<13, 1>>, <<16>> >>,
                    << <<5>> \o EStr(TextStr(0)), <<28, 38, 0>> \o <<12>> \o EStr(<<110>>) \o <<14, 1>>, <<14>> \o EStr(NameStr(0)) >>}]
RECURSIVE RunChunks(_, _, _)
RunChunks(s, chunks, i) ==
    IF i > Len(chunks) THEN s
    ELSE LET r == RecordAt(chunks[i], 1) IN RunChunks(Step(s, [k |-> r.k, f |-> r.f, off |-> -1]), chunks, i + 1)
Init == /\ cfg \in Configs
        /\ st = RunChunks(State0, cfg.prefix, 1) /\ body = cfg.prefix
        /\ phase = "body" /\ lastk = (IF cfg.prefix = <<>> THEN -1 ELSE 14) /\ file = <<>>

AddRecord ==
    /\ phase = "body" /\ N < MaxRecs
    /\ \E c \in Candidates(N + cfg.salt) :
          LET r == RecordAt(c, 1) IN
          /\ Assert(r.ok /\ r.next = Len(c) + 1, <<"ParserAgrees", c>>)
          /\ CandOK(r)
          /\ LET s2 == Step(st, [k |-> r.k, f |-> r.f, off |-> -1]) IN
             /\ s2.bad = {}
             /\ st' = s2
          /\ body' = Append(body, c)
          /\ lastk' = r.k
    /\ UNCHANGED <<cfg, phase, file>>

\* name records still missing at the end of the file
MissingNames(tab, idseq, strOf(_), n) ==
    LET cur == st[tab]
        implicit == cur # <<>> /\ cur[1].implicit
        have == {cur[q].num : q \in DOMAIN cur} IN
    IF implicit THEN [q \in 1..(n - Len(cur)) |-> <<idseq[1]>> \o EStr(strOf(Len(cur) + q - 1))]
    ELSE LET need == {q \in 0..(n - 1) : q \notin have}
             RECURSIVE Lst(_)
             Lst(S) == IF S = {} THEN <<>> ELSE LET q == CHOOSE z \in S : \A y \in S : z <= y IN
                                                <<<<idseq[2]>> \o EStr(strOf(q)) \o EU(q)>> \o Lst(S \ {q}) IN
         Lst(need)
Tail4 == MissingNames("cellnames", <<3, 4>>, NameStr, 4) \o MissingNames("textstrings", <<5, 6>>, TextStr, 2)
         \o MissingNames("propnames", <<7, 8>>, PropNameStr, 2) \o MissingNames("propstrings", <<9, 10>>, PropStr, 2)

CBlock(mode, data) ==
    LET z == CASE mode = 1 -> DeflateStored(data)
               [] mode = 2 -> DeflateFixed(data)
               [] OTHER -> DeflateStored2(data, Len(data) \div 2) IN
    <<34, 0>> \o EU(Len(data)) \o EU(Len(z)) \o z
Wrapped(chunks) ==
    LET a == cfg.cb[2]
        b == Min(cfg.cb[3], Len(chunks)) IN
    IF cfg.cb[1] = 0 \/ a > b THEN chunks
    ELSE SubSeq(chunks, 1, a - 1) \o <<CBlock(cfg.cb[1], Flat(SubSeq(chunks, a, b)))>> \o SubSeq(chunks, b + 1, Len(chunks))
Zeros12 == [q \in 1..12 |-> 0]
FileOf ==
    LET chunks == Wrapped(body) \o Tail4
        head == Magic \o <<1>> \o EStr(<<49, 46, 48>>) \o cfg.unit
                \o (IF cfg.offs_in_end THEN <<1>> ELSE <<0>> \o Zeros12)
        siglen == IF cfg.scheme = 0 THEN 0 ELSE 4
        padlen == 256 - 1 - (IF cfg.offs_in_end THEN 12 ELSE 0) - 2 - 1 - siglen
        pre == head \o Flat(chunks) \o <<2>> \o (IF cfg.offs_in_end THEN Zeros12 ELSE <<>>)
               \o EU(padlen) \o [q \in 1..padlen |-> 0] \o <<cfg.scheme>> IN
    pre \o (CASE cfg.scheme = 1 -> Crc32LE(pre, Len(pre))
              [] cfg.scheme = 2 -> Checksum32LE(pre, Len(pre))
              [] OTHER -> <<>>)

CloseFile == /\ phase = "body" /\ Len(st.cells) > 0 /\ N >= MinRecs
          /\ phase' = "done" /\ file' = FileOf
          /\ UNCHANGED <<st, body, cfg, lastk>>

Next == AddRecord \/ CloseFile
Spec == Init /\ [][Next]_vars

\* ---- theorems ----------------------------------------------------------------------------------
Legal == st.bad = {}
\* ParserAgrees (every candidate the serialisers produce parses back to one record that consumes
\* it entirely) is asserted inside AddRecord, where the candidates are enumerated anyway.
\* a finished file decodes, without complaint, to the layout the machine accumulated
Count(d) == [c \in DOMAIN d.cells |-> <<Len(d.cells[c].polys), Len(d.cells[c].paths), Len(d.cells[c].refs),
                                       Len(d.cells[c].labels), Len(d.cells[c].props)>>]
FileDecodes == phase = "done" =>
                 LET d == Decode(file) IN
                 IF ~d.ok THEN PrintT("decode_fail " \o d.why \o " at " \o ToString(d.at)) /\ FALSE
                 ELSE Count(d.st) = Count(st) /\ d.st.libprops = st.libprops

AppendOpts == [format |-> "TXT", charset |-> "UTF-8", openOptions |-> <<"WRITE", "CREATE", "APPEND">>]
Export == phase = "done" => Serialize(ToJson([bytes |-> file]) \o "\n", IOEnv.GEN_OUT, AppendOpts).exitValue = 0
=============================================================================
