------------------------------- MODULE OasProj -------------------------------
(***************************************************************************)
(* Comparison of a layout denoted by an OASIS file (Oasis!Decode) with the  *)
(* projection of a gdstk Library logged by the harness (proj.hpp, all       *)
(* lengths in 1/1000 grid unit).  Every operator returns a set of strings:  *)
(* the clauses that FAIL (empty = agreement).                               *)
(***************************************************************************)
EXTENDS Oasis

Fine == 1000
Abs(x) == IF x < 0 THEN -x ELSE x
\* a 32-bit field as TLC sees the logged JSON number (wrapped into a signed 32-bit integer)
WrapInt(bits) == LET b == Pad(bits, 32) IN
                 IF Len(Trim(bits)) > 32 THEN 0
                 ELSE IF b[32] = 1 THEN ToInt(SubSeq(b, 1, 31)) - 2147483647 - 1 ELSE ToInt(SubSeq(b, 1, 31))
OnGrid(p) == p[1] % Fine = 0 /\ p[2] % Fine = 0
ToGrid(p) == <<p[1] \div Fine, p[2] \div Fine>>
PtsOnGrid(ps) == \A i \in DOMAIN ps : OnGrid(ps[i])
GridPts(ps) == [i \in DOMAIN ps |-> ToGrid(ps[i])]

\* rings: equal up to rotation and direction, consecutive duplicates / closing duplicate removed
RECURSIVE DedupRec(_, _, _)
DedupRec(ps, i, acc) == IF i > Len(ps) THEN acc
                        ELSE IF acc # <<>> /\ acc[Len(acc)] = ps[i] THEN DedupRec(ps, i + 1, acc)
                        ELSE DedupRec(ps, i + 1, Append(acc, ps[i]))
Dedup0(ps) == DedupRec(ps, 1, <<>>)            \* consecutive duplicates only (open lists)
Dedup(ps) == LET d == DedupRec(ps, 1, <<>>) IN
             IF Len(d) > 1 /\ d[1] = d[Len(d)] THEN SubSeq(d, 1, Len(d) - 1) ELSE d
Rot(ps, k) == [i \in DOMAIN ps |-> ps[((i + k - 1) % Len(ps)) + 1]]
Rev(ps) == [i \in DOMAIN ps |-> ps[Len(ps) + 1 - i]]
SameRing(a0, b0) == LET a == Dedup(a0)
                        b == Dedup(b0) IN
                    /\ Len(a) = Len(b)
                    /\ (Len(a) = 0 \/ \E k \in 0..(Len(a) - 1) : Rot(a, k) = b \/ Rot(Rev(a), k) = b)
SameBag(a, b) == /\ Len(a) = Len(b)
                 /\ \A i \in DOMAIN a : Cardinality({j \in DOMAIN a : a[j] = a[i]}) = Cardinality({j \in DOMAIN b : b[j] = a[i]})

\* ---- values -------------------------------------------------------------------------------
\* a decoded real as a multiple of 1/q (q a power of two <= 1024); -1 if it is not one exactly
RealTimes(r, q) ==
    CASE r.kind = "ratio" ->
            IF Len(r.a) > 20 \/ Len(r.b) > 20 THEN -1
            ELSE LET a == ToInt(r.a)
                     b == ToInt(r.b) IN
                 IF (q * a) % b # 0 THEN -1 ELSE (IF r.neg THEN -1 ELSE 1) * ((q * a) \div b)
      [] OTHER ->
            LET d == IF r.kind = "single" THEN SingleToDoubleBits(r.bits) ELSE r.bits
                m == DblMant(d)
                e == DblExp(d) + (CASE q = 1024 -> 10 [] q = 64 -> 6 [] OTHER -> 0)
                v == IF e >= 0 THEN Shl(m, e) ELSE IF IsZero(SubSeq(m, 1, Min(-e, Len(m)))) THEN Shr(m, -e) ELSE <<1>> \o Zeros(40) IN
            IF Len(Trim(v)) > 30 THEN -1 ELSE (IF DblSign(d) = 1 THEN -1 ELSE 1) * ToInt(v)

\* a real stored in the file as a multiple of 1/q, to within 2^-10 of a step ([M] for angles:
\* the writer stores degrees = radians * 180/pi); -1 if it is not near a lattice value
RealNear(r, q) ==
    IF r.kind = "ratio" THEN RealTimes(r, q)
    ELSE LET d == IF r.kind = "single" THEN SingleToDoubleBits(r.bits) ELSE r.bits
             m == DblMant(d)
             e == DblExp(d) + (CASE q = 1024 -> 10 [] q = 64 -> 6 [] OTHER -> 0) + 10
             v == IF e >= 0 THEN Shl(m, e) ELSE Shr(m, -e) IN
         IF DblIsZero(d) THEN 0
         ELSE IF Len(Trim(v)) > 30 THEN -1
         ELSE LET t == ToInt(v)
                  n == (t + 512) \div 1024 IN
              IF Abs(t - 1024 * n) > 4 THEN -1 ELSE (IF DblSign(d) = 1 THEN -n ELSE n)
ValAgrees(sv, jv) ==          \* specification value vs logged value
    CASE sv.t = "u" -> jv.t = "u" /\ BEq(BytesToBits(jv.x), sv.x)
      [] sv.t = "i" -> jv.t = "i" /\ SVal(jv.neg, BytesToBits(jv.x)) = sv.x
      [] sv.t = "r" -> jv.t = "r" /\ RealMeansDouble(sv.x, BytesToBits(jv.x))
      [] sv.t = "s" -> jv.t = "s" /\ jv.x = sv.x
      [] OTHER -> FALSE
PropsAgree(sp, jp) ==
    /\ Len(sp) = Len(jp)
    /\ \A i \in DOMAIN sp :
          /\ jp[i].name = sp[i].name
          /\ Len(jp[i].vals) = Len(sp[i].vals)
          /\ \A k \in DOMAIN sp[i].vals : ValAgrees(sp[i].vals[k], jp[i].vals[k])
Tag(tagname, ok) == IF ok THEN {} ELSE {tagname}

RepAgree(srep, jrep) ==
    IF srep = <<>> THEN jrep.type = "none"
    ELSE jrep.type # "none" /\ SameBag([i \in DOMAIN srep |-> <<Fine * srep[i][1], Fine * srep[i][2]>>], jrep.offs)

\* ---- circles ([M]: measured in 1/100 grid unit) ----------------------------------------------
\* the loaded polygon approximates the circle (c, r) with sagitta <= tol (grid units):
\* vertices on the circle, edge midpoints no further inside than tol, convex around the centre
Cross(o, a, b) == (a[1] - o[1]) * (b[2] - o[2]) - (a[2] - o[2]) * (b[1] - o[1])
CircleAgrees(c, r, tol, xy) ==
    LET n == Len(xy)
        P(i) == <<xy[((i - 1) % n) + 1][1] \div 10, xy[((i - 1) % n) + 1][2] \div 10>>     \* 1/100 unit
        C == <<100 * c[1], 100 * c[2]>>
        R == 100 * r
        D2(p) == (p[1] - C[1]) * (p[1] - C[1]) + (p[2] - C[2]) * (p[2] - C[2])
        M2(i) == LET a == P(i)
                     b == P(i + 1) IN
                 \* squared distance of the doubled midpoint from the doubled centre
                 (a[1] + b[1] - 2 * C[1]) * (a[1] + b[1] - 2 * C[1]) + (a[2] + b[2] - 2 * C[2]) * (a[2] + b[2] - 2 * C[2])
        lo == Max(R - 100 * tol - 8, 0) IN
    /\ n >= 3 /\ R < 10000
    /\ \A i \in 1..n : (R - 8) * (R - 8) <= D2(P(i)) /\ D2(P(i)) <= (R + 8) * (R + 8)
    /\ \A i \in 1..n : M2(i) >= 4 * lo * lo
    /\ (\A i \in 1..n : Cross(C, P(i), P(i + 1)) > 0) \/ (\A i \in 1..n : Cross(C, P(i), P(i + 1)) < 0)

\* ---- elements ------------------------------------------------------------------------------------
PolyFails(s, j, tol) ==
    Tag("layer", WrapInt(s.l) = j.l) \cup Tag("datatype", WrapInt(s.t) = j.t)
    \cup Tag("repetition", RepAgree(s.rep, j.rep)) \cup Tag("properties", PropsAgree(s.props, j.aprops))
    \cup (IF s.shape = "circle" THEN Tag("circle_outline", CircleAgrees(s.pts[1], s.pts[2][1], tol, j.xy))
          ELSE Tag("vertices_on_grid", PtsOnGrid(j.xy))
               \cup Tag(s.shape \o "_vertices", PtsOnGrid(j.xy) /\ SameRing(s.pts, GridPts(j.xy))))

\* an open point list without the interior points that lie on the segment between their neighbours
\* (a robust path's centre line is written with extra sample points; they do not change the path)
Between(a, b, c) == /\ (b[1] - a[1]) * (c[2] - a[2]) = (b[2] - a[2]) * (c[1] - a[1])
                    /\ (b[1] - a[1]) * (c[1] - b[1]) + (b[2] - a[2]) * (c[2] - b[2]) > 0
RECURSIVE SimplifyOpenRec(_, _, _)
SimplifyOpenRec(ps, i, acc) ==
    IF i > Len(ps) THEN acc
    ELSE IF i < Len(ps) /\ acc # <<>> /\ Between(acc[Len(acc)], ps[i], ps[i + 1]) THEN SimplifyOpenRec(ps, i + 1, acc)
    ELSE SimplifyOpenRec(ps, i + 1, Append(acc, ps[i]))
SimplifyOpen(ps) == SimplifyOpenRec(Dedup0(ps), 1, <<>>)

\* F refines E: F starts and ends where E does, passes through every vertex of E in order, and its
\* other points lie on E's segments to within one grid unit (a robust path's centre line is written
\* with intermediate sample points, each rounded to the grid on its own)
NearSeg(a, b, q) ==
    LET d == <<b[1] - a[1], b[2] - a[2]>>
        cr == d[1] * (q[2] - a[2]) - d[2] * (q[1] - a[1]) IN
    /\ Abs(cr) <= Max(Abs(d[1]), Abs(d[2]))
    /\ d[1] * (q[1] - a[1]) + d[2] * (q[2] - a[2]) >= 0
    /\ d[1] * (b[1] - q[1]) + d[2] * (b[2] - q[2]) >= 0
RECURSIVE RefinesFrom(_, _, _, _)
RefinesFrom(F, E, i, k) ==       \* F[1..i-1] consumed, currently on segment E[k] -> E[k+1]
    IF i > Len(F) THEN k = Len(E)
    ELSE IF k < Len(E) /\ F[i] = E[k + 1] THEN RefinesFrom(F, E, i + 1, k + 1)
    ELSE k < Len(E) /\ NearSeg(E[k], E[k + 1], F[i]) /\ RefinesFrom(F, E, i + 1, k)
PathRefines(F0, E0) == LET F == Dedup0(F0)
                           E == Dedup0(E0) IN
                       Len(F) >= 1 /\ Len(E) >= 1 /\ F[1] = E[1] /\ RefinesFrom(F, E, 2, 1)

\* end extensions of a logged path element, canonical (start, end) in 1/1000 unit
JExt(el) == CASE el.pt = 0 -> <<0, 0>> [] el.pt = 2 -> <<el.w \div 2, el.w \div 2>> [] el.pt = 4 -> <<el.ext[1], el.ext[2]>>
              [] OTHER -> <<-1, -1>>
PathFails(s, j) ==
    LET el == j.els[1] IN
    Tag("path_shape", j.simple /\ j.nel = 1 /\ j.sw /\ el.off = 0 /\ el.nwo = Len(j.spine))
    \cup Tag("layer", WrapInt(s.l) = el.l) \cup Tag("datatype", WrapInt(s.t) = el.t)
    \cup Tag("half_width", el.w = 2 * Fine * s.hw)
    \cup Tag("end_extensions", JExt(el) = <<Fine * s.es, Fine * s.ee>>)
    \cup Tag("spine", PtsOnGrid(j.spine) /\ PathRefines(GridPts(j.spine), SimplifyOpen(s.pts)))
    \cup Tag("repetition", RepAgree(s.rep, j.rep)) \cup Tag("properties", PropsAgree(s.props, j.aprops))

SpecMag1024(mag) == CASE mag[1] = "one" -> 1024 [] mag[1] = "lat" -> mag[2] [] OTHER -> RealNear(mag[2], 1024)
SpecAng64(rot) == CASE rot[1] = "quarter" -> 64 * 90 * rot[2] [] rot[1] = "lat" -> rot[2] [] OTHER -> RealNear(rot[2], 64)
RefFails(s, j) ==
    Tag("cell_name", j.sname = s.cell) \cup Tag("resolved", (j.kind = "cell") = s.known)
    \cup Tag("reflection", j.refl = s.refl) \cup Tag("magnification", j.mag = SpecMag1024(s.mag))
    \* (whole turns denote the same placement: a quarter-turn record keeps the angle modulo 360 degrees)
    \cup Tag("rotation", (j.ang - SpecAng64(s.rot)) % 23040 = 0)
    \cup Tag("origin", j.xy = <<Fine * s.x, Fine * s.y>>)
    \cup Tag("repetition", RepAgree(s.rep, j.rep)) \cup Tag("properties", PropsAgree(s.props, j.aprops))
LabelFails(s, j) ==
    Tag("text", j.text = s.text) \cup Tag("layer", WrapInt(s.l) = j.l) \cup Tag("texttype", WrapInt(s.t) = j.t)
    \cup Tag("origin", j.xy = <<Fine * s.x, Fine * s.y>>)
    \cup Tag("repetition", RepAgree(s.rep, j.rep)) \cup Tag("properties", PropsAgree(s.props, j.aprops))

Prefix(pre, S) == {pre \o ":" \o x : x \in S}
CellFails(s, j, tol) ==
    LET nm == "cell" IN
    Tag("cell_name", j.name = s.name) \cup Tag("cell_properties", PropsAgree(s.props, j.aprops))
    \cup Tag("no_robustpaths", j.nrobust = 0)
    \cup (IF Len(j.polys) # Len(s.polys) THEN {"polygon_count"}
          ELSE UNION {Prefix("polygon", PolyFails(s.polys[i], j.polys[i], tol)) : i \in DOMAIN s.polys})
    \cup (IF Len(j.paths) # Len(s.paths) THEN {"path_count"}
          ELSE UNION {Prefix("path", PathFails(s.paths[i], j.paths[i])) : i \in DOMAIN s.paths})
    \cup (IF Len(j.refs) # Len(s.refs) THEN {"reference_count"}
          ELSE UNION {Prefix("reference", RefFails(s.refs[i], j.refs[i])) : i \in DOMAIN s.refs})
    \cup (IF Len(j.labels) # Len(s.labels) THEN {"label_count"}
          ELSE UNION {Prefix("label", LabelFails(s.labels[i], j.labels[i])) : i \in DOMAIN s.labels})

\* lay: Oasis!Finish result; j: logged library projection; tol: circle tolerance in grid units
LayoutFails(lay, j, tol) ==
    Tag("library_properties", PropsAgree(lay.libprops, j.aprops))
    \cup Tag("no_raw_cells", j.nraw = 0)
    \cup (IF Len(j.cells) # Len(lay.cells) THEN {"cell_count"}
          ELSE UNION {CellFails(lay.cells[i], j.cells[i], tol) : i \in DOMAIN lay.cells})
Dangling(lay) == \E i \in DOMAIN lay.cells : \E k \in DOMAIN lay.cells[i].refs : ~lay.cells[i].refs[k].known
=============================================================================
