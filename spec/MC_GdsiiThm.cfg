INIT InitThm
NEXT Next
CONSTANTS
  Depth = "quick"
INVARIANTS RealsDenote RoundTrip
CHECK_DEADLOCK FALSE
