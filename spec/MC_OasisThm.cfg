SPECIFICATION Spec
CONSTANT MaxRecs = 1
CONSTANT MinRecs = 1
CONSTANT Mode = "pairs"
CONSTANT Salts = {0, 5, 9, 13, 18, 22}
INVARIANT Legal
INVARIANT FileDecodes
CHECK_DEADLOCK FALSE
