------------------------------ MODULE C15Trace ------------------------------
(* Validates curve sections and shape primitives against Paths.tla.  The exact   *)
(* state after each call is compared with the specification's; the measured        *)
(* observations (quantised by the harness) are judged against the bounds stated    *)
(* in Paths.tla.                                                                    *)
EXTENDS Paths, Json, IOUtils

Log == ndJsonDeserialize(IOEnv.TRACE)
VARIABLES l
Ev == Log[l]

K3(p) == <<1000 * p[1], 1000 * p[2]>>
RingAt(r, k, dir, i) == LET n == Len(r)
                            j == (k - 1 + dir * (i - 1)) % n
                        IN  r[j + 1]
RingEq(a, b) == /\ Len(a) = Len(b)
                /\ (Len(a) = 0 \/ \E k \in 1..Len(b), dir \in {1, -1} :
                                     \A i \in 1..Len(a) : a[i] = RingAt(b, k, dir, i))

\* tolerance larger than the feature: nothing to sample, no deviation claim beyond "finite, on curve"
StepFailing(g, n, ob, stb, sta) ==
    LET a == g.secs[n]
        s == a.sec
        o == ob.obs
        poly == s.k \in Polynomial
        ctrl == a.ctrl
        claim_dev == CASE s.k \in {"arc", "turn"} -> TRUE
                       [] poly /\ Len(ctrl) > 0 -> NonDoubling(ctrl)
                       [] OTHER -> FALSE
    IN  (IF ob.added >= 1 /\ o.finite THEN {} ELSE {<<n, s.k, "no_or_non_finite_vertices">>})
        \cup (IF ~o.finite \/ s.k = "interpolation" \/ (o.on_nano <= OnCurveNano /\ o.ordered) THEN {}
              ELSE {<<n, s.k, "vertices_off_curve_or_out_of_order">>})
        \cup (IF ~o.finite \/ (o.end_nano <= EndNano
                              /\ ((s.k = "interpolation") \/ (s.k = "parametric" /\ ~s.rel)
                                  \/ (o.start_nano <= EndNano))) THEN {}
              ELSE {<<n, s.k, "does_not_start_or_end_at_the_requested_point">>})
        \cup (IF ~o.finite \/ ~claim_dev \/ o.dev_milli <= KDev THEN {} ELSE {<<n, s.k, "strays_from_curve">>})
        \cup (IF s.k = "interpolation" /\ o.finite /\ o.dev_milli > KDev
              THEN {<<n, s.k, "misses_interpolation_point">>} ELSE {})
        \* exact state
        \cup (IF sta.xl /\ ~(ob.last_exact /\ ob.last = K3(sta.last)) THEN {<<n, s.k, "end_point">>} ELSE {})
        \cup (IF sta.xc /\ ~(ob.lctrl_exact /\ ob.lctrl = K3(sta.lctrl)) THEN {<<n, s.k, "last_control_point">>} ELSE {})
        \* after an arc the last control point lies behind the end point (chord direction); this is
        \* what smooth continuations and turn() rely on
        \* (with a tolerance as large as the arc's smaller radius the last chord may span any angle
        \* and says nothing about the end tangent: the clause is claimed for tolerance < radius)
        \cup (IF s.k \in {"arc", "turn"} /\ o.finite /\ ~ob.ctrl_behind
              /\ (g.tol >= 1 \/ (g.tol = 0 /\ (IF s.k = "arc" THEN (IF s.rx < s.ry THEN s.rx ELSE s.ry) ELSE s.r) > 1))
              THEN {<<n, s.k, "last_control_not_behind_end_point">>} ELSE {})

CurveFailing(ev) ==
    LET g == ev.g
        secs == [i \in DOMAIN g.secs |-> g.secs[i].sec]
        sts == RunStates(Init0, secs, 1)
    IN  IF Len(ev.steps) # Len(secs) THEN {<<0, "history", "missing_steps">>}
        ELSE UNION {StepFailing(g, n, ev.steps[n], sts[n], sts[n + 1]) : n \in DOMAIN secs}
             \cup {<<n, "count", "vertex_count">> : n \in {m \in DOMAIN secs :
                      ev.steps[m].n # (IF m = 1 THEN 1 ELSE ev.steps[m - 1].n) + ev.steps[m].added}}
             \* command strings: a history issued through Curve::commands, one instruction at a time,
             \* is held to the same clauses as the direct calls above; every item must be reported as
             \* processed and the whole history as one command array must give the same vertices
             \cup (IF "cmd" \in DOMAIN g /\ g.cmd /\ ~(ev.cmd_ok /\ ev.cmd_same)
                   THEN {<<0, "commands", "items_processed_or_single_array_differs">>} ELSE {})
             \* Array overloads: every maximal run of sections of one polynomial kind issued as one call
             \* (relative points taken from the end point before the call) gives the same vertices and
             \* the same last control point as the single calls judged above
             \cup (IF "batch_same" \in DOMAIN ev /\ ~ev.batch_same
                   THEN {<<0, "array_overload", "one_call_per_run_differs">>} ELSE {})

\* ---- shape primitives ----------------------------------------------------------
D2(p) == <<2 * p[1], 2 * p[2]>>     \* logged coordinates are doubled (half-integers appear)
PrimFailing(ev) ==
    LET g == ev.g IN
    (IF ev.finite /\ ev.tagid = 402 THEN {} ELSE {<<0, g.p, "non_finite_or_wrong_tag">>})
    \cup
    (CASE g.p = "rectangle" ->
            LET want == <<D2(g.a), <<2 * g.b[1], 2 * g.a[2]>>, D2(g.b), <<2 * g.a[1], 2 * g.b[2]>> >> IN
            IF ev.lat /\ RingEq(ev.pts, want) THEN {} ELSE {<<0, g.p, "vertices">>}
       [] g.p = "cross" ->
            LET c == D2(g.c)
                L == g.full
                h == g.arm
                P(x, y) == <<c[1] + x, c[2] + y>>
                want == <<P(L, h), P(h, h), P(h, L), P(-h, L), P(-h, h), P(-L, h), P(-L, -h), P(-h, -h),
                          P(-h, -L), P(h, -L), P(h, -h), P(L, -h)>>
            IN  IF ev.lat /\ RingEq(ev.pts, want) THEN {} ELSE {<<0, g.p, "vertices">>}
       [] g.p = "regular_polygon" ->
            IF ev.count = g.n /\ ev.regular_nano <= 1000 THEN {} ELSE {<<0, g.p, "count_sides_or_centre">>}
       [] OTHER ->
            \* fillet arcs are allowed to shrink by the tolerance when they barely fit: their vertices
            \* are held to the tolerance, all other primitives' vertices lie ON the outline
            (IF (g.p = "fillet" /\ ev.on_milli <= KDev) \/ (g.p # "fillet" /\ ev.on_nano <= OnCurveNano)
             THEN {} ELSE {<<0, g.p, "vertices_off_outline">>})
            \* a fillet arc has round(x) segments where x keeps the sagitta at the tolerance and no
            \* minimum count: its deviation is at most ((n + 1/2) / n)^2 <= 2.25 tolerances
            \cup (IF ev.dev_milli <= (IF g.p = "fillet" THEN 2300 ELSE KDev) THEN {}
                  ELSE {<<0, g.p, "strays_from_outline">>}))

\* ---- closed interpolation ------------------------------------------------------------------
\* [M] the closed curve through the knots (with per-knot angle constraints and tensions) does not depend
\* on the knot it is started from: the two polylines lie within the sampling budget of each other,
\* pass through every knot and close
ItpClosedFailing(ev) ==
    (IF ev.finite /\ ev.na >= 3 /\ ev.nb >= 3 THEN {} ELSE {<<0, "interpolation", "no_or_non_finite_vertices">>})
    \cup (IF ev.dev_milli <= 2 * KDev THEN {} ELSE {<<0, "interpolation", "closed_curve_depends_on_the_starting_knot">>})
    \cup (IF ev.knots_milli <= KDev THEN {} ELSE {<<0, "interpolation", "misses_interpolation_point">>})
    \cup (IF ev.closed_milli <= KDev THEN {} ELSE {<<0, "interpolation", "closed_curve_does_not_close">>})

Check(ev) == CASE ev.e = "curve" -> CurveFailing(ev)
               [] ev.e = "itpclosed" -> ItpClosedFailing(ev)
               [] ev.e = "prim" -> PrimFailing(ev)
               [] OTHER -> {<<0, ev.e, "event">>}
TInit == l = 1
TNext == /\ l <= Len(Log) /\ l' = l + 1
         /\ LET f == Check(Ev) IN IF f = {} THEN TRUE
                                  ELSE PrintT("REJECT " \o ToString(l) \o " " \o ToString(f))
=============================================================================
