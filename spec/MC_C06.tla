------------------------------- MODULE MC_C06 -------------------------------
(* Hierarchies for C06 (flattening and queries) and C09 (bounding boxes and        *)
(* hulls): the exhaustive one-level product named by the properties, chains and     *)
(* diamonds of depth 2-3, and step sequences (queries, flatten, copy, cached         *)
(* bounding boxes / hulls in different orders).  Q = 1000 quanta per user unit.      *)
EXTENDS Hierarchy, Json, IOUtils
CONSTANTS Depth
VARIABLES case

U(x, y) == <<1000 * x, 1000 * y>>
RepsAll == <<NoRep, Rect(2, 2, U(7, 5)), Regular(2, 2, U(6, 1), U(-1, 8)), Explicit(<<U(7, 0), U(-5, 6)>>),
             ExplicitX(<<U(6, 0)[1], U(-7, 0)[1]>>), ExplicitY(<<U(5, 0)[1]>>),
             \* an offset that is extreme only along a diagonal: needed by rotated bounding boxes
             Explicit(<<U(4, 0), U(-4, 0), U(0, 4), U(0, -4), U(3, 3)>>),
             \* degenerate lattices: a single column / a single row (the other vector must not matter)
             Regular(1, 3, U(6, 1), U(-1, 8)), Regular(3, 1, U(6, 1), U(-1, 8)), Rect(1, 3, U(7, 5))>>
Rots == <<Rot0, Rot90, Rot180, Rot270, Rot345, Rot345n>>
Mags == <<Mag(1, 1), Mag(2, 1), Mag(1, 2)>>
Kinds == <<"polygon", "flexpath", "robustpath", "label">>

Shape(k, rep, at) == [kind |-> k, rep |-> rep, at |-> at]
Ref(to, m, f, r, o, rep) == [to |-> to, mag |-> m, refl |-> f, rot |-> r, origin |-> o, rep |-> rep]
Cell(n, shapes, refs) == [name |-> n, shapes |-> shapes, refs |-> refs]
Get(w, a, d, f) == [s |-> "get", what |-> w, apply |-> a, depth |-> d, filter |-> f]
WhatOf(k) == CASE k = "polygon" -> "polygons" [] k = "flexpath" -> "flexpaths"
               [] k = "robustpath" -> "robustpaths" [] k = "label" -> "labels"
S(x) == [s |-> x]

\* steps for a one-level case with element kind k
Steps1(k, ap) ==
    <<Get(WhatOf(k), ap, -1, -1), Get(WhatOf(k), ap, 0, -1), Get(WhatOf(k), ~ap, 1, IF k = "label" THEN 708 ELSE IF k = "polygon" THEN 506 ELSE 102),
      S("bbox"), S("hull"), S("ref_bbox"), S("ref_hull")>>
      \o (IF k \in {"flexpath", "robustpath"} THEN <<Get("polygons_paths", ap, -1, -1)>> ELSE <<>>)

Idx(seq) == DOMAIN seq
QuickSel(rf, ro, mg, rr, kd, er) ==
    Depth = "thorough" \/ (rf + ro + 2 * mg + 3 * rr + kd + 5 * er) % 11 = 0
Tuples == {t \in {0, 1} \X Idx(Rots) \X Idx(Mags) \X Idx(RepsAll) \X Idx(Kinds) \X Idx(RepsAll) :
             QuickSel(t[1], t[2], t[3], t[4], t[5], t[6])}
OneLevel ==
    {[k |-> "hier", top |-> "TOP",
      cells |-> <<Cell("TOP", <<>>, <<Ref("SUB", Mags[t[3]], t[1] = 1, Rots[t[2]], U(3, -2), RepsAll[t[4]])>>),
                  Cell("SUB", <<Shape(Kinds[t[5]], RepsAll[t[6]], U(1, 1))>>, <<>>)>>,
      steps |-> Steps1(Kinds[t[5]], (t[1] + t[2] + t[6]) % 2 = 0)]
     : t \in Tuples}

\* deeper hierarchies: chain TOP -> MID -> LEAF and a diamond TOP -> {A, B} -> LEAF with a shared
\* sub-cell; every cell also has shapes of its own; exactness budget: at most two rotations by
\* atan(4/3) and one magnification 1/2 along any path
Pal == <<[m |-> Mag(1, 1), f |-> FALSE, r |-> Rot90], [m |-> Mag(2, 1), f |-> TRUE, r |-> Rot345],
         [m |-> Mag(1, 2), f |-> FALSE, r |-> Rot345n], [m |-> Mag(1, 1), f |-> TRUE, r |-> Rot0],
         [m |-> Mag(1, 1), f |-> FALSE, r |-> Rot345]>>
Leaf == Cell("LEAF", <<Shape("polygon", NoRep, U(0, 0)), Shape("flexpath", RepsAll[5], U(1, 0)),
                      Shape("label", RepsAll[2], U(0, 2)), Shape("robustpath", NoRep, U(-6, -6))>>, <<>>)
MixedSteps == <<Get("polygons", TRUE, -1, -1), Get("polygons_paths", FALSE, -1, -1), Get("flexpaths", FALSE, -1, 304),
                Get("robustpaths", TRUE, 2, -1), Get("labels", FALSE, -1, -1), Get("polygons_paths", TRUE, 1, -1),
                Get("labels", TRUE, 1, 708), S("bbox_c"), S("hull_c"), S("bbox"), S("hull"),
                S("copy_mutate"), Get("polygons_paths", TRUE, -1, -1), S("flatten_apply"),
                Get("polygons_paths", FALSE, -1, -1), Get("labels", TRUE, 0, -1),
                \* tag-filtered queries on the flattened cell (its paths now carry the composed transforms)
                Get("robustpaths", TRUE, 0, 102), Get("robustpaths", FALSE, -1, 304), Get("flexpaths", TRUE, 0, 304),
                Get("polygons", TRUE, 0, 506), Get("labels", FALSE, 0, 708), S("bbox"), S("hull")>>
MixedSteps2 == <<S("hull_c"), S("bbox_c"), S("hull_c"), Get("flexpaths", TRUE, -1, -1), S("flatten_keep"),
                 Get("flexpaths", TRUE, 0, -1), Get("polygons_paths", TRUE, 0, -1), Get("labels", FALSE, 0, -1),
                 Get("robustpaths", TRUE, 0, 304), Get("flexpaths", FALSE, 0, 102), Get("robustpaths", FALSE, 0, -1),
                 S("bbox_c"), S("hull")>>
ChainTuples == {t \in Idx(Pal) \X Idx(Pal) \X {1, 3, 4} \X {1, 2, 6} \X {1, 2} :
                  Depth = "thorough" \/ (t[3] = 4 /\ t[4] = 6 /\ t[5] = 1 + ((t[1] + t[2]) % 2))}
Chains ==
    {[k |-> "hier", top |-> "TOP",
      cells |-> <<Cell("TOP", <<Shape("polygon", RepsAll[2], U(20, 20))>>,
                        <<Ref("MID", Pal[t[1]].m, Pal[t[1]].f, Pal[t[1]].r, U(2, 1), RepsAll[t[3]])>>),
                  Cell("MID", <<Shape("label", NoRep, U(1, 1))>>,
                       <<Ref("LEAF", Pal[t[2]].m, Pal[t[2]].f, Pal[t[2]].r, U(-1, 3), RepsAll[t[4]])>>),
                  Leaf>>,
      steps |-> IF t[5] = 1 THEN MixedSteps ELSE MixedSteps2]
     : t \in ChainTuples}
Budget(a, b) == (Pal[a].r.d * Pal[b].r.d * Pal[a].m.d * Pal[b].m.d) \in {1, 2, 5, 10, 25, 50}
Diamonds ==
    {[k |-> "hier", top |-> "TOP",
      cells |-> <<Cell("TOP", <<>>, <<Ref("A", Pal[a].m, Pal[a].f, Pal[a].r, U(0, 0), NoRep),
                                     Ref("B", Pal[b].m, Pal[b].f, Pal[b].r, U(30, 0), RepsAll[4]),
                                     Ref("NOWHERE", Mag(1, 1), FALSE, Rot0, U(0, 0), NoRep)>>),
                  Cell("A", <<Shape("robustpath", RepsAll[2], U(0, 0))>>,
                       <<Ref("LEAF", Mag(1, 1), TRUE, Rot90, U(1, 1), RepsAll[6])>>),
                  Cell("B", <<>>, <<Ref("LEAF", Mag(1, 1), FALSE, Rot180, U(0, 0), NoRep)>>),
                  Leaf>>,
      steps |-> MixedSteps]
     : a \in Idx(Pal), b \in Idx(Pal)}
\* degenerate content for bounding boxes / hulls: collinear, single point, empty
Degenerate ==
    {[k |-> "hier", top |-> "TOP",
      cells |-> <<Cell("TOP", <<>>, <<Ref("SUB", Mag(1, 1), f, r, U(1, 2), rr)>>),
                  Cell("SUB", sh, <<>>)>>,
      steps |-> <<S("bbox"), S("hull"), S("hull_c"), S("bbox_c"), S("ref_bbox"), S("ref_hull")>>]
     : f \in BOOLEAN, r \in {Rot0, Rot90, Rot345}, rr \in {NoRep, RepsAll[4], RepsAll[5], RepsAll[6]},
       sh \in {<<>>, <<Shape("label", NoRep, U(0, 0))>>, <<Shape("diag", NoRep, U(0, 0))>>,
               <<Shape("hline", NoRep, U(0, 0))>>, <<Shape("label", RepsAll[5], U(2, 2))>>,
               <<Shape("vline", RepsAll[6], U(0, 0))>>}}

DenR(r) == r.rot.d * r.mag.d
\* exactness budget along every path from the top: outline coordinates are multiples of 50 quanta
ChainOK(c) == 50 % (DenR(c.cells[1].refs[1]) * DenR(c.cells[2].refs[1])) = 0
DiamondOK(c) == 50 % DenR(c.cells[1].refs[1]) = 0 /\ 50 % DenR(c.cells[1].refs[2]) = 0
Cases == OneLevel \cup {c \in Chains : ChainOK(c)} \cup {c \in Diamonds : DiamondOK(c)} \cup Degenerate
Init == case \in Cases
Next == UNCHANGED case

AppendOpts == [format |-> "TXT", charset |-> "UTF-8",
               openOptions |-> <<"WRITE", "CREATE", "APPEND">>]
Export == Serialize(ToJson(case) \o "\n", IOEnv.GEN_OUT, AppendOpts).exitValue = 0
=============================================================================
