-------------------------------- MODULE Paths --------------------------------
(***************************************************************************)
(* Construction state machines of gdstk's Curve, FlexPath and RobustPath    *)
(* (src/curve.cpp, flexpath.cpp, robustpath.cpp).                           *)
(*                                                                         *)
(* Exact part [S]: control points are integers (user units); the state     *)
(* after every call -- end point, last control point, vertex / bookkeeping *)
(* counts -- is computed exactly.                                          *)
(* Measured part [M]: TLA+ has no reals, so deviations of the produced     *)
(* polylines from the exact curves are MEASURED by the harness (distance   *)
(* by dense sampling) and arrive as quantised integers: nano = units of    *)
(* 1e-9 of the feature size, milli = thousandths of the curve tolerance.   *)
(* The bounds are stated and decided here.                                 *)
(***************************************************************************)
EXTENDS Base

\* ---- Curve -----------------------------------------------------------------
\* state: [last, lctrl, n]; section records (coordinates integers, rel = relative flag):
\*   [k |-> "segment", p, rel]    [k |-> "horizontal", x, rel]   [k |-> "vertical", y, rel]
\*   [k |-> "cubic", c1, c2, e, rel]     [k |-> "cubic_smooth", c2, e, rel]
\*   [k |-> "quadratic", c, e, rel]      [k |-> "quadratic_smooth", e, rel]
\*   [k |-> "bezier", pts, rel]
\*   [k |-> "arc", rx, ry, a0, a1, rot]  (angles in degrees)   [k |-> "turn", r, a]
\*   [k |-> "parametric", f, rel]        [k |-> "interpolation", pts, rel]
AbsPt(st, p, rel) == IF rel THEN VAdd(st.last, p) ELSE p
Polynomial == {"segment", "horizontal", "vertical", "cubic", "cubic_smooth", "quadratic",
               "quadratic_smooth", "bezier"}

\* the control polygon of a polynomial section (absolute coordinates), start point first
ControlsOf(st, s) ==
    CASE s.k = "segment" -> <<st.last, AbsPt(st, s.p, s.rel)>>
      [] s.k = "horizontal" -> <<st.last, <<IF s.rel THEN st.last[1] + s.x ELSE s.x, st.last[2]>> >>
      [] s.k = "vertical" -> <<st.last, <<st.last[1], IF s.rel THEN st.last[2] + s.y ELSE s.y>> >>
      [] s.k = "cubic" -> <<st.last, AbsPt(st, s.c1, s.rel), AbsPt(st, s.c2, s.rel), AbsPt(st, s.e, s.rel)>>
      [] s.k = "cubic_smooth" ->
            <<st.last, VSub(<<2 * st.last[1], 2 * st.last[2]>>, st.lctrl), AbsPt(st, s.c2, s.rel),
              AbsPt(st, s.e, s.rel)>>
      [] s.k = "quadratic" -> <<st.last, AbsPt(st, s.c, s.rel), AbsPt(st, s.e, s.rel)>>
      [] s.k = "quadratic_smooth" ->
            <<st.last, VSub(<<2 * st.last[1], 2 * st.last[2]>>, st.lctrl), AbsPt(st, s.e, s.rel)>>
      [] s.k = "bezier" -> <<st.last>> \o [i \in DOMAIN s.pts |-> AbsPt(st, s.pts[i], s.rel)]

\* end point and last control point after a polynomial section
EndOf(ctrl) == ctrl[Len(ctrl)]
LastCtrlOf(st, s, ctrl) ==
    CASE s.k \in {"segment", "horizontal", "vertical"} -> st.last
      [] OTHER -> ctrl[Len(ctrl) - 1]     \* second-to-last control point, in absolute coordinates

\* the section does not double back: all legs of the control polygon lie within a quarter turn
Legs(ctrl) == [i \in 1..(Len(ctrl) - 1) |-> VSub(ctrl[i + 1], ctrl[i])]
NonDoubling(ctrl) == LET lg == SelectSeq(Legs(ctrl), LAMBDA v : v # <<0, 0>>) IN
                     \A i, j \in DOMAIN lg : Dot(lg[i], lg[j]) > 0

\* smooth continuations are tangent continuous: the first leg of the new control polygon points
\* the way the previous section ended
TangentContinuous(st, ctrl) == Cross(VSub(st.last, st.lctrl), VSub(ctrl[2], ctrl[1])) = 0
                               /\ Dot(VSub(st.last, st.lctrl), VSub(ctrl[2], ctrl[1])) >= 0

\* ---- running a history on the exact state ------------------------------------------------
\* state [last, lctrl, n, xl (last is exact), xc (lctrl is exact)]
Arcish == {"arc", "turn", "parametric", "interpolation"}
QuarterArc(s) == s.k = "arc" /\ s.rx = s.ry /\ s.rot = 0 /\ s.a0 % 90 = 0 /\ s.a1 % 90 = 0
CosQ(a) == LET m == ((a % 360) + 360) % 360 IN CASE m = 0 -> 1 [] m = 90 -> 0 [] m = 180 -> -1 [] m = 270 -> 0
SinQ(a) == CosQ(a - 90)
NeedsCtrl(s) == s.k \in {"cubic_smooth", "quadratic_smooth", "turn"}
NeedsLast(s) == s.k \in {"horizontal", "vertical", "turn", "arc", "parametric", "interpolation"}
                \/ (s.k \in Polynomial /\ s.rel) \/ NeedsCtrl(s)
StepState(st, s) ==
    IF s.k \in Polynomial
    THEN LET ok == st.xl /\ (NeedsCtrl(s) => st.xc)
             ctrl == IF ok THEN ControlsOf(st, s) ELSE <<>>
         IN  \* an absolute section re-establishes an exact end point even after an inexact state
             IF ok THEN [last |-> EndOf(ctrl), lctrl |-> LastCtrlOf(st, s, ctrl), xl |-> TRUE, xc |-> TRUE]
             ELSE IF ~s.rel /\ s.k \in {"segment", "cubic", "quadratic", "bezier", "cubic_smooth", "quadratic_smooth"}
             THEN [last |-> (CASE s.k = "segment" -> s.p [] s.k = "bezier" -> s.pts[Len(s.pts)] [] OTHER -> s.e),
                   lctrl |-> (CASE s.k = "cubic" -> s.c2 [] s.k = "cubic_smooth" -> s.c2 [] s.k = "quadratic" -> s.c
                                [] s.k = "bezier" -> s.pts[Len(s.pts) - 1] [] OTHER -> st.last),
                   xl |-> TRUE, xc |-> s.k \in {"cubic", "cubic_smooth", "quadratic", "bezier"} \/ (s.k = "segment" /\ st.xl)]
             ELSE [last |-> st.last, lctrl |-> st.lctrl, xl |-> FALSE, xc |-> FALSE]
    ELSE IF QuarterArc(s) /\ st.xl
    THEN [last |-> VAdd(st.last, <<s.rx * (CosQ(s.a1) - CosQ(s.a0)), s.rx * (SinQ(s.a1) - SinQ(s.a0))>>),
          lctrl |-> st.lctrl, xl |-> TRUE, xc |-> FALSE]
    ELSE [last |-> st.last, lctrl |-> st.lctrl, xl |-> FALSE, xc |-> FALSE]
CtrlFor(st, s) == IF s.k \in Polynomial /\ st.xl /\ (NeedsCtrl(s) => st.xc) THEN ControlsOf(st, s) ELSE <<>>
Init0 == [last |-> <<0, 0>>, lctrl |-> <<0, 0>>, xl |-> TRUE, xc |-> TRUE]
RECURSIVE RunStates(_, _, _)
RunStates(st, secs, i) ==      \* sequence of states BEFORE each section, plus the final one
    IF i > Len(secs) THEN <<st>> ELSE <<st>> \o RunStates(StepState(st, secs[i]), secs, i + 1)

\* ---- FlexPath ----------------------------------------------------------------------------
\* Bookkeeping: every construction call appends k >= 1 spine points and exactly k width/offset
\* entries to EVERY element; the last entry is the requested target (or the previous value when
\* none is given) and the new entries move monotonically from the previous value to it.
FlexBookOK(prev, cur, call) ==
    \* prev, cur: [spine_n, els: sequence of [n, hw, off]] ; call: [whas, ohas, w (per element), o]
    /\ cur.spine_n >= prev.spine_n + 1
    /\ Len(cur.els) = Len(prev.els)
    /\ \A i \in DOMAIN cur.els :
          /\ cur.els[i].n = cur.spine_n
          /\ cur.els[i].hw = (IF call.whas THEN call.w[i] ELSE prev.els[i].hw)
          /\ cur.els[i].off = (IF call.ohas THEN call.o[i] ELSE prev.els[i].off)
          /\ cur.els[i].monotone

\* Region of one element along a MANHATTAN spine, in QUADRUPLED user coordinates: spine points
\* are multiples of 4, half-widths / offsets / extensions multiples of 2, so every boundary is on
\* an even coordinate and the sample points (odd coordinates) are never on a boundary: the tests
\* below are exact and need no guard band.
\*   el == [hw (sequence, one per spine point), off, join, end, ext (<<begin, end>>)]
Dir(a, b) == <<Sign(b[1] - a[1]), Sign(b[2] - a[2])>>
LeftN(d) == <<-d[2], d[1]>>
Scale2(v, k) == <<k * v[1], k * v[2]>>
\* centre line: the spine displaced to the left by the offset, corners where the displaced
\* segments intersect
CentreLine(spine, off) ==
    [k \in DOMAIN spine |->
        LET dprev == IF k > 1 THEN Dir(spine[k - 1], spine[k]) ELSE Dir(spine[1], spine[2])
            dnext == IF k < Len(spine) THEN Dir(spine[k], spine[k + 1]) ELSE dprev
            shift == IF dprev = dnext THEN Scale2(LeftN(dnext), off)
                     ELSE VAdd(Scale2(LeftN(dprev), off), Scale2(LeftN(dnext), off))
        IN  VAdd(spine[k], shift)]
\* along / across coordinates of q relative to the axis-parallel segment a -> b
Along(a, b, q) == Dot(VSub(q, a), Dir(a, b))
Across(a, b, q) == Abs(Cross(Dir(a, b), VSub(q, a)))
SegLen(a, b) == Abs(b[1] - a[1]) + Abs(b[2] - a[2])
CapExt(el, first) ==      \* how far the element reaches beyond its first / last centre point
    LET hw == IF first THEN el.hw[1] ELSE el.hw[Len(el.hw)] IN
    CASE el.end = "flush" -> 0
      [] el.end = "halfwidth" -> hw
      [] el.end = "extended" -> IF first THEN el.ext[1] ELSE el.ext[2]
      [] el.end = "round" -> hw
\* surely covered: strictly inside the (tapering) band of some segment, or inside an end cap
SureInFlex(el, C, q) ==
    \/ \E k \in 1..(Len(C) - 1) :
          LET L == SegLen(C[k], C[k + 1])
              a == Along(C[k], C[k + 1], q)
              c == Across(C[k], C[k + 1], q)
              lo == IF k = 1 THEN Max2(0, -CapExt(el, TRUE)) ELSE 0
              hi == L - (IF k = Len(C) - 1 THEN Max2(0, -CapExt(el, FALSE)) ELSE 0)
          IN  /\ L > 0 /\ a > lo /\ a < hi
              /\ c * L < el.hw[k] * L + (el.hw[k + 1] - el.hw[k]) * a
    \/ (el.end \in {"halfwidth", "extended"} /\
         \/ (LET a == Along(C[1], C[2], q) IN a < 0 /\ a > -CapExt(el, TRUE)
                                               /\ Across(C[1], C[2], q) < el.hw[1])
         \/ (LET n == Len(C)
                  a == Along(C[n - 1], C[n], q) - SegLen(C[n - 1], C[n])
              IN  a > 0 /\ a < CapExt(el, FALSE) /\ Across(C[n - 1], C[n], q) < el.hw[n]))
    \/ (el.end = "round" /\
         (Dot(VSub(q, C[1]), VSub(q, C[1])) < el.hw[1] * el.hw[1]
          \/ Dot(VSub(q, C[Len(C)]), VSub(q, C[Len(C)])) < el.hw[Len(C)] * el.hw[Len(C)]))
\* squared distance from q to the axis-parallel segment a -> b lengthened by e0 / e1 at its ends
Dist2Ext(a, b, q, e0, e1) ==
    LET al == Along(a, b, q)
        L == SegLen(a, b)
        c == Across(a, b, q)
        over == IF al < -e0 THEN -e0 - al ELSE IF al > L + e1 THEN al - L - e1 ELSE 0
    IN  over * over + c * c
\* surely not covered: farther from every segment than the join's reach, where the first / last
\* segment is lengthened by its cap; for flush / half-width / extended caps also everything
\* beyond the cap plane that is not near another segment
SureOutFlex(el, C, q) ==
    LET n == Len(C)
        hwmax == LET RECURSIVE M(_)
                     M(i) == IF i = 0 THEN 0 ELSE Max2(el.hw[i], M(i - 1))
                 IN  M(Len(el.hw))
        reach2 == IF el.join \in {"round", "bevel"} THEN hwmax * hwmax ELSE 2 * hwmax * hwmax
        E0(k) == IF k = 1 THEN Max2(CapExt(el, TRUE), 0) ELSE 0
        E1(k) == IF k = n - 1 THEN Max2(CapExt(el, FALSE), 0) ELSE 0
        FarSeg(k) == Dist2Ext(C[k], C[k + 1], q, E0(k), E1(k)) > reach2
        BeyondStart == Along(C[1], C[2], q) < -CapExt(el, TRUE)
        BeyondEnd == Along(C[n - 1], C[n], q) > SegLen(C[n - 1], C[n]) + CapExt(el, FALSE)
    IN  \/ \A k \in 1..(n - 1) : FarSeg(k)
        \/ (el.end # "round" /\ BeyondStart /\ \A k \in 2..(n - 1) : FarSeg(k))
        \/ (el.end # "round" /\ BeyondEnd /\ \A k \in 1..(n - 2) : FarSeg(k))

\* ---- RobustPath ------------------------------------------------------------------------------
\* State [end (x3 lattice: thirds appear in smooth continuations), nsec, grad3 (3 x end gradient
\* direction of the last polynomial section, or "none")].  Section records as for Curve; widths and
\* offsets are Interpolation records [t |-> "none"|"constant"|"linear"|"smooth", a, b] in 1/1000.
R3(p) == <<3 * p[1], 3 * p[2]>>
\* end point (x3) after a polynomial section starting at end3 (x3)
RAbs3(st, p, rel) == IF rel THEN VAdd(st.end, R3(p)) ELSE R3(p)
RobustEnd3(st, s) ==
    CASE s.k = "segment" -> RAbs3(st, s.p, s.rel)
      [] s.k = "horizontal" -> <<IF s.rel THEN st.end[1] + 3 * s.x ELSE 3 * s.x, st.end[2]>>
      [] s.k = "vertical" -> <<st.end[1], IF s.rel THEN st.end[2] + 3 * s.y ELSE 3 * s.y>>
      [] s.k \in {"cubic", "cubic_smooth", "quadratic", "quadratic_smooth"} -> RAbs3(st, s.e, s.rel)
      [] s.k = "bezier" -> RAbs3(st, s.pts[Len(s.pts)], s.rel)
      [] s.k = "arc" -> VAdd(st.end, <<3 * s.rx * (CosQ(s.a1) - CosQ(s.a0)), 3 * s.ry * (SinQ(s.a1) - SinQ(s.a0))>>)
RobustExact(s) == s.k \in Polynomial \/ (s.k = "arc" /\ s.rot = 0 /\ s.a0 % 90 = 0 /\ s.a1 % 90 = 0)
\* value of an interpolation at u = num/2 (num in {0, 1, 2}), times 2 (exact in 1/2000)
Interp2(ip, prev, num) ==
    CASE ip.t = "none" -> 2 * prev
      [] ip.t = "constant" -> 2 * ip.a
      [] ip.t \in {"linear", "smooth"} -> (2 - num) * ip.a + num * ip.b     \* smooth(1/2) = midpoint
InterpEnd(ip, prev) == CASE ip.t = "none" -> prev [] ip.t = "constant" -> ip.a [] OTHER -> ip.b

\* ---- bounds on the measured observations --------------------------------------------
\* a vertex is ON the curve when its distance is below 1e-6 of the feature size (1000 nano)
OnCurveNano == 1000
\* the polyline stays within K tolerances of the exact curve
KDev == 1500          \* milli-tolerances
EndNano == 1000
ObsFinite(o) == o.finite
ObsOnCurve(o) == o.on_nano <= OnCurveNano /\ o.ordered
ObsEnd(o) == o.end_nano <= EndNano /\ o.start_nano <= EndNano
ObsDev(o) == o.dev_milli <= KDev
=============================================================================
