--------------------------- MODULE C07CornerTrace ---------------------------
(* Validates FlexPath outlines at non-right-angle corners (MC_C07Corner): exact      *)
(* integer tests in fine units (1/12 user unit; sample points at odd coordinates).      *)
(*  - every sample surely inside one of the two segment rectangles is covered          *)
(*    (all join styles contain the rectangles)                                         *)
(*  - no sample farther from both rectangles than the miter tip (hw * tan(turn / 2))   *)
(*    is covered (the miter is the farthest-reaching of the three styles)              *)
EXTENDS Region, Json, IOUtils

Log == ndJsonDeserialize(IOEnv.TRACE)
VARIABLES l
Ev == Log[l]

CornerFailing(ev) ==
    LET g == ev.g
        guard == 3
        S == 6          \* the outline is logged on a grid of 1/6 unit, where every corner of these cases lies
        parts == [k \in DOMAIN g.rects |-> [outer |-> FineOfUser(<<g.rects[k]>>, S)[1], holes |-> <<>>]]
        R == FineOfGrid(ev.res)
        reach == ((2 * S * g.hw * g.tn + g.td - 1) \div g.td) + guard
        qs == FineSamples(-12, 45, S)
        SureIn(q) == \E k \in DOMAIN parts : InPart(parts[k], q) /\ BoundaryFartherThan(parts[k], q, guard)
        SureOut(q) == \A k \in DOMAIN parts : ~InPart(parts[k], q) /\ BoundaryFartherThan(parts[k], q, reach)
        missing == {q \in qs : SureIn(q) /\ ~InRegion(R, q)}
        extra == {q \in qs : SureOut(q) /\ InRegion(R, q)}
    IN  (IF ev.lat /\ ev.err = 0 /\ Len(ev.res) = 1 THEN {} ELSE {<<"lattice_error_or_not_one_outline">>})
        \cup (IF missing = {} THEN {} ELSE {<<"segment_rectangle_not_covered", CHOOSE q \in missing : TRUE>>})
        \cup (IF extra = {} THEN {} ELSE {<<"covered_beyond_the_miter_tip", CHOOSE q \in extra : TRUE>>})

Check(ev) == IF ev.e = "fpcorner" THEN CornerFailing(ev) ELSE {<<ev.e>>}
TInit == l = 1
TNext == /\ l <= Len(Log) /\ l' = l + 1
         /\ LET f == Check(Ev) IN IF f = {} THEN TRUE
                                  ELSE PrintT("REJECT " \o ToString(l) \o " " \o ToString(f))
=============================================================================
