------------------------------ MODULE OasWriter ------------------------------
(***************************************************************************)
(* What a file written by Library::write_oas has to be (C04, second half)   *)
(* and what a save/load cycle has to preserve (C02).                        *)
(*                                                                         *)
(* Expect(p): the layout, in the format of Oasis!Finish, that a library     *)
(* with logged projection p (lengths in 1/1000 grid unit) denotes once      *)
(* every coordinate is rounded to the grid (half away from zero; the        *)
(* generator never produces ties).  The strict decoder's reading of the     *)
(* written bytes must equal it (LayEq), and so must what read_oas returns   *)
(* (OasProj!LayoutFails).  FrameFails / StdPropFails: the END record,       *)
(* table offsets, signature and standard properties must state the truth.   *)
(***************************************************************************)
EXTENDS OasProj

R(x) == IF x >= 0 THEN (x + 500) \div 1000 ELSE -((500 - x) \div 1000)
RP(p) == <<R(p[1]), R(p[2])>>
RPts(ps) == [i \in DOMAIN ps |-> RP(ps[i])]
U32(n) == IF n >= 0 THEN FromInt(n) ELSE Pad(FromInt(n + 2147483647 + 1), 31) \o <<1>>     \* un-wrap a logged tag

\* ---- logged values -> specification values -------------------------------------------------
JVal(v) == CASE v.t = "u" -> [t |-> "u", x |-> Trim(BytesToBits(v.x))]
             [] v.t = "i" -> [t |-> "i", x |-> SVal(v.neg, BytesToBits(v.x))]
             [] v.t = "r" -> [t |-> "r", x |-> [kind |-> "double", bits |-> BytesToBits(v.x)]]
             [] OTHER -> [t |-> "s", x |-> v.x]
JProps(ps) == [i \in DOMAIN ps |-> [name |-> ps[i].name, std |-> FALSE,
                                    vals |-> [k \in DOMAIN ps[i].vals |-> JVal(ps[i].vals[k])]]]
JRep(rep) == IF rep.type = "none" THEN <<>> ELSE RPts(rep.offs)
\* a repetition with fewer than two instances is not written
JRepW(rep) == IF rep.type = "none" \/ Len(rep.offs) < 2 THEN <<>> ELSE RPts(rep.offs)

ExpPoly(j) == [l |-> U32(j.l), t |-> U32(j.t), rep |-> JRepW(j.rep), props |-> JProps(j.aprops),
               shape |-> "polygon", pts |-> RPts(j.xy), fine |-> j.xy]
\* one PATH per element; simple paths with zero offsets only (anything else is reported)
ExpPathEl(j, el) ==
    LET hw == R(el.w \div 2)
        ext == CASE el.pt = 0 -> <<0, 0>> [] el.pt = 2 -> <<hw, hw>> [] el.pt = 4 -> <<R(el.ext[1]), R(el.ext[2])>>
                 [] OTHER -> <<-99, -99>> IN
    [l |-> U32(el.l), t |-> U32(el.t), rep |-> JRepW(j.rep), props |-> JProps(j.aprops),
     hw |-> hw, es |-> ext[1], ee |-> ext[2], pts |-> Dedup(RPts(j.spine)), open |-> TRUE]
ExpPaths(j) == [k \in DOMAIN j.els |-> ExpPathEl(j, j.els[k])]
ExpRef(j) == [cell |-> j.sname, refl |-> j.refl, mag |-> <<"lat", j.mag>>, rot |-> <<"lat", j.ang>>,
              x |-> R(j.xy[1]), y |-> R(j.xy[2]), rep |-> JRepW(j.rep), props |-> JProps(j.aprops)]
ExpLabel(j) == [text |-> j.text, l |-> U32(j.l), t |-> U32(j.t), x |-> R(j.xy[1]), y |-> R(j.xy[2]),
                rep |-> JRepW(j.rep), props |-> JProps(j.aprops)]
RECURSIVE CatSeq(_)
CatSeq(ss) == IF ss = <<>> THEN <<>> ELSE Head(ss) \o CatSeq(Tail(ss))
RPaths(c) == IF "rpaths" \in DOMAIN c THEN c.rpaths ELSE <<>>
ExpCell(c) == [name |-> c.name, props |-> JProps(c.aprops),
               polys |-> [i \in DOMAIN c.polys |-> ExpPoly(c.polys[i])],
               \* flexible paths first, then robust ones (the writer's order); one PATH per element
               paths |-> CatSeq([i \in DOMAIN c.paths |-> ExpPaths(c.paths[i])])
                         \o CatSeq([i \in DOMAIN RPaths(c) |-> ExpPaths(RPaths(c)[i])]),
               refs |-> [i \in DOMAIN c.refs |-> ExpRef(c.refs[i])],
               labels |-> [i \in DOMAIN c.labels |-> ExpLabel(c.labels[i])]]
Expect(p) == [libprops |-> JProps(p.aprops), cells |-> [i \in DOMAIN p.cells |-> ExpCell(p.cells[i])]]
\* what the generator promises about its libraries; anything else makes the case "unsupported_input"
Supported(p) == \A i \in DOMAIN p.cells :
                   /\ p.cells[i].nrobust = Len(RPaths(p.cells[i]))
                   /\ \A k \in DOMAIN RPaths(p.cells[i]) :
                         LET j == RPaths(p.cells[i])[k] IN
                         j.seg /\ j.simple /\ \A e \in DOMAIN j.els : j.els[e].off = 0 /\ j.els[e].pt \in {0, 2, 4}
                   /\ \A k \in DOMAIN p.cells[i].paths :
                         LET j == p.cells[i].paths[k] IN
                         j.simple /\ \A e \in DOMAIN j.els : j.els[e].off = 0 /\ j.els[e].pt \in {0, 2, 4}

\* ---- layout vs layout (both in specification form) ---------------------------------------------
ValEq(a, b) ==      \* a from the file, b expected
    CASE b.t = "u" -> a.t = "u" /\ BEq(a.x, b.x)
      [] b.t = "i" -> a.t = "i" /\ a.x = b.x
      [] b.t = "r" -> a.t = "r" /\ RealIsExactlyDouble(a.x, b.x.bits)      \* reals are stored losslessly
      [] OTHER -> a.t = "s" /\ a.x = b.x
PropsEq(a, b) == /\ Len(a) = Len(b)
                 /\ \A i \in DOMAIN a : /\ a[i].name = b[i].name /\ Len(a[i].vals) = Len(b[i].vals)
                                        /\ \A k \in DOMAIN a[i].vals : ValEq(a[i].vals[k], b[i].vals[k])
RepEq(a, b) == (a = <<>> /\ b = <<>>) \/ (a # <<>> /\ b # <<>> /\ SameBag(a, b))

Mod360(a) == ((a % 23040) + 23040) % 23040
FileMag(mag) == CASE mag[1] = "one" -> 1024 [] mag[1] = "lat" -> mag[2] [] OTHER -> RealNear(mag[2], 1024)
FileAng(rot) == CASE rot[1] = "quarter" -> 5760 * rot[2] [] rot[1] = "lat" -> rot[2] [] OTHER -> RealNear(rot[2], 64)

\* [M] a CIRCLE record stands for the saved polygon: every saved vertex within tol (+ grid rounding)
\* of the circle, in 1/100 grid unit
CircleCovers(c, r, tol100, fine) ==
    LET C == <<100 * c[1], 100 * c[2]>>
        Rr == 100 * r
        slack == tol100 + 150 IN          \* centre and radius are each rounded to the grid
    /\ Rr < 10000
    /\ \A i \in DOMAIN fine :
          LET p == <<fine[i][1] \div 10, fine[i][2] \div 10>>
              d2 == (p[1] - C[1]) * (p[1] - C[1]) + (p[2] - C[2]) * (p[2] - C[2]) IN
          Max(Rr - slack, 0) * Max(Rr - slack, 0) <= d2 /\ d2 <= (Rr + slack) * (Rr + slack)

PolyEq(a, b, tol100) ==
    Tag("layer", BEq(a.l, b.l)) \cup Tag("datatype", BEq(a.t, b.t)) \cup Tag("repetition", RepEq(a.rep, b.rep))
    \cup Tag("properties", PropsEq(a.props, b.props))
    \cup (IF a.shape = "circle"
          THEN Tag("circle_requested", tol100 > 0) \cup Tag("circle_within_tolerance", CircleCovers(a.pts[1], a.pts[2][1], tol100, b.fine))
          ELSE Tag(a.shape \o "_vertices", SameRing(a.pts, b.pts)))
PathEq(a, b) ==
    Tag("layer", BEq(a.l, b.l)) \cup Tag("datatype", BEq(a.t, b.t)) \cup Tag("repetition", RepEq(a.rep, b.rep))
    \cup Tag("properties", PropsEq(a.props, b.props)) \cup Tag("half_width", a.hw = b.hw)
    \cup Tag("end_extensions", <<a.es, a.ee>> = <<b.es, b.ee>>)
    \cup Tag("spine", PathRefines(a.pts, SimplifyOpen(b.pts)))
RefEq(a, b) ==
    Tag("cell_name", a.cell = b.cell) \cup Tag("reflection", a.refl = b.refl)
    \cup Tag("magnification", FileMag(a.mag) = FileMag(b.mag))
    \cup Tag("rotation", FileAng(a.rot) # -1 /\ Mod360(FileAng(a.rot)) = Mod360(FileAng(b.rot)))
    \cup Tag("origin", <<a.x, a.y>> = <<b.x, b.y>>) \cup Tag("repetition", RepEq(a.rep, b.rep))
    \cup Tag("properties", PropsEq(a.props, b.props))
LabelEq(a, b) ==
    Tag("text", a.text = b.text) \cup Tag("layer", BEq(a.l, b.l)) \cup Tag("texttype", BEq(a.t, b.t))
    \cup Tag("origin", <<a.x, a.y>> = <<b.x, b.y>>) \cup Tag("repetition", RepEq(a.rep, b.rep))
    \cup Tag("properties", PropsEq(a.props, b.props))
SeqEq(kind, a, b, Eq(_, _)) == IF Len(a) # Len(b) THEN {kind \o "_count"}
                               ELSE UNION {Prefix(kind, Eq(a[i], b[i])) : i \in DOMAIN a}
CellEq(a, b, tol100) ==
    LET PE(x, y) == PolyEq(x, y, tol100) IN
    Tag("cell_name", a.name = b.name) \cup Tag("cell_properties", PropsEq(a.props, b.props))
    \cup SeqEq("polygon", a.polys, b.polys, PE) \cup SeqEq("path", a.paths, b.paths, PathEq)
    \cup SeqEq("reference", a.refs, b.refs, RefEq) \cup SeqEq("label", a.labels, b.labels, LabelEq)
\* file layout a (Oasis!Finish) against expected layout b (Expect)
LayEq(a, b, tol100) ==
    Tag("library_properties", PropsEq(a.libprops, b.libprops))
    \cup (IF Len(a.cells) # Len(b.cells) THEN {"cell_count"}
          ELSE UNION {CellEq(a.cells[i], b.cells[i], tol100) : i \in DOMAIN a.cells})

\* ---- END record, table offsets, signature ------------------------------------------------------
KindsOfTable == << {3, 4}, {5, 6}, {7, 8}, {9, 10} >>
TableTruth(recs, offs, t) ==
    LET ks == KindsOfTable[t]
        idx == {i \in DOMAIN recs : recs[i].k \in ks}
        strict == offs[2 * t - 1]
        off == offs[2 * t] IN
    IF idx = {} THEN off = 0
    ELSE LET first == CHOOSE i \in idx : \A q \in idx : i <= q
             last == CHOOSE i \in idx : \A q \in idx : i >= q IN
         /\ recs[first].off = off /\ off > 0
         \* strict: one contiguous run of records of this kind (with their properties), outside CBLOCKs
         /\ strict = 1 => \A i \in first..last : recs[i].k \in ks \cup {28, 29} /\ recs[i].off >= 0
\* strict tables promise that every use of such a name is by reference number
InlineNames(recs, t) ==
    CASE t = 1 -> \E i \in DOMAIN recs : \/ recs[i].k = 14
                                         \/ (recs[i].k \in {17, 18} /\ Has(recs[i].f.info, 128) /\ ~Has(recs[i].f.info, 64))
      [] t = 2 -> \E i \in DOMAIN recs : recs[i].k = 19 /\ Has(recs[i].f.info, 64) /\ ~Has(recs[i].f.info, 32)
      [] t = 3 -> \E i \in DOMAIN recs : recs[i].k = 28 /\ Has(recs[i].f.info, 4) /\ ~Has(recs[i].f.info, 2)
      [] OTHER -> \E i \in DOMAIN recs : recs[i].k = 28 /\ \E v \in DOMAIN recs[i].f.vals : recs[i].f.vals[v].t = "s"
FrameFails(d, bytes, flags, level) ==
    LET fr == d.frame
        want == IF Has(flags, 64) THEN 1 ELSE IF Has(flags, 128) THEN 2 ELSE 0
        n == fr.sigstart - 1 IN
    \* [M] 1e-6 / precision in floating point: 1000 to within 2^-10
    Tag("unit_is_1000_steps_per_micron", RealNear(fr.unit, 1) = 1000)
    \cup UNION {Tag("table_offset_" \o ToString(t), TableTruth(d.recs, fr.offsets, t)) : t \in 1..4}
    \cup UNION {Tag("strict_table_" \o ToString(t) \o "_but_inline_name", fr.offsets[2 * t - 1] = 1 => ~InlineNames(d.recs, t)) : t \in 1..4}
    \cup Tag("unused_tables_zero", fr.offsets[10] = 0 /\ fr.offsets[12] = 0)
    \cup Tag("validation_scheme", fr.scheme = want)
    \cup Tag("signature", CASE fr.scheme = 1 -> fr.sig = Crc32LE(bytes, n)
                            [] fr.scheme = 2 -> fr.sig = Checksum32LE(bytes, n)
                            [] OTHER -> fr.sig = <<>>)
    \cup Tag("no_cblock_without_compression", level = 0 => \A i \in DOMAIN d.recs : d.recs[i].k # 34)

\* ---- standard properties (written into the library and the file on request) -----------------------
Str(s) == [i \in 1..Len(s) |-> s[i]]
N_TOP == <<83, 95, 84, 79, 80, 95, 67, 69, 76, 76>>                                          \* S_TOP_CELL
N_BBA == <<83, 95, 66, 79, 85, 78, 68, 73, 78, 71, 95, 66, 79, 88, 69, 83, 95, 65, 86, 65, 73, 76, 65, 66, 76, 69>>
N_BB == <<83, 95, 66, 79, 85, 78, 68, 73, 78, 71, 95, 66, 79, 88>>                            \* S_BOUNDING_BOX
N_OFF == <<83, 95, 67, 69, 76, 76, 95, 79, 70, 70, 83, 69, 84>>                               \* S_CELL_OFFSET
N_MAXS == <<83, 95, 77, 65, 88, 95, 83, 73, 71, 78, 69, 68, 95, 73, 78, 84, 69, 71, 69, 82, 95, 87, 73, 68, 84, 72>>
N_MAXU == <<83, 95, 77, 65, 88, 95, 85, 78, 83, 73, 71, 78, 69, 68, 95, 73, 78, 84, 69, 71, 69, 82, 95, 87, 73, 68, 84, 72>>
N_MAXSTR == <<83, 95, 77, 65, 88, 95, 83, 84, 82, 73, 78, 71, 95, 76, 69, 78, 71, 84, 72>>
N_MAXPOLY == <<83, 95, 80, 79, 76, 89, 71, 79, 78, 95, 77, 65, 88, 95, 86, 69, 82, 84, 73, 67, 69, 83>>
N_MAXPATH == <<83, 95, 80, 65, 84, 72, 95, 77, 65, 88, 95, 86, 69, 82, 84, 73, 67, 69, 83>>
StdNames == {N_TOP, N_BBA, N_BB, N_OFF, N_MAXS, N_MAXU, N_MAXSTR, N_MAXPOLY, N_MAXPATH}
Named(ps, nm) == {i \in DOMAIN ps : ps[i].name = nm}
TheOne(ps, nm) == ps[CHOOSE i \in Named(ps, nm) : TRUE]
UVal(v) == IF v.t = "u" /\ Len(v.x) <= 30 THEN ToInt(v.x) ELSE -1
IVal(v) == IF v.t = "i" /\ Len(v.x.mag) <= 30 THEN SInt(v.x) ELSE IF v.t = "u" /\ Len(v.x) <= 30 THEN ToInt(v.x) ELSE -999999

\* bounding box of a cell of the file, when it can be computed exactly here: polygons, Manhattan
\* paths, references by quarter turns to cells that qualify; <<>> = not computable
BoxOfPts(ps) == IF ps = <<>> THEN <<>> ELSE
    LET xs == {ps[i][1] : i \in DOMAIN ps}
        ys == {ps[i][2] : i \in DOMAIN ps} IN
    <<CHOOSE a \in xs : \A q \in xs : a <= q, CHOOSE a \in ys : \A q \in ys : a <= q,
      CHOOSE a \in xs : \A q \in xs : a >= q, CHOOSE a \in ys : \A q \in ys : a >= q>>
BoxUnion(a, b) == IF a = <<>> THEN b ELSE IF b = <<>> THEN a
                  ELSE <<Min(a[1], b[1]), Min(a[2], b[2]), Max(a[3], b[3]), Max(a[4], b[4])>>
RECURSIVE BoxAll(_)
BoxAll(bs) == IF bs = <<>> THEN <<>> ELSE BoxUnion(Head(bs), BoxAll(Tail(bs)))
BoxShiftAll(b, offs) == IF b = <<>> THEN <<>>
                        ELSE IF offs = <<>> THEN b
                        ELSE BoxAll([i \in DOMAIN offs |-> <<b[1] + offs[i][1], b[2] + offs[i][2], b[3] + offs[i][1], b[4] + offs[i][2]>>])
Manhattan(ps) == \A i \in 1..(Len(ps) - 1) : ps[i][1] = ps[i + 1][1] \/ ps[i][2] = ps[i + 1][2]
\* outline box of a Manhattan path: each segment widened by hw, the two ends lengthened by es / ee
PathBox(p) ==
    LET n == Len(p.pts)
        SegBox(i) == LET a == p.pts[i]
                         b == p.pts[i + 1]
                         s == IF i = 1 THEN p.es ELSE 0
                         e == IF i = n - 1 THEN p.ee ELSE 0
                         dx == IF b[1] > a[1] THEN 1 ELSE IF b[1] < a[1] THEN -1 ELSE 0
                         dy == IF b[2] > a[2] THEN 1 ELSE IF b[2] < a[2] THEN -1 ELSE 0
                         a2 == <<a[1] - dx * s, a[2] - dy * s>>
                         b2 == <<b[1] + dx * e, b[2] + dy * e>> IN
                     IF dx # 0 THEN <<Min(a2[1], b2[1]), a[2] - p.hw, Max(a2[1], b2[1]), a[2] + p.hw>>
                     ELSE <<a[1] - p.hw, Min(a2[2], b2[2]), a[1] + p.hw, Max(a2[2], b2[2])>> IN
    BoxAll([i \in 1..(n - 1) |-> SegBox(i)])
CircleBox(p) == <<p.pts[1][1] - p.pts[2][1], p.pts[1][2] - p.pts[2][1], p.pts[1][1] + p.pts[2][1], p.pts[1][2] + p.pts[2][1]>>
\* image of a box under reflection about x (first), quarter turns, integer magnification, translation
XformBox(b, refl, q, mag, x, y) ==
    LET c1 == << <<b[1], b[2]>>, <<b[3], b[4]>> >>
        F(p) == LET p1 == IF refl THEN <<p[1], -p[2]>> ELSE p
                    p2 == CASE q = 0 -> p1 [] q = 1 -> <<-p1[2], p1[1]>> [] q = 2 -> <<-p1[1], -p1[2]>> [] OTHER -> <<p1[2], -p1[1]>> IN
                <<mag * p2[1] + x, mag * p2[2] + y>> IN
    BoxOfPts(<<F(c1[1]), F(c1[2])>>)
RECURSIVE CellBox(_, _, _)
CellBox(lay, name, depth) ==        \* [ok, box]
    LET idx == {i \in DOMAIN lay.cells : lay.cells[i].name = name} IN
    IF idx = {} THEN [ok |-> TRUE, box |-> <<>>]            \* dangling reference: contributes nothing
    ELSE IF depth = 0 THEN [ok |-> FALSE, box |-> <<>>]
    ELSE LET c == lay.cells[CHOOSE i \in idx : TRUE]
             polyb == [i \in DOMAIN c.polys |->
                         BoxShiftAll(IF c.polys[i].shape = "circle" THEN <<>> ELSE BoxOfPts(c.polys[i].pts), c.polys[i].rep)]
             pathsok == \A i \in DOMAIN c.paths : Manhattan(c.paths[i].pts) /\ Len(c.paths[i].pts) >= 2
             pathb == [i \in DOMAIN c.paths |-> BoxShiftAll(PathBox(c.paths[i]), c.paths[i].rep)]
             sub == [i \in DOMAIN c.refs |-> CellBox(lay, c.refs[i].cell, depth - 1)]
             refok == \A i \in DOMAIN c.refs :
                         /\ sub[i].ok /\ FileAng(c.refs[i].rot) # -1 /\ FileAng(c.refs[i].rot) % 5760 = 0
                         /\ FileMag(c.refs[i].mag) > 0 /\ FileMag(c.refs[i].mag) % 1024 = 0
             refb == [i \in DOMAIN c.refs |->
                        IF sub[i].box = <<>> \/ ~refok THEN <<>>
                        ELSE BoxShiftAll(XformBox(sub[i].box, c.refs[i].refl, (Mod360(FileAng(c.refs[i].rot)) \div 5760) % 4,
                                                  FileMag(c.refs[i].mag) \div 1024, c.refs[i].x, c.refs[i].y), c.refs[i].rep)]
             labb == [i \in DOMAIN c.labels |->
                        BoxShiftAll(<<c.labels[i].x, c.labels[i].y, c.labels[i].x, c.labels[i].y>>, c.labels[i].rep)]
             nocircle == \A i \in DOMAIN c.polys : c.polys[i].shape # "circle" IN
         [ok |-> pathsok /\ refok /\ nocircle,
          box |-> BoxUnion(BoxUnion(BoxAll(polyb), BoxAll(labb)), BoxUnion(BoxAll(pathb), BoxAll(refb)))]

RECURSIVE HasOutside(_, _, _)
HasOutside(lay, name, depth) ==      \* does the cell refer, directly or not, to a cell the file does not contain ?
    LET idx == {i \in DOMAIN lay.cells : lay.cells[i].name = name} IN
    IF idx = {} THEN TRUE
    ELSE IF depth = 0 THEN FALSE
    ELSE LET c == lay.cells[CHOOSE i \in idx : TRUE] IN
         \E k \in DOMAIN c.refs : HasOutside(lay, c.refs[k].cell, depth - 1)
Referenced(lay) == UNION {{lay.cells[i].refs[k].cell : k \in DOMAIN lay.cells[i].refs} : i \in DOMAIN lay.cells}
MaxOver(S) == IF S = {} THEN 0 ELSE CHOOSE a \in S : \A q \in S : a >= q
AllStrings(d) == {Len(d.recs[i].f.str) : i \in {q \in DOMAIN d.recs : d.recs[q].k \in {3, 4, 5, 6, 7, 8, 9, 10, 14}}}
StdPropFails(d, flags, ongrid) ==
    LET slack == 4
        lay == d.lay
        lp == lay.libprops IN
    \* S_TOP_CELL: one property per top-level cell (a cell no other cell of the file refers to)
    (IF ~Has(flags, 2) THEN {}
     ELSE LET tops == {lay.cells[i].name : i \in DOMAIN lay.cells} \ Referenced(lay)
              given == {lp[i].vals[1].x : i \in {q \in Named(lp, N_TOP) : Len(lp[q].vals) = 1 /\ lp[q].vals[1].t = "s"}} IN
          Tag("S_TOP_CELL", given = tops /\ Cardinality(Named(lp, N_TOP)) = Cardinality(tops)))
    \cup
    (IF ~Has(flags, 4) THEN {}
     ELSE Tag("S_BOUNDING_BOXES_AVAILABLE", Cardinality(Named(lp, N_BBA)) = 1 /\ Len(TheOne(lp, N_BBA).vals) = 1
                                            /\ UVal(TheOne(lp, N_BBA).vals[1]) = 2)
          \cup UNION {LET c == lay.cells[i]
                          has == Cardinality(Named(c.props, N_BB)) = 1 /\ Len(TheOne(c.props, N_BB).vals) = 5
                          v == TheOne(c.props, N_BB).vals
                          cb == CellBox(lay, c.name, 4) IN
                      IF ~has THEN {"S_BOUNDING_BOX_missing"}
                      ELSE IF ~cb.ok THEN {}                 \* not computable here (counted by the runner)
                      ELSE LET b == IF cb.box = <<>> THEN <<0, 0, 0, 0>> ELSE cb.box
                               g == <<IVal(v[2]), IVal(v[3]), IVal(v[2]) + UVal(v[4]), IVal(v[3]) + UVal(v[5])>>
                               exact == UVal(v[1]) = 0 /\ g = b
                               \* the writer takes the box of the unrounded geometry: with coordinates off
                               \* the grid it can differ from the box of the file's geometry by the
                               \* rounding of each level (at most `slack` grid units per bound)
                               near == UVal(v[1]) = 0 /\ \A q \in 1..4 : Abs(g[q] - b[q]) <= slack IN
                           IF exact THEN {}
                           ELSE IF ~ongrid /\ near THEN {"S_BOUNDING_BOX_of_unrounded_geometry"}
                           ELSE IF HasOutside(lay, c.name, 4) THEN {"S_BOUNDING_BOX_includes_cell_outside_library"}
                           ELSE {"S_BOUNDING_BOX"}
                      : i \in DOMAIN lay.cells})
    \cup
    (IF ~Has(flags, 1) THEN {}
     ELSE LET One(nm) == Cardinality(Named(lp, nm)) = 1 /\ Len(TheOne(lp, nm).vals) = 1
              V(nm) == UVal(TheOne(lp, nm).vals[1])
              polymax == MaxOver(UNION {{Len(lay.cells[i].polys[k].pts) : k \in {q \in DOMAIN lay.cells[i].polys : lay.cells[i].polys[q].shape # "circle"}} : i \in DOMAIN lay.cells})
              pathmax == MaxOver(UNION {{Len(lay.cells[i].paths[k].pts) : k \in DOMAIN lay.cells[i].paths} : i \in DOMAIN lay.cells}) IN
          Tag("S_MAX_present", One(N_MAXS) /\ One(N_MAXU) /\ One(N_MAXSTR) /\ One(N_MAXPOLY) /\ One(N_MAXPATH))
          \cup (IF ~(One(N_MAXS) /\ One(N_MAXU) /\ One(N_MAXSTR) /\ One(N_MAXPOLY) /\ One(N_MAXPATH)) THEN {}
                ELSE Tag("S_MAX_integer_widths", V(N_MAXS) = 8 /\ V(N_MAXU) = 8)
                     \cup Tag("S_MAX_STRING_LENGTH", V(N_MAXSTR) >= MaxOver(AllStrings(d)))
                     \cup Tag("S_POLYGON_MAX_VERTICES", V(N_MAXPOLY) >= polymax)
                     \cup Tag("S_PATH_MAX_VERTICES", V(N_MAXPATH) >= pathmax)))
    \cup
    (IF ~Has(flags, 8) THEN {}
     ELSE UNION {LET c == lay.cells[i] IN
                 Tag("S_CELL_OFFSET", Cardinality(Named(c.props, N_OFF)) = 1 /\ Len(TheOne(c.props, N_OFF).vals) = 1
                                      /\ UVal(TheOne(c.props, N_OFF).vals[1]) = c.off)
                 : i \in DOMAIN lay.cells})

\* the library after the write is the library before it plus the requested standard properties
StripStd(ps) == SelectSeq(ps, LAMBDA p : p.name \notin StdNames)
SourceKept(pre, after) ==
    /\ Len(pre.cells) = Len(after.cells)
    /\ StripStd(after.aprops) = StripStd(pre.aprops)
    /\ \A i \in DOMAIN pre.cells :
          LET a == after.cells[i]
              b == pre.cells[i] IN
          /\ StripStd(a.aprops) = StripStd(b.aprops)
          /\ [a EXCEPT !.aprops = <<>>] = [b EXCEPT !.aprops = <<>>]

OnGridLib(p) == \A i \in DOMAIN p.cells :
                  /\ \A k \in DOMAIN p.cells[i].polys : PtsOnGrid(p.cells[i].polys[k].xy)
                  /\ \A k \in DOMAIN p.cells[i].paths : /\ PtsOnGrid(p.cells[i].paths[k].spine)
                                                        /\ \A e \in DOMAIN p.cells[i].paths[k].els :
                                                              LET el == p.cells[i].paths[k].els[e] IN
                                                              el.w % 2000 = 0 /\ el.ext[1] % 1000 = 0 /\ el.ext[2] % 1000 = 0
                  /\ \A k \in DOMAIN p.cells[i].refs : OnGrid(p.cells[i].refs[k].xy)
                  /\ \A k \in DOMAIN p.cells[i].labels : OnGrid(p.cells[i].labels[k].xy)
\* ---- C04, second half: one saved library -----------------------------------------------------------
EncCheck(ev) ==
    LET d == Decode(ev.bytes)
        tol100 == 100 * ev.opts.tol                  \* tol is logged in 1/1000 user unit = grid units here
        dangling == d.ok /\ Dangling(d.lay) IN
    IF ~Supported(ev.pre) THEN {"unsupported_input"}
    ELSE IF ev.werr # 0 THEN {"write_error_code"}
    ELSE IF ~d.ok THEN {"strict_decoder_rejects:" \o d.why \o "@" \o ToString(d.at)}
    ELSE Tag("source_library_kept", SourceKept(ev.pre, ev.src_after))
         \cup Prefix("file", LayEq(d.lay, Expect(ev.src_after), tol100))
         \cup Prefix("end", FrameFails(d, ev.bytes, ev.opts.flags, ev.opts.level))
         \cup Prefix("std", StdPropFails(d, ev.opts.flags, OnGridLib(ev.pre)))
         \cup Tag("oas_validate", ev.valid.ok /\ (d.frame.scheme = 0 => ev.valid.err = 9)
                                  /\ (d.frame.scheme # 0 => ev.valid.err = 0 /\ ev.valid.sig = d.frame.sig))
         \cup Prefix("reload", LayoutFails(d.lay, ev.back[1], 1))
         \* the file written again from the reloaded library (last cycle) must be as truthful
         \cup (IF Len(ev.files) = 0 THEN {}
               ELSE LET d2 == Decode(ev.files[Len(ev.files)]) IN
                    IF ~d2.ok THEN {"rewrite:strict_decoder_rejects:" \o d2.why}
                    ELSE Prefix("rewrite:end", FrameFails(d2, ev.files[Len(ev.files)], ev.opts.flags, ev.opts.level))
                         \cup Prefix("rewrite:std", StdPropFails(d2, ev.opts.flags, TRUE)))
         \cup Tag("reload_error_code", ev.errs[1] = (IF dangling THEN 4 ELSE 0))
         \cup Tag("files_closed", ev.fd = 0)

\* ---- C02: save/load cycles ----------------------------------------------------------------------------
ISqrt(x) == CHOOSE r \in 0..46340 : r * r <= x /\ (r + 1) * (r + 1) > x
\* [M] both outlines lie in one thin annulus around the same centre and the reloaded one goes once
\* around it: units of 1/10 grid, doubled coordinates (centre = middle of the original's box)
Hausdorffish(fine, jxy, tol) ==
    LET P(ps, i) == <<ps[i][1] \div 100, ps[i][2] \div 100>>
        bx == BoxOfPts([i \in DOMAIN fine |-> P(fine, i)])
        cx2 == bx[1] + bx[3]
        cy2 == bx[2] + bx[4]
        D2(p) == (2 * p[1] - cx2) * (2 * p[1] - cx2) + (2 * p[2] - cy2) * (2 * p[2] - cy2)
        ds == {D2(P(fine, i)) : i \in DOMAIN fine}
        rmax == ISqrt(MaxOver(ds)) + 1
        rmin == ISqrt(CHOOSE a \in ds : \A q \in ds : a <= q)
        T == 2 * 10 * (2 * tol + 2)          \* write tolerance + read tolerance (1 grid) + roundings, doubled
        n == Len(jxy)
        Q(i) == P(jxy, ((i - 1) % n) + 1)
        C2 == <<cx2, cy2>>
        Q2(i) == <<2 * Q(i)[1], 2 * Q(i)[2]>> IN
    /\ n >= 3 /\ rmax < 20000
    \* only a polygon that IS a circle within the tolerances may come back with other vertices: the
    \* original's own vertices lie in a thin annulus (a triangle or a trapezoid does not qualify)
    /\ rmax - rmin <= T
    /\ \A i \in 1..n : Max(rmin - T, 0) * Max(rmin - T, 0) <= D2(Q(i)) /\ D2(Q(i)) <= (rmax + T) * (rmax + T)
    /\ (\A i \in 1..n : Cross(C2, Q2(i), Q2(i + 1)) > 0) \/ (\A i \in 1..n : Cross(C2, Q2(i), Q2(i + 1)) < 0)
RefFails2(s, jr, j) == RefFails(s @@ [known |-> \E c \in DOMAIN j.cells : j.cells[c].name = s.cell], jr)
\* every reload equals the saved library on the grid; detected circles within tolerance; further cycles
\* change nothing (projections identical from the first reload on); signatures valid
\* circles: a reloaded circle is a polygon (with possibly different vertices) within tol of the original
NameSeq(ps) == [i \in DOMAIN ps |-> ps[i].name]
StdOnly(ps) == SelectSeq(ps, LAMBDA q : q.name \in StdNames)
\* which standard properties a reloaded library carries, where: they are rewritten by every save but
\* must neither multiply nor vanish
StdNamesOf(j) == <<NameSeq(StdOnly(j.aprops)), [i \in DOMAIN j.cells |-> NameSeq(StdOnly(j.cells[i].aprops))]>>
NoStdS(ps) == SelectSeq(ps, LAMBDA q : q.name \notin StdNames)
\* reloaded projection j against the expected layout exp; strip: ignore the standard properties
\* (they describe the file just written and are recomputed by every save)
RoundTrip(exp, j, tol, strip) ==
    LET SP(ps) == IF strip THEN NoStdS(ps) ELSE ps IN
    Tag("library_properties", PropsAgree(SP(exp.libprops), SP(j.aprops)))
    \cup (IF Len(j.cells) # Len(exp.cells) THEN {"cell_count"}
          ELSE UNION {LET s == exp.cells[i]
                          c == j.cells[i] IN
                      Tag("cell_name", c.name = s.name) \cup Tag("cell_properties", PropsAgree(SP(s.props), SP(c.aprops)))
                      \cup (IF Len(c.polys) # Len(s.polys) THEN {"polygon_count"}
                            ELSE UNION {LET sp == s.polys[k]
                                            jp == c.polys[k]
                                            same == PtsOnGrid(jp.xy) /\ SameRing(sp.pts, GridPts(jp.xy)) IN
                                        Prefix("polygon", Tag("layer", WrapInt(sp.l) = jp.l) \cup Tag("datatype", WrapInt(sp.t) = jp.t)
                                            \cup Tag("repetition", RepAgree(sp.rep, jp.rep))
                                            \cup Tag("properties", PropsAgree(sp.props, jp.aprops))
                                            \cup (IF same THEN {}
                                                  ELSE IF tol = 0 THEN {"vertices"}
                                                  ELSE Tag("circle_within_tolerance", Hausdorffish(sp.fine, jp.xy, tol))))
                                        : k \in DOMAIN s.polys})
                      \cup (IF Len(c.paths) # Len(s.paths) THEN {"path_count"}
                            ELSE UNION {Prefix("path", PathFails(s.paths[k], c.paths[k])) : k \in DOMAIN s.paths})
                      \cup (IF Len(c.refs) # Len(s.refs) THEN {"reference_count"}
                            ELSE UNION {Prefix("reference", RefFails2(s.refs[k], c.refs[k], j)) : k \in DOMAIN s.refs})
                      \cup (IF Len(c.labels) # Len(s.labels) THEN {"label_count"}
                            ELSE UNION {Prefix("label", LabelFails(s.labels[k], c.labels[k])) : k \in DOMAIN s.labels})
                      : i \in DOMAIN exp.cells})
CycleFails(ev) ==
    LET tol == ev.opts.tol IN
    IF ~Supported(ev.pre) THEN {"unsupported_input"}
    ELSE Prefix("cycle1", RoundTrip(Expect(ev.src_after), ev.back[1], tol, FALSE))
         \cup UNION {Prefix("cycle" \o ToString(k), RoundTrip(Expect(ev.back[k - 1]), ev.back[k], tol, TRUE)
                                                   \cup Tag("standard_property_names", StdNamesOf(ev.back[k]) = StdNamesOf(ev.back[1]))
                                                   \cup Tag("grid", ev.back[k].unit = ev.back[1].unit /\ ev.back[k].precision = ev.back[1].precision))
                     : k \in 2..Len(ev.back)}
         \cup Tag("error_codes", \A k \in DOMAIN ev.errs : ev.errs[k] \in {0, 4})
         \cup Tag("signature_valid", ev.valid.ok)
         \cup Tag("files_closed", ev.fd = 0)
=============================================================================
