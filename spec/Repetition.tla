----------------------------- MODULE Repetition -----------------------------
(***************************************************************************)
(* gdstk repetitions (src/repetition.cpp) as bags of displacement vectors. *)
(* A repetition value is one of                                            *)
(*   [type |-> "none"]                                                     *)
(*   [type |-> "rect",    cols, rows, sp  (a point)]                       *)
(*   [type |-> "regular", cols, rows, v1, v2]                              *)
(*   [type |-> "explicit",  offs   (sequence of points)]                   *)
(*   [type |-> "explicitx", coords (sequence of integers)]                 *)
(*   [type |-> "explicity", coords]                                        *)
(* all coordinates in quanta (Base.tla).                                   *)
(***************************************************************************)
EXTENDS Base

NoRep == [type |-> "none"]
Rect(c, r, sp) == [type |-> "rect", cols |-> c, rows |-> r, sp |-> sp]
Regular(c, r, v1, v2) == [type |-> "regular", cols |-> c, rows |-> r, v1 |-> v1, v2 |-> v2]
Explicit(o) == [type |-> "explicit", offs |-> o]
ExplicitX(c) == [type |-> "explicitx", coords |-> c]
ExplicitY(c) == [type |-> "explicity", coords |-> c]

\* ---- denotation: the sequence of offsets (compared as a bag) ----------------
\* lattice kinds: column-major, i over columns, j over rows
LatticeSeq(cols, rows, v1, v2) ==
    [k \in 1..(cols * rows) |->
        LET i == (k - 1) \div rows
            j == (k - 1) % rows
        IN  <<i * v1[1] + j * v2[1], i * v1[2] + j * v2[2]>>]

Offsets(r) ==
    CASE r.type = "none"      -> <<>>
      [] r.type = "rect"      -> LatticeSeq(r.cols, r.rows, <<r.sp[1], 0>>, <<0, r.sp[2]>>)
      [] r.type = "regular"   -> LatticeSeq(r.cols, r.rows, r.v1, r.v2)
      [] r.type = "explicit"  -> <<<<0, 0>>>> \o r.offs
      [] r.type = "explicitx" -> <<<<0, 0>>>> \o [i \in DOMAIN r.coords |-> <<r.coords[i], 0>>]
      [] r.type = "explicity" -> <<<<0, 0>>>> \o [i \in DOMAIN r.coords |-> <<0, r.coords[i]>>]

Count(r) == Len(Offsets(r))

\* ---- get_extrema, transcribed ------------------------------------------------
LatticeExtrema(cols, rows, v1, v2) ==
    IF cols = 0 \/ rows = 0 THEN <<>>
    ELSE LET vi == <<(cols - 1) * v1[1], (cols - 1) * v1[2]>>
             vj == <<(rows - 1) * v2[1], (rows - 1) * v2[2]>>
         IN  IF cols = 1 THEN (IF rows = 1 THEN <<<<0, 0>>>> ELSE <<<<0, 0>>, vj>>)
             ELSE IF rows = 1 THEN <<<<0, 0>>, vi>>
             ELSE <<<<0, 0>>, vi, vj, VAdd(vi, vj)>>

\* explicit kinds: the code scans with (0,0) as the initial candidate
Extrema(r) ==
    CASE r.type = "none" -> <<>>
      [] r.type = "rect" -> LatticeExtrema(r.cols, r.rows, <<r.sp[1], 0>>, <<0, r.sp[2]>>)
      [] r.type = "regular" -> LatticeExtrema(r.cols, r.rows, r.v1, r.v2)
      [] OTHER ->
           \* the specification of the explicit kinds is the property itself: any choice of
           \* members of Offsets that spans the bounding box; this canonical choice takes, per
           \* side, some member attaining it
           LET offs == Offsets(r)
               S == SeqSet(offs)
               bb == BBox(S)
               pick(P(_)) == CHOOSE p \in S : P(p)
           IN  <<pick(LAMBDA p : p[1] = bb[1]), pick(LAMBDA p : p[1] = bb[3]),
                 pick(LAMBDA p : p[2] = bb[2]), pick(LAMBDA p : p[2] = bb[4])>>

\* the property's statement about ANY reported extrema list e for repetition r
ExtremaOK(r, e) ==
    LET S == SeqSet(Offsets(r)) IN
    /\ SeqSet(e) \subseteq S
    /\ BBox(SeqSet(e)) = BBox(S)

\* ---- transform(magnification, x_reflection, rotation), transcribed structurally ---
\* m is a linear map (Base!Linear); kinds change exactly as in the code
IsIdentityRot(rot) == rot.s = 0 /\ rot.c = rot.d
Transform(r, mag, refl, rot) ==
    LET m == Linear(mag, refl, rot)
        magonly == Linear(mag, FALSE, Rot0)
    IN
    CASE r.type = "none" -> r
      [] r.type = "rect" ->
            IF refl \/ ~IsIdentityRot(rot)
            THEN Regular(r.cols, r.rows, ApplyLin(m, <<r.sp[1], 0>>), ApplyLin(m, <<0, r.sp[2]>>))
            ELSE Rect(r.cols, r.rows, ApplyLin(magonly, r.sp))
      [] r.type = "regular" -> Regular(r.cols, r.rows, ApplyLin(m, r.v1), ApplyLin(m, r.v2))
      [] r.type = "explicit" -> Explicit([i \in DOMAIN r.offs |-> ApplyLin(m, r.offs[i])])
      [] r.type = "explicitx" ->
            IF ~IsIdentityRot(rot)
            THEN Explicit([i \in DOMAIN r.coords |-> ApplyLin(m, <<r.coords[i], 0>>)])
            ELSE ExplicitX([i \in DOMAIN r.coords |-> ApplyLin(m, <<r.coords[i], 0>>)[1]])
      [] r.type = "explicity" ->
            IF ~IsIdentityRot(rot)
            THEN Explicit([i \in DOMAIN r.coords |-> ApplyLin(m, <<0, r.coords[i]>>)])
            ELSE ExplicitY([i \in DOMAIN r.coords |-> ApplyLin(m, <<0, r.coords[i]>>)[2]])

\* ---- theorems (checked by TLC over the enumerated scope) -------------------------
\* the property: transforming a repetition maps each vector by the linear part
TransformLaw(r, mag, refl, rot) ==
    LET m == Linear(mag, refl, rot) IN
    BagEq(Offsets(Transform(r, mag, refl, rot)),
          [i \in DOMAIN Offsets(r) |-> ApplyLin(m, Offsets(r)[i])])

\* Polygon::scale with two factors (scale_repetition in src/polygon.cpp), transcribed: every kind
\* keeps its kind because a diagonal map keeps the axes
ScaleRep(r, sx, sy) ==
    CASE r.type = "none" -> r
      [] r.type = "rect" -> Rect(r.cols, r.rows, <<sx * r.sp[1], sy * r.sp[2]>>)
      [] r.type = "regular" -> Regular(r.cols, r.rows, <<sx * r.v1[1], sy * r.v1[2]>>, <<sx * r.v2[1], sy * r.v2[2]>>)
      [] r.type = "explicit" -> Explicit([i \in DOMAIN r.offs |-> <<sx * r.offs[i][1], sy * r.offs[i][2]>>])
      [] r.type = "explicitx" -> ExplicitX([i \in DOMAIN r.coords |-> sx * r.coords[i]])
      [] r.type = "explicity" -> ExplicitY([i \in DOMAIN r.coords |-> sy * r.coords[i]])
ScaleLaw(r, sx, sy) ==
    BagEq(Offsets(ScaleRep(r, sx, sy)),
          [i \in DOMAIN Offsets(r) |-> <<sx * Offsets(r)[i][1], sy * Offsets(r)[i][2]>>])

ZeroFirst(r) == Count(r) > 0 => Offsets(r)[1] = <<0, 0>>
ExtremaLaw(r) == ExtremaOK(r, Extrema(r))
CountLaw(r) ==
    Count(r) = CASE r.type \in {"rect", "regular"} -> r.cols * r.rows
                 [] r.type = "explicit" -> Len(r.offs) + 1
                 [] r.type \in {"explicitx", "explicity"} -> Len(r.coords) + 1
                 [] OTHER -> 0
=============================================================================
