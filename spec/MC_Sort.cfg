INIT Init
NEXT Next
CONSTANTS
  InsMax = 3
  DepthMul = 1
  MaxN = 7
  ValsS = {1, 2, 3, 4}
  Cmps = {"lt", "gt", "mod"}
INVARIANTS InvIntro InvHeap InvIns InvPart InvPartSplit
CHECK_DEADLOCK FALSE
