------------------------------ MODULE C10Trace ------------------------------
(* Validates element transforms against the affine maps of Hierarchy.tla.        *)
(* One line = one element put through a sequence of operations; "base" is the     *)
(* element before, "after" the element after (outlines through gdstk's own         *)
(* to_polygons, plus the bookkeeping fields).                                       *)
EXTENDS Hierarchy, Json, IOUtils

Log == ndJsonDeserialize(IOEnv.TRACE)
VARIABLES l
Ev == Log[l]

XformFailing(ev) ==
    LET g == ev.g
        A == TotalMap(g.ops)
        am == AbsMagOf(g.ops, Len(g.ops))
        refl == Det(A) < 0
        sw == g.kind \in {"polygon", "flexpath", "robustpath"}
        outline == sw \/ am.n = am.d
        b == ev.base
        a == ev.after
    IN  (IF ev.lat THEN {} ELSE {<<"off_lattice">>})
        \cup (IF g.kind \in {"label", "reference"} THEN {}
              ELSE IF ~outline \/ SameGeometry(a.parts, MapParts(A, b.parts)) THEN {}
              ELSE {<<"outline_not_mapped_by_affine_map">>})
        \cup (IF g.kind = "label" /\ ~(a.parts[1].ring = MapRing(A, b.parts[1].ring))
              THEN {<<"label_origin">>} ELSE {})
        \cup (IF BagEq(a.offs, [i \in DOMAIN b.offs |-> ApplyLin(A, b.offs[i])]) THEN {}
              ELSE {<<"repetition_not_transformed">>})
        \cup (IF g.kind \in {"flexpath", "flexpath_nosw"}
              THEN (IF a.spine = ApplySeq(A, b.spine) THEN {} ELSE {<<"spine">>})
                   \cup UNION {
                      (IF a.els[k].uniform /\ a.els[k].n = Len(a.spine) THEN {} ELSE {<<"width_offset_entries">>})
                      \cup (IF a.els[k].hw * am.d = b.els[k].hw * (IF sw THEN am.n ELSE am.d) THEN {}
                            ELSE {<<"width_scaling">>})
                      \cup (IF a.els[k].off * am.d = (IF refl THEN -1 ELSE 1) * b.els[k].off * am.n THEN {}
                            ELSE {<<"offset_scaling_or_sign">>})
                      : k \in DOMAIN a.els}
              ELSE {})
        \cup (IF g.kind \in {"robustpath", "robustpath_nosw"}
              THEN LET t == a.trafo
                       M == [xx |-> t[1], xy |-> t[2], yx |-> t[4], yy |-> t[5], den |-> 1000,
                             tx |-> t[3], ty |-> t[6]]
                   IN (IF SameMapR(M, A) THEN {} ELSE {<<"trafo">>})
                      \cup (IF a.wscale * am.d = 1000 * (IF sw THEN am.n ELSE am.d) THEN {}
                            ELSE {<<"width_scale">>})
                      \cup (IF a.oscale * am.d = (IF refl THEN -1000 ELSE 1000) * am.n THEN {}
                            ELSE {<<"offset_scale">>})
              ELSE {})
        \cup (IF g.kind \in {"label", "reference"}
              THEN (IF SameMapR(PlacementOfFields(a.place), Compose(A, ReduceMap(PlacementOfFields(b.place))))
                    THEN {} ELSE {<<"placement_composition">>})
              ELSE {})

Check(ev) == IF ev.e = "xform" THEN XformFailing(ev) ELSE {<<ev.e>>}
TInit == l = 1
TNext == /\ l <= Len(Log) /\ l' = l + 1
         /\ LET f == Check(Ev) IN IF f = {} THEN TRUE
                                  ELSE PrintT("REJECT " \o ToString(l) \o " " \o ToString(f))
=============================================================================
