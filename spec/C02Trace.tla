------------------------------ MODULE C02Trace ------------------------------
(* C02: OASIS save/load cycles.  Each line is one library saved with one option set   *)
(* (flags, deflate level, circle tolerance), reloaded, saved and reloaded again:       *)
(* the first reload must be the saved library on the precision grid (OasWriter!Expect  *)
(* of the source, compared by OasProj), detected circles within tolerance, and later    *)
(* cycles must reproduce the first reload exactly; the signature must validate.         *)
EXTENDS OasWriter, Json, IOUtils

Log == ndJsonDeserialize(IOEnv.TRACE)
VARIABLES l
Ev == Log[l]
Check(ev) ==
    CASE ev.e = "enc" -> CycleFails(ev)
      [] ev.e \in {"Crash", "Hang"} -> {ev.e \o "_phase_" \o ToString(ev.phase)}
      [] OTHER -> {ev.e}
TInit == l = 1
TNext == /\ l <= Len(Log) /\ l' = l + 1
         /\ LET f == Check(Ev) IN IF f = {} THEN TRUE ELSE PrintT("REJECT " \o ToString(l) \o " " \o ToString(f))
=============================================================================
