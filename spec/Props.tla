------------------------------- MODULE Props -------------------------------
(***************************************************************************)
(* gdstk property lists (src/property.cpp) as an ordered multimap.         *)
(* A list is a sequence of entries, newest first; an entry is              *)
(*   [name |-> string, vals |-> sequence of typed values]                  *)
(* and a value is [t |-> "u"|"i"|"r"|"s", x |-> integer or string].        *)
(* A "GDSII property" is an entry named S_GDS_PROPERTY whose first value   *)
(* is an unsigned integer (the attribute) and whose second is a string     *)
(* (stored WITH its terminating NUL; strings are modelled as their text    *)
(* plus an explicit flag for the NUL).                                     *)
(***************************************************************************)
EXTENDS Naturals, Sequences, FiniteSets, TLC

CONSTANTS Names,     \* property names used by the generator (includes "S_GDS_PROPERTY")
          PVals,     \* typed values used by the generator
          Attrs,     \* GDSII attribute numbers
          GStrs,     \* GDSII value strings
          MaxLen

GdsName == "S_GDS_PROPERTY"

VARIABLES plist, res, hist
vars == <<plist, res, hist>>

Entry(n, vs) == [name |-> n, vals |-> vs]
UVal(a) == [t |-> "u", x |-> a, z |-> FALSE]
GStr(s) == [t |-> "s", x |-> s, z |-> TRUE]      \* string value with terminating NUL included

IsGds(e) == /\ e.name = GdsName /\ Len(e.vals) >= 2
            /\ e.vals[1].t = "u" /\ e.vals[2].t = "s"

FirstIdx(pl, P(_)) ==      \* index of the first entry satisfying P, or 0
    IF \E i \in 1..Len(pl) : P(pl[i])
    THEN CHOOSE i \in 1..Len(pl) : P(pl[i]) /\ \A j \in 1..(i - 1) : ~P(pl[j])
    ELSE 0

RemoveAt(pl, i) == SubSeq(pl, 1, i - 1) \o SubSeq(pl, i + 1, Len(pl))
SelectSeq2(pl, P(_)) == SelectSeq(pl, P)

\* ---- the API as operators on lists --------------------------------------
SetProperty(pl, n, v, create) ==
    LET i == FirstIdx(pl, LAMBDA e : e.name = n) IN
    IF ~create /\ i # 0
    THEN [pl EXCEPT ![i].vals = <<v>> \o @]
    ELSE <<Entry(n, <<v>>)>> \o pl

SetGdsProperty(pl, a, s) ==
    LET i == FirstIdx(pl, LAMBDA e : IsGds(e) /\ e.vals[1].x = a) IN
    IF i # 0 THEN [pl EXCEPT ![i].vals[2] = GStr(s)]
    ELSE <<Entry(GdsName, <<UVal(a), GStr(s)>>)>> \o pl

RemoveProperty(pl, n, all) ==
    IF all THEN SelectSeq(pl, LAMBDA e : e.name # n)
    ELSE LET i == FirstIdx(pl, LAMBDA e : e.name = n) IN
         IF i = 0 THEN pl ELSE RemoveAt(pl, i)
RemovedCount(pl, n, all) == Len(pl) - Len(RemoveProperty(pl, n, all))

RemoveGdsProperty(pl, a) ==
    LET i == FirstIdx(pl, LAMBDA e : IsGds(e) /\ e.vals[1].x = a) IN
    IF i = 0 THEN pl ELSE RemoveAt(pl, i)

NullV == <<[t |-> "null", x |-> 0, z |-> FALSE]>>
GetProperty(pl, n) ==
    LET i == FirstIdx(pl, LAMBDA e : e.name = n) IN
    IF i = 0 THEN NullV ELSE pl[i].vals
GetGdsProperty(pl, a) ==
    LET i == FirstIdx(pl, LAMBDA e : IsGds(e) /\ e.vals[1].x = a) IN
    IF i = 0 THEN NullV ELSE Tail(pl[i].vals)

-----------------------------------------------------------------------------
Init == plist = <<>> /\ res = "none" /\ hist = <<>>

H(op, n, v, f) == [op |-> op, n |-> n, v |-> v, f |-> f]

ASet(n, v, c) == /\ plist' = SetProperty(plist, n, v, c) /\ res' = "ok"
                 /\ hist' = Append(hist, H("set", n, v, c))
ASetGds(a, s) == /\ plist' = SetGdsProperty(plist, a, s) /\ res' = "ok"
                 /\ hist' = Append(hist, H("setgds", "", UVal(a), FALSE) @@ [s |-> s])
ARemove(n, all) == /\ plist' = RemoveProperty(plist, n, all)
                   /\ res' = RemovedCount(plist, n, all)
                   /\ hist' = Append(hist, H("remove", n, UVal(0), all))
ARemoveGds(a) == /\ plist' = RemoveGdsProperty(plist, a)
                 /\ res' = (Len(plist') # Len(plist))
                 /\ hist' = Append(hist, H("removegds", "", UVal(a), FALSE))
ACopy == /\ plist' = plist /\ res' = "ok" /\ hist' = Append(hist, H("copy", "", UVal(0), FALSE))
AClear == /\ plist' = <<>> /\ res' = "ok" /\ hist' = Append(hist, H("clear", "", UVal(0), FALSE))

Next == \/ \E n \in Names, v \in PVals, c \in BOOLEAN : ASet(n, v, c)
        \/ \E a \in Attrs, s \in GStrs : ASetGds(a, s)
        \/ \E n \in Names, all \in BOOLEAN : ARemove(n, all)
        \/ \E a \in Attrs : ARemoveGds(a)
        \/ ACopy \/ AClear

Spec == Init /\ [][Next]_vars
Bounded == Len(hist) <= MaxLen
view == plist

-----------------------------------------------------------------------------
(* Multimap theorems (MODEL leg): evaluated in every reachable state for    *)
(* every name / attribute of the universe.                                  *)
CountOf(pl, n) == Cardinality({i \in 1..Len(pl) : pl[i].name = n})

Laws ==
    /\ \A n \in Names :
          /\ CountOf(RemoveProperty(plist, n, TRUE), n) = 0
          /\ RemovedCount(plist, n, TRUE) = CountOf(plist, n)
          /\ RemovedCount(plist, n, FALSE) = IF CountOf(plist, n) > 0 THEN 1 ELSE 0
          \* removal keeps every other entry, in order
          /\ SelectSeq(RemoveProperty(plist, n, TRUE), LAMBDA e : e.name # n)
               = SelectSeq(plist, LAMBDA e : e.name # n)
          /\ SelectSeq(RemoveProperty(plist, n, FALSE), LAMBDA e : e.name # n)
               = SelectSeq(plist, LAMBDA e : e.name # n)
          /\ (GetProperty(plist, n) = NullV) <=> (CountOf(plist, n) = 0)
          /\ \A v \in PVals :
                /\ Head(GetProperty(SetProperty(plist, n, v, FALSE), n)) = v
                /\ GetProperty(SetProperty(plist, n, v, TRUE), n) = <<v>>
                /\ CountOf(SetProperty(plist, n, v, TRUE), n) = CountOf(plist, n) + 1
                /\ CountOf(SetProperty(plist, n, v, FALSE), n)
                     = IF CountOf(plist, n) = 0 THEN 1 ELSE CountOf(plist, n)
    /\ \A a \in Attrs :
          /\ GetGdsProperty(RemoveGdsProperty(plist, a), a) # NullV
               => Cardinality({i \in 1..Len(plist) :
                                 IsGds(plist[i]) /\ plist[i].vals[1].x = a}) >= 2
          /\ \A s \in GStrs :
                /\ GetGdsProperty(SetGdsProperty(plist, a, s), a)[1] = GStr(s)
                \* overwrite, never duplicate
                /\ Cardinality({i \in 1..Len(SetGdsProperty(plist, a, s)) :
                      IsGds(SetGdsProperty(plist, a, s)[i])
                      /\ SetGdsProperty(plist, a, s)[i].vals[1].x = a})
                   = LET c == Cardinality({i \in 1..Len(plist) :
                                  IsGds(plist[i]) /\ plist[i].vals[1].x = a})
                     IN IF c = 0 THEN 1 ELSE c
=============================================================================
