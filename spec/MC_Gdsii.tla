------------------------------ MODULE MC_Gdsii ------------------------------
(* Case enumeration and theorems for Gdsii.tla.  Each TLC state is one           *)
(* (layout, encoder choices) pair; invariants:                                    *)
(*   RoundTrip : Decode(Encode(L, ch)) = L   for every legal choice vector        *)
(*   Strict    : removing any mandatory record makes the strict decoder reject    *)
(*   Prefixes  : no proper prefix of a stream is accepted (C18's model leg)       *)
(* Every case is exported (layout + bytes) for gdstk's reader.                    *)
EXTENDS Gdsii, GdsConsts, Json, IOUtils
CONSTANTS Depth      \* "quick" | "thorough" : how much of the product is enumerated

VARIABLES case

S_TOP == <<84, 79, 80>>
S_A == <<65>>
S_CELL == <<67, 69, 76, 76>>
S_SUB == <<83, 85, 66, 95, 49>>
S_MISSING == <<78, 79, 80, 69>>
S_LIB == <<76, 73, 66>>
S_LIBX == <<109, 121, 108, 105, 98, 114, 97, 114, 121>>     \* odd length
T0 == <<2024, 2, 29, 23, 59, 58, 2024, 3, 1, 0, 0, 1>>
T1 == <<1999, 12, 31, 1, 2, 3, 2000, 1, 1, 4, 5, 6>>

P0 == <<>>
P1 == << <<1, <<97, 98>> >> >>
P2 == << <<2, <<120>> >>, <<7, <<104, 101, 108, 108, 111>> >> >>          \* odd lengths
P3 == << <<3, <<113>> >>, <<3, <<114, 115>> >> >>                           \* same attribute twice

Bnd(l, d, xy, p) == [kind |-> "boundary", layer |-> l, dtype |-> d, xy |-> xy, props |-> p]
BoxE(l, d, xy, p) == [kind |-> "box", layer |-> l, dtype |-> d, xy |-> xy, props |-> p]
PathE(l, d, pt, w, be, ee, xy, p) == [kind |-> "path", layer |-> l, dtype |-> d, ptype |-> pt,
                                      width |-> w, bext |-> be, eext |-> ee, xy |-> xy, props |-> p]
Sref(n, f, m, a, xy, p) == [kind |-> "sref", sname |-> n, refl |-> f, mag |-> m, angle |-> a,
                            xy |-> xy, props |-> p]
Aref(n, f, m, a, c, r, xy, p) == [kind |-> "aref", sname |-> n, refl |-> f, mag |-> m, angle |-> a,
                                  cols |-> c, rows |-> r, xy |-> xy, props |-> p]
TextE(l, d, pr, pt, w, f, m, a, xy, s, p) ==
    [kind |-> "text", layer |-> l, dtype |-> d, pres |-> pr, ptype |-> pt, width |-> w, refl |-> f,
     mag |-> m, angle |-> a, xy |-> xy, str |-> s, props |-> p]

Tri == << <<0, 0>>, <<100, 0>>, <<0, 70>>, <<0, 0>> >>
RectN == << <<-50, -20>>, <<30, -20>>, <<30, 45>>, <<-50, 45>>, <<-50, -20>> >>
Hexa == << <<0, 0>>, <<40, 0>>, <<60, 30>>, <<40, 60>>, <<0, 60>>, <<-20, 30>>, <<0, 0>> >>
Big == << <<2000000000, -2000000000>>, <<2000000000, 7>>, <<-5, 7>>, <<2000000000, -2000000000>> >>
Line2 == << <<0, 0>>, <<100, 0>> >>
Line3 == << <<0, 0>>, <<100, 0>>, <<100, 80>> >>
Line5 == << <<-10, -10>>, <<50, -10>>, <<50, 40>>, <<90, 40>>, <<90, 0>> >>

\* (the last one: layer / type words with the sign bit set, as gdstk writes for tags >= 32768; every
\*  reader has to extend them the same way)
Boundaries == {Bnd(1, 0, Tri, P0), Bnd(2, 5, RectN, P1), Bnd(32767, 32767, Hexa, P2),
               Bnd(0, 0, Big, P3), Bnd(-25536, -1, Tri, P1)}
Boxes == {BoxE(3, 1, RectN, P0), BoxE(4, 0, << <<0, 0>>, <<0, 9>>, <<9, 9>>, <<9, 0>>, <<0, 0>> >>, P1)}
Paths == {PathE(1, 0, 0, 10, 0, 0, Line2, P0), PathE(5, 2, 1, 0, 0, 0, Line3, P0),
          PathE(6, 1, 2, -20, 0, 0, Line5, P1), PathE(7, 0, 4, 6, 5, -3, Line3, P2),
          PathE(8, 3, 0, 0, 0, 0, Line2, P0), PathE(9, 0, 4, 8, 0, 0, Line5, P0),
          PathE(-1, -32768, 0, 4, 0, 0, Line2, P0)}
Srefs == {Sref(S_CELL, FALSE, M1, A0, << <<10, 20>> >>, P0),
          Sref(S_MISSING, TRUE, M2, A90, << <<-5, 7>> >>, P1),
          Sref(S_CELL, FALSE, Mhalf, A30p5, << <<0, 0>> >>, P0),
          Sref(S_CELL, TRUE, M1, A0, << <<1, 1>> >>, P2),
          Sref(S_CELL, FALSE, M1alt, Am90, << <<3, 4>> >>, P0)}
Arefs == {Aref(S_CELL, FALSE, M1, A0, 2, 3, << <<0, 0>>, <<200, 0>>, <<0, 360>> >>, P0),
          Aref(S_CELL, FALSE, M1, A90, 2, 3, << <<5, 5>>, <<5, 205>>, <<-355, 5>> >>, P1),
          Aref(S_CELL, TRUE, M2, A180, 3, 1, << <<0, 0>>, <<-300, 0>>, <<0, 50>> >>, P0),
          Aref(S_MISSING, FALSE, M1, A45, 2, 2, << <<0, 0>>, <<140, 140>>, <<-140, 140>> >>, P0),
          Aref(S_CELL, TRUE, M1, A0, 4, 2, << <<0, 0>>, <<400, 0>>, <<0, -60>> >>, P0)}
Texts == {TextE(10, 0, 0, 0, 0, FALSE, M1, A0, << <<1, 2>> >>, <<104, 105>>, P0),
          TextE(11, 3, 5, 0, 0, FALSE, M1, A0, << <<-3, 4>> >>, <<111, 100, 100>>, P1),
          TextE(12, 1, 26, 1, 4, TRUE, M1p5, A270, << <<0, 0>> >>, <<84>>, P0),
          TextE(13, 0, 10, 0, 0, FALSE, Mquarter, A45, << <<7, 7>> >>, <<115, 101>>, P2),
          TextE(-2, -3, 0, 0, 0, FALSE, M1, A0, << <<5, 5>> >>, <<110>>, P0)}
Palette == Boundaries \cup Boxes \cup Paths \cup Srefs \cup Arefs \cup Texts

Ch(ef, px, om, sp, h) == [elflags |-> ef, plex |-> px, omit |-> om, split |-> sp, hdr |-> h]
AllHdr == <<"reflibs", "fonts", "attrtable", "generations", "format">>
DefaultCh == Ch(FALSE, FALSE, TRUE, 0, <<>>)
ExplicitCh == Ch(FALSE, FALSE, FALSE, 0, <<>>)
AllCh == {Ch(ef, px, om, sp, h) : ef \in BOOLEAN, px \in BOOLEAN, om \in BOOLEAN,
                                   sp \in {0, 2}, h \in {<<>>, AllHdr, <<"generations">>}}

U(k) == UnitsPalette[k]
Lib(nm, k, cells) == [name |-> nm, user |-> U(k).user, meters |-> U(k).meters, time |-> T0,
                      cells |-> cells]
CellOf(nm, elems) == [name |-> nm, time |-> T1, elems |-> elems]
SubCell == CellOf(S_CELL, <<Bnd(1, 0, Tri, P0)>>)

Case(L, ch, u, tgt) == [lay |-> L, ch |-> ch, u |-> u, tgt |-> tgt]

\* F1: one element, every choice vector          F2: ordered pairs (state leaking between elements)
\* F3: several cells, every units entry, target units
F1 == {Case(Lib(S_LIB, 1, <<CellOf(S_TOP, <<e>>), SubCell>>), ch, 1, 0) : e \in Palette, ch \in AllCh}
F2 == {Case(Lib(S_LIBX, 1, <<SubCell, CellOf(S_A, <<e1, e2>>)>>), ch, 1, 0) :
          e1 \in Palette, e2 \in Palette, ch \in {DefaultCh, ExplicitCh}}
Mixed == <<Bnd(1, 0, Tri, P1), PathE(6, 1, 2, -20, 0, 0, Line5, P1),
           Sref(S_CELL, TRUE, M2, A90, << <<-5, 7>> >>, P1),
           Aref(S_SUB, FALSE, M1, A90, 2, 3, << <<5, 5>>, <<5, 205>>, <<-355, 5>> >>, P1),
           TextE(11, 3, 5, 0, 0, FALSE, M1, A0, << <<-3, 4>> >>, <<111, 100, 100>>, P1),
           BoxE(3, 1, RectN, P0), PathE(5, 2, 1, 0, 0, 0, Line3, P0)>>
F3 == {Case(Lib(S_LIB, k, <<CellOf(S_TOP, Mixed), SubCell, CellOf(S_SUB, <<>>),
                            CellOf(S_A, <<Sref(S_TOP, FALSE, M1, A0, << <<0, 0>> >>, P0)>>)>>),
            ch, k, t) : k \in DOMAIN UnitsPalette, t \in 0..Len(TargetUnits),
                        ch \in {DefaultCh, Ch(TRUE, TRUE, FALSE, 2, AllHdr)}}
       \cup {Case(Lib(S_A, 1, <<>>), DefaultCh, 1, 0)}      \* empty library

Cases == IF Depth = "thorough" THEN F1 \cup F2 \cup F3
         ELSE {c \in F1 : c.ch \in {DefaultCh, ExplicitCh, Ch(TRUE, TRUE, TRUE, 2, AllHdr),
                                     Ch(TRUE, FALSE, FALSE, 2, <<"generations">>)}}
              \cup F2 \cup F3

Init == case \in Cases
InitThm == case = Case(Lib(S_A, 1, <<>>), DefaultCh, 1, 0)
Next == UNCHANGED case

Bytes == Encode(case.lay, case.ch)
RoundTrip == LET d == Decode(Bytes) IN d.ok /\ d.lib = case.lay /\ d.tailok

\* ---- strictness: run on the F3 cases and the default-choice F1 cases only (cost) -------
Mandatory == {HEADER, BGNLIB, LIBNAME, UNITS, ENDLIB, BGNSTR, STRNAME, ENDSTR, BOUNDARY, PATH,
              SREF, AREF, TEXT, BOX, LAYER, DATATYPE, TEXTTYPE, BOXTYPE, XY, ENDEL, SNAME, COLROW,
              STRINGREC, PROPATTR, PROPVALUE, STRANS}
Without(b, r) == SubSeq(b, 1, r.p - 5) \o SubSeq(b, r.p + r.n, Len(b))
StrictOn == case.ch = DefaultCh /\ Len(case.lay.cells) <= 2
Strict ==
    StrictOn =>
      LET b == Bytes
          recs == Frame(b, 1, <<>>).recs
      IN  \A i \in DOMAIN recs :
             recs[i].t \in Mandatory =>
               LET d == Decode(Without(b, recs[i])) IN
               \* removing a mandatory record is rejected -- or, for a record that may legally
               \* repeat (a second XY, a PROPATTR/PROPVALUE pair is two records), changes the layout
               ~d.ok \/ d.lib # case.lay
\* no proper prefix of a stream is accepted as a library
Prefixes ==
    StrictOn => LET b == Bytes IN \A k \in 0..(Len(b) - 1) : ~Decode(SubSeq(b, 1, k)).ok

\* the palette's 8-byte reals denote the values their names claim
RealsDenote ==
    /\ Mag1024(M1) = 1024 /\ Mag1024(M2) = 2048 /\ Mag1024(Mhalf) = 512 /\ Mag1024(M1p5) = 1536
    /\ Mag1024(Mquarter) = 256 /\ Mag1024(M1alt) = 1024
    /\ Ang64(A0) = 0 /\ Ang64(A90) = 90 * 64 /\ Ang64(A180) = 180 * 64 /\ Ang64(A270) = 270 * 64
    /\ Ang64(A45) = 45 * 64 /\ Ang64(Am90) = -90 * 64 /\ Ang64(A30p5) = 61 * 32
    /\ \A k \in DOMAIN UnitsPalette :
          /\ GdsWithinUlps(U(k).meters, BytesToBits(U(k).prec), 1)
          /\ GdsNormalized(U(k).meters) /\ GdsNormalized(U(k).user)

AppendOpts == [format |-> "TXT", charset |-> "UTF-8",
               openOptions |-> <<"WRITE", "CREATE", "APPEND">>]
Export == Serialize(ToJson([lay |-> case.lay, ch |-> case.ch, u |-> case.u, tgt |-> case.tgt,
                            bytes |-> Bytes]) \o "\n",
                    IOEnv.GEN_OUT, AppendOpts).exitValue = 0
=============================================================================
