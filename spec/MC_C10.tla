------------------------------- MODULE MC_C10 -------------------------------
(* Element kinds x repetition x sequences of 1..3 transforms from a lattice palette *)
(* whose common denominator keeps every outline vertex on the quantum grid           *)
(* (Q = 1000 quanta per user unit; outline coordinates are multiples of 50).          *)
EXTENDS Hierarchy, Json, IOUtils
CONSTANTS Depth
VARIABLES case

U(x, y) == <<1000 * x, 1000 * y>>        \* user integers -> quanta
Tr(v) == [op |-> "translate", v |-> v]
Sc(s, c) == [op |-> "scale", s |-> s, c |-> c]
Mi(p0, p1) == [op |-> "mirror", p0 |-> p0, p1 |-> p1]
Ro(r, c) == [op |-> "rotate", rot |-> r, c |-> c]
Xf(m, f, r, o) == [op |-> "transform", mag |-> m, refl |-> f, rot |-> r, o |-> o]

PathOps == {Tr(U(3, -2)), Sc(Mag(2, 1), U(1, 1)), Sc(Mag(1, 2), U(0, 0)), Sc(Mag(-1, 1), U(2, 0)),
            Mi(U(0, 0), U(1, 0)), Mi(U(2, 0), U(2, 1)), Mi(U(0, 0), U(1, 1)), Mi(U(0, 0), U(3, 4)),
            Ro(Rot90, U(1, 0)), Ro(Rot345, U(0, 0)), Ro(Rot180, U(1, 1)),
            Xf(Mag(2, 1), TRUE, Rot90, U(1, -1)), Xf(Mag(1, 2), FALSE, Rot345, U(0, 0)),
            Xf(Mag(-1, 1), FALSE, Rot0, U(0, 0)), Xf(Mag(1, 1), TRUE, Rot0, U(0, 0)),
            Xf(Mag(1, 1), FALSE, Rot270, U(2, 2)),
            \* reflection together with a magnification and no / half-turn rotation
            Xf(Mag(2, 1), TRUE, Rot0, U(0, 1)), Xf(Mag(1, 2), TRUE, Rot180, U(1, 0))}
PlaceOps == {o \in PathOps : o.op = "transform"} \cup {Xf(Mag(1, 1), TRUE, Rot345n, U(-1, 2))}

Budget(ops) == 50 % DenOf(ops, Len(ops)) = 0
Seqs(S, maxlen) == {s \in UNION {[1..k -> S] : k \in 1..maxlen} : Budget(s)}
Kinds == {"polygon", "flexpath", "flexpath_nosw", "robustpath", "robustpath_nosw"}
PKinds == {"label", "reference"}
Reps == {NoRep, Rect(2, 2, U(3, 2)), Explicit(<<U(1, 0), U(-1, 2)>>)}
MaxLenQ == IF Depth = "thorough" THEN 3 ELSE 2
\* quick: all sequences of length <= 2; thorough: <= 3 (sampled by the runner)
Init == \/ \E k \in Kinds, r \in Reps, ops \in Seqs(PathOps, MaxLenQ) :
              case = [k |-> "xform", kind |-> k, rep |-> r, ops |-> ops]
        \/ \E k \in PKinds, r \in Reps, ops \in Seqs(PlaceOps, MaxLenQ + 1) :
              case = [k |-> "xform", kind |-> k, rep |-> r, ops |-> ops]
Next == UNCHANGED case

\* theorems: composition is associative on the palette and reflections are involutions
Laws == LET ops == case.ops
            m == TotalMap(ops)
        IN  /\ (Len(ops) >= 2 =>
                 SameMap(m, Compose(OpMap(ops[Len(ops)]), TotalMap(SubSeq(ops, 1, Len(ops) - 1)))))
            /\ \A i \in DOMAIN ops : ops[i].op = "mirror" =>
                  SameMap(Compose(OpMap(ops[i]), OpMap(ops[i])), Identity)
            \* the determinant's sign tells whether the sequence reflects
            /\ Det(m) # 0

AppendOpts == [format |-> "TXT", charset |-> "UTF-8",
               openOptions |-> <<"WRITE", "CREATE", "APPEND">>]
Export == Serialize(ToJson(case) \o "\n", IOEnv.GEN_OUT, AppendOpts).exitValue = 0
=============================================================================
