------------------------------- MODULE MC_C08 -------------------------------
(* RobustPath cases: section histories x interpolations (exact bookkeeping and      *)
(* queries), sections appended after a transform and command strings (continuity),  *)
(* and measured outline clearance.                                                   *)
EXTENDS Paths, Json, IOUtils
CONSTANTS Depth
VARIABLES case

Seg(p, r) == [k |-> "segment", p |-> p, rel |-> r]
Secs == {Seg(<<5, 0>>, FALSE), Seg(<<2, 3>>, TRUE),
         [k |-> "horizontal", x |-> 7, rel |-> FALSE], [k |-> "vertical", y |-> -2, rel |-> TRUE],
         [k |-> "cubic", c1 |-> <<2, 0>>, c2 |-> <<4, 1>>, e |-> <<6, 3>>, rel |-> TRUE],
         [k |-> "cubic_smooth", c2 |-> <<4, 2>>, e |-> <<6, 0>>, rel |-> TRUE],
         [k |-> "quadratic", c |-> <<3, 3>>, e |-> <<6, 0>>, rel |-> TRUE],
         [k |-> "quadratic_smooth", e |-> <<3, -1>>, rel |-> TRUE],
         [k |-> "bezier", pts |-> << <<1, 0>>, <<2, 1>>, <<3, 3>>, <<4, 6>> >>, rel |-> TRUE],
         [k |-> "arc", rx |-> 4, ry |-> 4, a0 |-> 0, a1 |-> 90, rot |-> 0],
         [k |-> "arc", rx |-> 6, ry |-> 2, a0 |-> 90, a1 |-> -90, rot |-> 0],
         [k |-> "arc", rx |-> 6, ry |-> 2, a0 |-> 10, a1 |-> 100, rot |-> 20],      \* rotated axes
         [k |-> "turn", r |-> 3, a |-> -90],
         [k |-> "parametric", f |-> "wave", rel |-> TRUE],
         [k |-> "interpolation", pts |-> << <<2, 2>>, <<5, 1>> >>, rel |-> TRUE]}
Ip(t, a, b) == [t |-> t, a |-> a, b |-> b]
Ips == {Ip("none", 0, 0), Ip("constant", 400, 0), Ip("linear", 200, 800), Ip("smooth", 600, 100)}
Call(s, w, o) == [sec |-> s, w |-> w, o |-> o]
Calls == {Call(s, w, o) : s \in Secs, w \in Ips, o \in {Ip("none", 0, 0), Ip("linear", -300, 500), Ip("constant", 250, 0)}}
Books == {[k |-> "rpbook", nel |-> n, calls |-> <<c>>] : n \in {1, 2}, c \in Calls}
         \* thorough: every ordered pair of calls
         \cup (IF Depth = "thorough" THEN {[k |-> "rpbook", nel |-> 2, calls |-> <<c1, c2>>] : c1 \in Calls, c2 \in Calls} ELSE {})
         \cup {[k |-> "rpbook", nel |-> 2, calls |-> <<c1, c2>>] :
                 c1 \in {c \in Calls : c.w.t = "linear" /\ c.o.t = "none"},
                 c2 \in {c \in Calls : c.w.t \in {"none", "smooth"} /\ c.o.t = "linear"}}
\* smooth continuations and parametric sections appended AFTER the path was transformed
Xf == {[op |-> "rotate", deg |-> 90], [op |-> "translate", v |-> <<3, 4>>], [op |-> "scale", s |-> 2],
       [op |-> "mirror", p0 |-> <<0, 0>>, p1 |-> <<1, 1>>], [op |-> "none"]}
After == {[k |-> "rpxform", first |-> f, xf |-> x, second |-> s] :
            f \in {Seg(<<5, 0>>, FALSE), [k |-> "cubic", c1 |-> <<2, 0>>, c2 |-> <<4, 1>>, e |-> <<6, 3>>, rel |-> TRUE],
                   [k |-> "arc", rx |-> 4, ry |-> 4, a0 |-> 0, a1 |-> 90, rot |-> 0]},
            x \in Xf,
            s \in {[k |-> "cubic_smooth", c2 |-> <<4, 2>>, e |-> <<6, 0>>, rel |-> TRUE],
                   [k |-> "quadratic_smooth", e |-> <<3, -1>>, rel |-> TRUE], [k |-> "turn", r |-> 3, a |-> -90],
                   [k |-> "parametric", f |-> "wave", rel |-> TRUE], Seg(<<2, 3>>, TRUE)}}
Cmds == {[k |-> "rpcmd", s |-> "l 2 0 C 1 1 2 1 3 5", endx |-> 3, endy |-> 5],
         [k |-> "rpcmd", s |-> "c 1 1 2 1 3 -2", endx |-> 3, endy |-> -2],
         [k |-> "rpcmd", s |-> "L 4 0 q 1 1 2 0 t 2 1", endx |-> 8, endy |-> 1],
         [k |-> "rpcmd", s |-> "h 3 v 2 S 5 5 7 3", endx |-> 7, endy |-> 3],
         [k |-> "rpcmd", s |-> "l 4 0 A 2 -90 0", endx |-> 6, endy |-> 2]}
\* outline clearance: constant widths, flush / round ends, 1-2 sections
\* (rot = 1: the finished path is rotated by atan(3/4) before its outline is taken)
\* (mag: magnified about the origin before the outline is taken; scale_width makes widths follow)
Regions == {[k |-> "rpregion", secs |-> ss, w |-> w, o |-> o, ends |-> e, tolk |-> t, rot |-> ro, mag |-> 1] :
              ss \in {<<Seg(<<8, 0>>, FALSE)>>, <<Seg(<<6, 0>>, FALSE), [k |-> "arc", rx |-> 4, ry |-> 4, a0 |-> -90, a1 |-> 0, rot |-> 0]>>,
                      <<[k |-> "cubic", c1 |-> <<3, 0>>, c2 |-> <<6, 2>>, e |-> <<8, 5>>, rel |-> TRUE]>>,
                      <<Seg(<<5, 0>>, FALSE), [k |-> "cubic_smooth", c2 |-> <<4, 3>>, e |-> <<6, 5>>, rel |-> TRUE]>>},
              w \in (IF Depth = "thorough" THEN {1000, 500, 250, 1600} ELSE {1000, 500}),
              o \in (IF Depth = "thorough" THEN {0, 750, -750, 300, -1500} ELSE {0, 750, -750}),
              e \in (IF Depth = "thorough" THEN {"flush", "round", "halfwidth"} ELSE {"flush", "round"}),
              t \in (IF Depth = "thorough" THEN {1, 2, 3} ELSE {2, 3}), ro \in {0, 1}}
RegionsMag == {[k |-> "rpregion", secs |-> ss, w |-> w, o |-> o, ends |-> e, tolk |-> 2, rot |-> ro, mag |-> 2] :
                 ss \in {<<Seg(<<8, 0>>, FALSE)>>, <<Seg(<<5, 0>>, FALSE), [k |-> "cubic_smooth", c2 |-> <<4, 3>>, e |-> <<6, 5>>, rel |-> TRUE]>>},
                 w \in {1000}, o \in {0, 750}, e \in {"flush", "round", "halfwidth"}, ro \in {0, 1}}
              \cup {[k |-> "rpregion", secs |-> <<Seg(<<8, 0>>, FALSE)>>, w |-> 1000, o |-> o, ends |-> "halfwidth", tolk |-> 2, rot |-> 0, mag |-> 1] : o \in {0, -750}}
\* a single section whose offset runs linearly from o to o1: the centre curve leaves the spine's direction
\* (a straight spine gives a slanted straight centre line), so caps and ends follow the centre curve's
\* tangent, not the spine's
RegionsRamp == {[k |-> "rpregion", secs |-> ss, w |-> w, o |-> o[1], o1 |-> o[2], ends |-> e, tolk |-> t, rot |-> ro, mag |-> 1] :
                  ss \in {<<Seg(<<8, 0>>, FALSE)>>, <<[k |-> "cubic", c1 |-> <<3, 0>>, c2 |-> <<6, 2>>, e |-> <<8, 5>>, rel |-> TRUE]>>},
                  w \in {1000, 500}, o \in {<<0, 3000>>, <<750, -1500>>, <<-2000, 0>>}, e \in {"round", "flush"},
                  t \in (IF Depth = "thorough" THEN {2, 3} ELSE {2}), ro \in {0, 1}}
\* polyline paths (sharp corners, sides meeting in mitres): a short section between two bends of the
\* same direction followed by more sections, a zigzag, and a hairpin wider than its middle section
PolySpines == { << <<10, 0>>, <<10, 1>>, <<4, 9>>, <<-6, 9>> >>, << <<6, 0>>, <<6, 6>>, <<12, 6>>, <<12, 0>> >>,
                << <<8, 0>>, <<8, 3>>, <<0, 3>>, <<0, 8>>, <<9, 8>> >>, << <<7, 0>>, <<9, 5>>, <<2, 7>> >> }
RegionsPoly == {[k |-> "rpregion", secs |-> [i \in DOMAIN sp |-> Seg(sp[i], FALSE)], w |-> w, o |-> 0, ends |-> "flush",
                 tolk |-> 2, rot |-> ro, mag |-> 1, poly |-> TRUE] : sp \in PolySpines, w \in {2000, 1000}, ro \in {0, 1}}
\* centre lines of simple paths: a tangent-continuous chain of 2-4 sections, each with its own linear
\* offset interpolation, continuous from section to section (a kink or a jump has no exact centre curve)
CSecs == << Seg(<<6, 0>>, TRUE), [k |-> "cubic_smooth", c2 |-> <<4, 3>>, e |-> <<6, 5>>, rel |-> TRUE],
            [k |-> "cubic_smooth", c2 |-> <<3, -1>>, e |-> <<6, 0>>, rel |-> TRUE], Seg(<<3, 1>>, TRUE) >>
COffs == { << <<0, 0>>, <<0, 750>>, <<750, 750>>, <<750, -300>> >>,
           << <<500, 500>>, <<500, 500>>, <<500, -250>>, <<-250, -250>> >>,
           << <<0, 600>>, <<600, 0>>, <<0, 0>>, <<0, -400>> >> }
Centers == {[k |-> "rpcenter", secs |-> SubSeq(CSecs, 1, n), offs |-> SubSeq(os, 1, n), w |-> 1000, tolk |-> t]
              : n \in 2..4, os \in COffs, t \in {2, 3}}
Init == case \in Books \cup After \cup Cmds \cup Regions \cup RegionsMag \cup RegionsRamp \cup RegionsPoly \cup Centers
Next == UNCHANGED case
AppendOpts == [format |-> "TXT", charset |-> "UTF-8",
               openOptions |-> <<"WRITE", "CREATE", "APPEND">>]
Export == Serialize(ToJson(case) \o "\n", IOEnv.GEN_OUT, AppendOpts).exitValue = 0
=============================================================================
