----------------------------- MODULE Containers -----------------------------
(***************************************************************************)
(* gdstk's four open-addressed hash tables (Map<T>, Set<T>, TagMap,        *)
(* StyleMap: include/gdstk/map.hpp, set.hpp, tagmap.hpp, src/style.cpp)    *)
(* share one design; this module models it at the level of the slot array  *)
(* and proves (by TLC, in a small scope) that it refines an abstract map.  *)
(*                                                                         *)
(*   capacity 0 -> 8 -> x2 when count*10 >= capacity*5 (checked BEFORE     *)
(*   the insertion), home slot Home(k, capacity) (= hash(k) % capacity in  *)
(*   the code; the harness MEASURES this function from gdstk::hash and     *)
(*   the check instantiates the constant with it), linear probing with     *)
(*   wrap-around, deletion = empty the slot then take out and re-insert    *)
(*   every following entry of the cluster.                                 *)
(*                                                                         *)
(* "Empty" is kind specific: NULL key (map), !valid (set), NULL value      *)
(* (style map) -- all modelled as key = NoKey -- and key = value for the   *)
(* tag map, where set(k,k) means delete, get of a missing key returns the  *)
(* key, and a deleted slot keeps a stale key = value pair.                 *)
(***************************************************************************)
EXTENDS Naturals, Sequences, FiniteSets, TLC

CONSTANTS Keys,        \* key universe (naturals; 0 is allowed only for the tag map)
          Vals,        \* value universe (naturals >= 1; for the tag map: tags)
          Home(_, _),  \* Home(k, cap) \in 0..cap-1
          KindC,       \* "map" | "set" | "tagmap" | "stylemap"
          MaxCap,      \* growth bound for the model (8, 16, 32, ...)
          MaxLen       \* history bound for generation

NoKey == 0
InitCap == 8

VARIABLES cap,    \* allocated capacity (0 before the first insertion / after clear)
          slots,  \* [0..cap-1 -> [k, v]]
          count,  \* the table's own counter
          abs,    \* ghost: the abstract map the table must denote
          res,    \* result of the last call (what the API returned)
          hist    \* generation only: the operations so far (hidden by VIEW)

vars == <<cap, slots, count, abs, res, hist>>
view == <<cap, slots, count, abs>>

IsTag == KindC = "tagmap"
IsEmpty(s) == IF IsTag THEN s.k = s.v ELSE s.k = NoKey
ZeroSlot == [k |-> 0, v |-> 0]

EmptyTable(c) == [i \in 0..(c - 1) |-> ZeroSlot]

\* ---- probing: first slot, cyclically from the home, that is empty or holds k
ProbeDist(sl, c, k) ==
    LET h == Home(k, c)
        Stops(d) == LET s == sl[(h + d) % c] IN IsEmpty(s) \/ s.k = k
    IN  CHOOSE d \in 0..(c - 1) : Stops(d) /\ \A e \in 0..(d - 1) : ~Stops(e)
Probe(sl, c, k) == (Home(k, c) + ProbeDist(sl, c, k)) % c
ProbeTerminates(sl, c, k) ==
    \E d \in 0..(c - 1) : LET s == sl[(Home(k, c) + d) % c] IN IsEmpty(s) \/ s.k = k

\* number of live entries in a slot array
Live(sl, c) == {i \in 0..(c - 1) : ~IsEmpty(sl[i])}

\* ---- raw insertion (no growth check), as the body of set()/add() after resize
RawSet(sl, c, k, v) == [sl EXCEPT ![Probe(sl, c, k)] = [k |-> k, v |-> v]]

\* ---- resize(): re-insert live slots in slot order into a fresh table
RECURSIVE Rehash(_, _, _, _, _)
Rehash(old, oc, i, new, nc) ==
    IF i = oc THEN new
    ELSE IF IsEmpty(old[i]) THEN Rehash(old, oc, i + 1, new, nc)
    ELSE Rehash(old, oc, i + 1, RawSet(new, nc, old[i].k, old[i].v), nc)

NeedGrow(cnt, c) == cnt * 10 >= c * 5
NewCap(c) == IF c >= InitCap THEN c * 2 ELSE InitCap

\* ---- del(): empty the slot, then re-insert the rest of the cluster
MarkEmpty(s) == IF IsTag THEN [k |-> s.v, v |-> s.v] ELSE [k |-> NoKey, v |-> s.v]
RECURSIVE BackShift(_, _, _, _)
BackShift(sl, c, j, fuel) ==
    IF fuel = 0 \/ IsEmpty(sl[j]) THEN sl
    ELSE LET e == sl[j]
             taken == [sl EXCEPT ![j] = MarkEmpty(e)]
             put == [taken EXCEPT ![Probe(taken, c, e.k)] = [k |-> e.k, v |-> e.v]]
         IN  BackShift(put, c, (j + 1) % c, fuel - 1)

DelSlots(sl, c, k) ==
    LET i == Probe(sl, c, k)
        emptied == [sl EXCEPT ![i] = IF IsTag THEN ZeroSlot ELSE MarkEmpty(sl[i])]
    IN  BackShift(emptied, c, (i + 1) % c, c)

\* ---- what the table denotes
AbsOf(sl, c) ==
    LET ks == {sl[i].k : i \in Live(sl, c)}
    IN  [k \in ks |-> sl[CHOOSE i \in Live(sl, c) : sl[i].k = k].v]

Missing(k) == IF IsTag THEN k ELSE 0   \* what get() returns for an absent key
Lookup(m, k) == IF k \in DOMAIN m THEN m[k] ELSE Missing(k)

-----------------------------------------------------------------------------
Init == /\ cap = 0 /\ slots = <<>> /\ count = 0
        /\ abs = [k \in {} |-> 0] /\ res = "none" /\ hist = <<>>

Rec(op, k, v) == [op |-> op, k |-> k, v |-> v]

DoDel(k) ==
    IF count = 0 \/ IsEmpty(slots[Probe(slots, cap, k)])
    THEN /\ UNCHANGED <<cap, slots, count, abs>> /\ res' = FALSE
    ELSE /\ slots' = DelSlots(slots, cap, k)
         /\ count' = count - 1
         /\ abs' = [x \in DOMAIN abs \ {k} |-> abs[x]]
         /\ res' = TRUE
         /\ UNCHANGED cap

SetOp(k, v) ==
    /\ hist' = Append(hist, Rec("set", k, v))
    /\ IF IsTag /\ k = v
       THEN DoDel(k)                       \* tag map: set(k,k) == del(k)
       ELSE LET grow == NeedGrow(count, cap)
                c2 == IF grow THEN NewCap(cap) ELSE cap
                base == IF grow THEN Rehash(slots, cap, 0, EmptyTable(c2), c2) ELSE slots
                i == Probe(base, c2, k)
                fresh == IsEmpty(base[i])
            IN  /\ c2 <= MaxCap
                /\ cap' = c2
                /\ slots' = [base EXCEPT ![i] = [k |-> k, v |-> v]]
                /\ count' = IF fresh THEN count + 1 ELSE count
                /\ abs' = [x \in DOMAIN abs \cup {k} |-> IF x = k THEN v ELSE abs[x]]
                /\ res' = "ok"

DelOp(k) == /\ hist' = Append(hist, Rec("del", k, 0)) /\ DoDel(k)

GetOp(k) ==
    /\ hist' = Append(hist, Rec("get", k, 0))
    /\ res' = IF count = 0 THEN Missing(k)
              ELSE LET s == slots[Probe(slots, cap, k)] IN
                   IF IsEmpty(s) THEN Missing(k) ELSE s.v
    /\ UNCHANGED <<cap, slots, count, abs>>

ClearOp ==
    /\ hist' = Append(hist, Rec("clear", 0, 0))
    /\ cap' = 0 /\ slots' = <<>> /\ count' = 0 /\ abs' = [k \in {} |-> 0] /\ res' = "ok"

\* copy_from: a fresh table of the SAME capacity, filled in iteration (slot) order; the copy
\* replaces the table under test (the harness then keeps operating on the copy).
CopyOp ==
    /\ hist' = Append(hist, Rec("copy", 0, 0))
    /\ cap' = cap
    /\ slots' = IF cap = 0 THEN <<>> ELSE Rehash(slots, cap, 0, EmptyTable(cap), cap)
    /\ count' = Cardinality(Live(slots, cap))
    /\ abs' = abs /\ res' = "ok"

Next == \/ \E k \in Keys, v \in Vals : SetOp(k, v)
        \/ \E k \in Keys : DelOp(k)
        \/ \E k \in Keys : GetOp(k)
        \/ ClearOp
        \/ CopyOp

Spec == Init /\ [][Next]_vars

Bounded == Len(hist) <= MaxLen

-----------------------------------------------------------------------------
(* Theorems checked by TLC (MODEL leg).                                     *)

TypeOK == /\ cap \in {0} \cup {InitCap * m : m \in {1, 2, 4, 8, 16}}
          /\ count \in 0..cap
          /\ DOMAIN slots = 0..(cap - 1)

\* refinement: the slot array denotes exactly the abstract map
Refines == AbsOf(slots, cap) = abs
CountOK == count = Cardinality(DOMAIN abs) /\ count = Cardinality(Live(slots, cap))
NoDuplicateKey == \A i, j \in Live(slots, cap) : slots[i].k = slots[j].k => i = j
\* the termination assumption of get_slot: there is always an empty slot
HasEmpty == cap > 0 => count < cap
\* probe-chain invariant: no empty slot between a key's home and its slot (cyclically),
\* i.e. probing for a stored key finds it
ProbeChain == \A i \in Live(slots, cap) : Probe(slots, cap, slots[i].k) = i
\* get agrees with the abstract map for every key of the universe
GetOK == \A k \in Keys :
            (IF count = 0 THEN Missing(k)
             ELSE LET s == slots[Probe(slots, cap, k)] IN IF IsEmpty(s) THEN Missing(k) ELSE s.v)
            = Lookup(abs, k)
\* the tag map never stores an identity pair as live
TagNoIdentity == IsTag => \A k \in DOMAIN abs : abs[k] # k
\* load factor stays at or below 1/2 + one entry
LoadOK == cap > 0 => (count - 1) * 10 < cap * 5

=============================================================================
