------------------------------ MODULE MC_Codec ------------------------------
(* Case enumeration for the number codecs: each TLC state is one case.          *)
(*  "dec" cases carry a byte string built by the specification's encoders (every *)
(*  legal form); the invariant DecOK is the specification's own round-trip       *)
(*  theorem Dec(f) = v for f in Forms(v).  "enc"/"gds" cases carry a value for   *)
(*  gdstk's writers.  All cases are exported for the harness.                    *)
EXTENDS Codec, C19Consts, Json, IOUtils
CONSTANTS SmallMax,      \* all magnitudes 0..SmallMax are enumerated exhaustively
          KStep          \* boundary family uses exponents k = 0, KStep, 2 KStep, .. plus 7n-1..7n+1

VARIABLES case

Ones(k) == [i \in 1..k |-> 1]
Ks(maxk) == {k \in 0..maxk : k % KStep = 0 \/ k % 7 \in {0, 1, 6} \/ k >= maxk - 2}
Family(maxk) == UNION {{Trim(Ones(k)), Pow2(k), IF k >= 1 THEN <<1>> \o Zeros(k - 1) \o <<1>> ELSE <<>>}
                        : k \in Ks(maxk)}
                \cup {FromInt(n) : n \in 0..SmallMax}
SmallFamily == {FromInt(n) : n \in {0, 1, 2, 3, 63, 64, 127, 128, 8191, 8192}}
               \cup {Pow2(k) : k \in {20, 31, 32, 55, 56, 61, 62}} \cup {Ones(62), Ones(63)}

MaxB(bits) == LET m == MinGroups(bits) IN IF m > 10 THEN m ELSE 10
SomeForms(bits) == LET m == MinGroups(bits) IN
                   \* non-minimal forms only within the 10 bytes a 64-bit word can need
                   {GroupsToBytes(bits, n) : n \in {m, IF m + 1 <= 10 THEN m + 1 ELSE m, MaxB(bits)}}
U64(b) == BitsToBytes(b, 8)
SJ(s) == [neg |-> s.neg, mag |-> U64(s.mag)]

Dec(kind, bytes) == [k |-> "dec", kind |-> kind, bytes |-> bytes]

UnsignedCases == {Dec("uint", f) : f \in UNION {SomeForms(v) : v \in Family(66)}}
SignedCases == {Dec("int", f) : f \in UNION {SomeForms(<<s>> \o v) : v \in Family(64), s \in {0, 1}}}
D2Cases == {Dec("d2", f) : f \in UNION {SomeForms(FixBits(d, 2) \o v) : v \in SmallFamily, d \in 0..3}}
D3Cases == {Dec("d3", f) : f \in UNION {SomeForms(FixBits(d, 3) \o v) : v \in SmallFamily, d \in 0..7}}
G0Cases == {Dec("dg", f) : f \in UNION {SomeForms(<<0>> \o FixBits(d, 3) \o v) : v \in SmallFamily, d \in 0..7}}
G1Cases == {Dec("dg", fx \o fy) :
              fx \in UNION {SomeForms(<<1, sx>> \o vx)
                            : vx \in SmallFamily, sx \in {0, 1}},
              fy \in UNION {{EncBits(<<sy>> \o vy)} : vy \in {<<>>, <<1>>, FromInt(100), Pow2(40), Ones(63)}, sy \in {0, 1}}}
F64 == {x \in Family(64) : BitLen(x) <= 64}
RealIntCases == {Dec("real", <<t>> \o EncBits(v)) : t \in {0, 1}, v \in F64}
RealRecCases == {Dec("real", <<t>> \o EncBits(v)) : t \in {2, 3}, v \in F64 \ {<<>>}}
RatioNums == {FromInt(n) : n \in {0, 1, 2, 3, 7, 10, 22, 355}} \cup {Pow2(52), Ones(53), Ones(30)}
RatioDens == {FromInt(n) : n \in {1, 3, 7, 10, 113, 1000}} \cup {Pow2(40), Ones(53), FromInt(3) \o Zeros(20) \o <<1>>}
RealRatioCases == {Dec("real", <<t>> \o EncBits(a) \o EncBits(b)) : t \in {4, 5}, a \in RatioNums, b \in RatioDens}
RealIeeeCases == {Dec("real", <<7>> \o d) : d \in DoubleBytes} \cup {Dec("real", <<6>> \o s) : s \in SingleBytes}

\* point lists for the reader: every type, open and closed
PL(t, closed, body, n) == [k |-> "dec", kind |-> "plist", closed |-> closed,
                           bytes |-> <<t>> \o EncBits(FromInt(n)) \o body]
RECURSIVE Cat(_)
Cat(ss) == IF Len(ss) = 0 THEN <<>> ELSE Head(ss) \o Cat(Tail(ss))
OneDs(ns) == Cat([i \in DOMAIN ns |-> EncSigned(SOfInt(ns[i]))])
TwoDs(ps) == Cat([i \in DOMAIN ps |-> Enc2Delta(DOfInts(ps[i][1], ps[i][2]))])
ThreeDs(ps) == Cat([i \in DOMAIN ps |-> Enc3Delta(DOfInts(ps[i][1], ps[i][2]))])
GDs(ps) == Cat([i \in DOMAIN ps |-> CHOOSE f \in FormsGDelta(DOfInts(ps[i][1], ps[i][2])) : TRUE])
GDs1(ps) == Cat([i \in DOMAIN ps |-> EncGDelta1(DOfInts(ps[i][1], ps[i][2]))])
OneLists == {<<10, 5>>, <<10, 5, -4>>, <<-3, 7, 3, -2>>, <<100, -200, 50, 70, -30>>, <<0, 5>>, <<5>>}
ManhLists == {<< <<10, 0>>, <<0, 5>>, <<-10, 0>> >>, << <<0, 3>>, <<0, 4>>, <<5, 0>> >>,
              << <<-7, 0>>, <<0, -7>>, <<7, 0>>, <<0, 0>> >>}
OctLists == {<< <<10, 0>>, <<5, 5>>, <<0, 7>>, <<-5, 5>>, <<-4, -4>> >>, << <<3, -3>>, <<0, 9>>, <<-6, 0>> >>}
GenLists == {<< <<10, 3>>, <<-5, 8>>, <<0, -7>>, <<4, 4>> >>, << <<1, 2>>, <<3, -5>>, <<-1000, 777>> >>}
PListCases ==
    {PL(t, c, OneDs(l), Len(l)) : t \in {0, 1}, c \in BOOLEAN, l \in OneLists}
    \cup {PL(2, c, TwoDs(l), Len(l)) : c \in BOOLEAN, l \in ManhLists}
    \cup {PL(3, c, ThreeDs(l), Len(l)) : c \in BOOLEAN, l \in OctLists \cup ManhLists}
    \cup {PL(4, c, GDs(l), Len(l)) : c \in BOOLEAN, l \in GenLists \cup OctLists}
    \cup {PL(4, c, GDs1(l), Len(l)) : c \in BOOLEAN, l \in GenLists \cup ManhLists}
    \cup {PL(5, c, GDs(l), Len(l)) : c \in BOOLEAN, l \in GenLists \cup OctLists}

\* values for gdstk's writers
Enc(kind, rec) == [k |-> "enc", kind |-> kind] @@ rec
EncCases ==
    {Enc("uint", [v |-> U64(v)]) : v \in {x \in Family(64) : BitLen(x) <= 64}}
    \cup {Enc("int", [v |-> SJ(SVal(s = 1, v))]) : v \in {x \in Family(63) : BitLen(x) <= 63}, s \in {0, 1}}
    \cup {Enc("d2", [x |-> SJ(d.x), y |-> SJ(d.y)]) : d \in {DirVec(dir, v) : dir \in 0..3, v \in SmallFamily}}
    \cup {Enc("d3", [x |-> SJ(d.x), y |-> SJ(d.y)]) : d \in {DirVec(dir, v) : dir \in 0..7, v \in SmallFamily}}
    \cup {Enc("dg", [x |-> SJ(d.x), y |-> SJ(d.y)]) : d \in {DirVec(dir, v) : dir \in 0..7, v \in SmallFamily}}
    \cup {Enc("dg", [x |-> SJ(SVal(sx = 1, vx)), y |-> SJ(SVal(sy = 1, vy))]) :
             vx \in SmallFamily, vy \in {<<1>>, FromInt(100), Pow2(40), Ones(63)}, sx \in {0, 1}, sy \in {0, 1}}
    \cup {Enc("real", [v |-> d]) : d \in DoubleBytes}
PolyLists == {<< <<0, 0>>, <<10, 0>>, <<10, 5>>, <<0, 5>> >>,                 \* rectangle
              << <<0, 0>>, <<0, 5>>, <<10, 5>>, <<10, 0>> >>,                 \* vertical first
              << <<0, 0>>, <<10, 0>>, <<10, 5>>, <<4, 5>>, <<4, 9>>, <<0, 9>> >>,   \* L shape
              << <<0, 0>>, <<10, 0>>, <<10, 0>>, <<10, 5>>, <<0, 5>> >>,      \* repeated vertex
              << <<0, 0>>, <<10, 0>>, <<15, 5>>, <<15, 9>>, <<0, 9>> >>,      \* octangular
              << <<0, 0>>, <<10, 0>>, <<5, 5>> >>,                             \* diagonal closing edge
              << <<0, 0>>, <<10, 3>>, <<4, 8>> >>,                             \* general
              << <<0, 0>>, <<10, 0>>, <<20, 0>>, <<20, 5>> >>,                 \* collinear Manhattan
              << <<3, 3>>, <<3, 9>>, <<-5, 9>>, <<-5, 3>> >>,
              << <<0, 0>>, <<10, 0>> >>, << <<7, 7>> >>}
\* an odd number of alternating horizontal / vertical edges and a slanted closing edge, with first
\* vertices placed so that their coordinates coincide with the last explicit edge's components
HVSlant == {<< <<x, y>>, <<x + 10, y>>, <<x + 10, y + 10>>, <<x + 5, y + 10>> >> : x \in {-5, 0, 3}, y \in {-5, 0, 7}}
           \cup {<< <<x, y>>, <<x, y + 10>>, <<x + 10, y + 10>>, <<x + 10, y + 4>> >> : x \in {0, 3}, y \in {-6, 0, 2}}
PlEncCases == {Enc("plist", [pts |-> l, closed |-> c]) : l \in PolyLists \cup HVSlant, c \in BOOLEAN}
GdsCases == {[k |-> "gds", v |-> d] : d \in DoubleBytes}

Cases == UnsignedCases \cup SignedCases \cup D2Cases \cup D3Cases \cup G0Cases \cup G1Cases
         \cup RealIntCases \cup RealRecCases \cup RealRatioCases \cup RealIeeeCases \cup PListCases
         \cup EncCases \cup PlEncCases \cup GdsCases

Init == case \in Cases
InitThm == case = [k |-> "thm", kind |-> "none"]
Next == UNCHANGED case

\* ---- theorems of the specification ------------------------------------------------
\* the decoders consume exactly the bytes the encoders produced and agree on overflow
DecOK ==
    case.k = "dec" =>
      CASE case.kind = "uint" -> LET d == DecUnsignedAt(case.bytes, 1) IN
                                 d.next = Len(case.bytes) + 1 /\ (d.ok <=> ~d.overflow)
        [] case.kind = "int" -> LET d == DecSignedAt(case.bytes, 1) IN
                                 d.next = Len(case.bytes) + 1 /\ (d.ok <=> ~d.overflow)
        [] case.kind \in {"d2", "d3", "dg"} ->
              LET d == IF case.kind = "d2" THEN Dec2DeltaAt(case.bytes, 1)
                       ELSE IF case.kind = "d3" THEN Dec3DeltaAt(case.bytes, 1)
                       ELSE DecGDeltaAt(case.bytes, 1)
              IN  d.next = Len(case.bytes) + 1
        [] case.kind = "real" -> LET d == DecRealAt(case.bytes, 1) IN d.ok /\ d.next = Len(case.bytes) + 1
        [] OTHER -> TRUE
\* encoding then decoding is the identity on every enumerated value, for every form
RoundTrip ==
    /\ \A v \in SmallFamily : \A f \in SomeForms(v) : BEq(DecUnsignedAt(f, 1).v, v)
    /\ \A v \in SmallFamily, s \in BOOLEAN :
          \A f \in FormsSigned(SVal(s, v), 10) : DecSignedAt(f, 1).v = SVal(s, v)
    /\ \A v \in SmallFamily, dir \in 0..7 :
          LET d == DirVec(dir, v) IN
          /\ dir <= 3 => Dec2DeltaAt(Enc2Delta(d), 1).v = d
          /\ Dec3DeltaAt(Enc3Delta(d), 1).v = d
          /\ \A f \in FormsGDelta(d) : DecGDeltaAt(f, 1).v = d

AppendOpts == [format |-> "TXT", charset |-> "UTF-8",
               openOptions |-> <<"WRITE", "CREATE", "APPEND">>]
Export == Serialize(ToJson(case) \o "\n", IOEnv.GEN_OUT, AppendOpts).exitValue = 0
=============================================================================
