INIT InitThm
NEXT Next
CONSTANTS
  SmallMax = 10
  KStep = 20
INVARIANTS RoundTrip
CHECK_DEADLOCK FALSE
