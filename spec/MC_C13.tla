------------------------------- MODULE MC_C13 -------------------------------
(* Operand groups x distances x joins x union settings x scalings for offset().   *)
(* Each case carries, besides the input polygons, the PARTS whose individual        *)
(* dilation / erosion the result must be the union of: one part per input polygon   *)
(* without the union option, the merged region (outlines and holes) with it.         *)
EXTENDS Region, Json, IOUtils
CONSTANTS Depth
VARIABLES case

R(x0, y0, x1, y1) == << <<x0, y0>>, <<x1, y0>>, <<x1, y1>>, <<x0, y1>> >>
Part(o, h) == [outer |-> o, holes |-> h]
Solo(P) == <<Part(P, <<>>)>>
Each(G) == [i \in DOMAIN G |-> Part(G[i], <<>>)]
LShape == << <<1, 1>>, <<10, 1>>, <<10, 5>>, <<5, 5>>, <<5, 11>>, <<1, 11>> >>
Oct == << <<4, 1>>, <<8, 1>>, <<11, 4>>, <<11, 8>>, <<8, 11>>, <<4, 11>>, <<1, 8>>, <<1, 4>> >>
UNeck == << <<1, 1>>, <<11, 1>>, <<11, 10>>, <<7, 10>>, <<7, 4>>, <<5, 4>>, <<5, 10>>, <<1, 10>> >>
Dumbbell == << <<0, 0>>, <<4, 0>>, <<4, 2>>, <<8, 2>>, <<8, 0>>, <<12, 0>>, <<12, 6>>, <<8, 6>>, <<8, 4>>,
               <<4, 4>>, <<4, 6>>, <<0, 6>> >>
Keyhole == << <<0, 0>>, <<12, 0>>, <<12, 12>>, <<0, 12>>, <<0, 4>>, <<4, 4>>, <<4, 8>>, <<8, 8>>,
              <<8, 4>>, <<0, 4>> >>
\* arms 11 wide around the reflex corner (5, 5): survives an erosion by 5, and the arc that a round join
\* must cut around the corner is large enough for sample points to lie between it and its chord
FatL == << <<-6, -6>>, <<17, -6>>, <<17, 5>>, <<5, 5>>, <<5, 17>>, <<-6, 17>> >>
Tri == << <<1, 1>>, <<11, 1>>, <<1, 9>> >>
\* [polys, split: parts without union, merged: parts with union]
Ops == << [polys |-> <<R(2, 2, 8, 6)>>, merged |-> Solo(R(2, 2, 8, 6))],
          [polys |-> <<R(1, 1, 5, 5), R(7, 1, 11, 5)>>, merged |-> Each(<<R(1, 1, 5, 5), R(7, 1, 11, 5)>>)],
          [polys |-> <<R(1, 1, 7, 5), R(5, 3, 11, 9)>>,
           merged |-> Solo(<< <<1, 1>>, <<7, 1>>, <<7, 3>>, <<11, 3>>, <<11, 9>>, <<5, 9>>, <<5, 5>>, <<1, 5>> >>)],
          [polys |-> <<R(1, 1, 6, 5), R(6, 1, 11, 5)>>, merged |-> Solo(R(1, 1, 11, 5))],
          [polys |-> <<LShape>>, merged |-> Solo(LShape)],
          [polys |-> <<Oct>>, merged |-> Solo(Oct)],
          [polys |-> <<FatL>>, merged |-> Solo(FatL)],
          [polys |-> <<UNeck>>, merged |-> Solo(UNeck)],
          [polys |-> <<Dumbbell>>, merged |-> Solo(Dumbbell)],
          [polys |-> <<Keyhole>>, merged |-> <<Part(R(0, 0, 12, 12), <<R(4, 4, 8, 8)>>)>>],
          [polys |-> <<Tri>>, merged |-> Solo(Tri)],
          [polys |-> << << <<8, 2>>, <<2, 2>>, <<2, 6>>, <<8, 6>> >> >>,        \* clockwise rectangle
           merged |-> Solo(R(2, 2, 8, 6))],
          \* groups that mix the two vertex orders (either polygon may hold the extreme vertex)
          [polys |-> <<R(1, 1, 5, 5), << <<11, 1>>, <<7, 1>>, <<7, 5>>, <<11, 5>> >> >>,
           merged |-> Each(<<R(1, 1, 5, 5), R(7, 1, 11, 5)>>)],
          [polys |-> << << <<5, 1>>, <<1, 1>>, <<1, 5>>, <<5, 5>> >>, R(7, 3, 11, 9)>>,
           merged |-> Each(<<R(1, 1, 5, 5), R(7, 3, 11, 9)>>)],
          \* vertex lists that repeat their first vertex at the end (explicitly closed)
          [polys |-> << << <<8, 2>>, <<8, 6>>, <<2, 6>>, <<2, 2>>, <<8, 2>> >> >>, merged |-> Solo(R(2, 2, 8, 6))],
          [polys |-> << << <<10, 1>>, <<10, 5>>, <<5, 5>>, <<5, 11>>, <<1, 11>>, <<1, 1>>, <<10, 1>> >> >>, merged |-> Solo(LShape)],
          \* a sliver next to a pad: a negative distance beyond half the sliver's size must make it vanish
          [polys |-> <<R(1, 1, 5, 2), R(1, 4, 11, 11)>>, merged |-> Each(<<R(1, 1, 5, 2), R(1, 4, 11, 11)>>)] >>
Dists == IF Depth = "thorough" THEN {1, 2, 3, 5, -1, -2, -3, -5} ELSE {1, 3, -1, -2, -3, -5}
Joins == {"round", "miter", "bevel"}
Scalings == IF Depth = "thorough" THEN {1, 4, 100} ELSE {1, 4}
Init == \E i \in DOMAIN Ops, d \in Dists, j \in Joins, u \in BOOLEAN, s \in Scalings :
          case = [k |-> "offset", polys |-> Ops[i].polys, io |-> i, d |-> d, join |-> j, union |-> u, s |-> s,
                  tol |-> IF j = "round" THEN 16 ELSE 2,
                  parts |-> IF u THEN Ops[i].merged ELSE Each(Ops[i].polys)]
Next == UNCHANGED case

\* the merged description covers exactly the same points as the input group (the specification's
\* own consistency: what "depends only on the covered region" refers to)
Laws == \A q \in FineSamples(-1, 13, 1) :
           InRegion(FineOfUser(case.polys, 1), q)
           = \E k \in DOMAIN case.parts :
                InPart([outer |-> FineOfUser(<<case.parts[k].outer>>, 1)[1],
                        holes |-> FineOfUser(case.parts[k].holes, 1)], q)

AppendOpts == [format |-> "TXT", charset |-> "UTF-8",
               openOptions |-> <<"WRITE", "CREATE", "APPEND">>]
Export == Serialize(ToJson(case) \o "\n", IOEnv.GEN_OUT, AppendOpts).exitValue = 0
=============================================================================
