----------------------------- MODULE MC_LibGraph -----------------------------
(* Initial library, generation and export for LibGraph.tla.                      *)
EXTENDS LibGraph, Json, IOUtils

MCCells == {"c1", "c2", "c3", "c4", "c5"}
MCRaws == {"r1", "r2", "r3", "r4"}
\* (one new name shorter than every existing name, one of the usual length: names differ in length and
\* share prefixes, "n3" / "n3b", so that a comparison that looks at a prefix only confuses them)
MCNewNames == {"m", "m2"}
Tags == {"t1", "t2", "t3"}
MCTagMaps == {[id |-> "swap12", f |-> [t1 |-> "t2", t2 |-> "t1", t3 |-> "t3"]],
              [id |-> "t1to3",  f |-> [t1 |-> "t3", t2 |-> "t2", t3 |-> "t3"]]}

\* c1 is the top cell; c3 is a shared sub-cell; c4 is a replacement candidate carrying c1's
\* name; r3 is a raw cell from a second file carrying r1's name.
\* Shape 3 is library 2 of a pair that shares its cells with library 1 (copy_from(lib, false)) after
\* library 1 replaced cell n3 by the raw cell r3 of the same name and raw cell q1 by the cell c5 of
\* the same name: c1 and c2 hold pointer references to those out-of-library objects, which are stale
\* designations of this library's c3 and r1 (LibGraph!StaleFor).  c4 is a free-standing replacement.
CONSTANT Shape
InitName == IF Shape = 3
            THEN [c1 |-> "n1", c2 |-> "n2", c3 |-> "n3", c4 |-> "n4", c5 |-> "q1",
                  r1 |-> "q1", r2 |-> "q2", r3 |-> "n3", r4 |-> "q4"]
            ELSE [c1 |-> "n1", c2 |-> "n2", c3 |-> "n3", c4 |-> "n1", c5 |-> "n3b",
                  r1 |-> "q1", r2 |-> "q2", r3 |-> "q1", r4 |-> "q4"]
InitRefs == IF Shape = 3
            THEN [c1 |-> <<Ref("cell", "c2"), Ref("cell", "c3"), Ref("name", "n3"),
                           Ref("raw", "r1"), Ref("raw", "r3"), Ref("raw", "r3")>>,
                  c2 |-> <<Ref("cell", "c3"), Ref("name", "q1"), Ref("raw", "r2"), Ref("cell", "c5"),
                           Ref("raw", "r3")>>,
                  c3 |-> <<>>,
                  c4 |-> <<Ref("name", "n2")>>,
                  c5 |-> <<Ref("raw", "r2")>>]
            ELSE
            [c1 |-> <<Ref("cell", "c2"), Ref("cell", "c3"), Ref("name", "n3"),
                      Ref("raw", "r1"), Ref("name", "zz")>>,
             c2 |-> <<Ref("cell", "c3"), Ref("name", "q2"), Ref("raw", "r2"), Ref("name", "n3b")>>,
             c3 |-> <<>>,
             c4 |-> <<Ref("cell", "c3"), Ref("name", "n2")>>,
             c5 |-> <<Ref("cell", "c3"), Ref("raw", "r2")>>]
InitShapes == [c1 |-> <<"t1", "t2">>, c2 |-> <<"t2">>, c3 |-> <<"t3">>, c4 |-> <<"t1">>,
               c5 |-> <<>>]
InitLabels == [c1 |-> <<"t1">>, c2 |-> <<>>, c3 |-> <<"t3">>, c4 |-> <<"t2">>, c5 |-> <<>>]
\* a chain of three raw cells (r1 -> r2 -> r4): recursive dependencies are more than direct ones
InitRawDeps == [r1 |-> {"r2"}, r2 |-> {"r4"}, r3 |-> {}, r4 |-> {}]
RawFile == [r1 |-> 1, r2 |-> 1, r3 |-> 2, r4 |-> 1]
\* Shape 1: three member cells, two raw cells.  Shape 2: more raw cells than cells (a raw cell's
\* position in the raw-cell list is not a position in the cell list).
InitMembers == IF Shape \in {1, 3} THEN {"c1", "c2", "c3"} ELSE {"c3"}
InitRMembers == {"r1", "r2"}

Init == /\ members = InitMembers /\ rmembers = InitRMembers
        /\ name = InitName /\ refs = InitRefs /\ shapes = InitShapes /\ labels = InitLabels
        /\ rawdeps = InitRawDeps
        /\ intent = [c \in Cells |->
                        [i \in DOMAIN InitRefs[c] |->
                            DesigIn(InitMembers, InitRMembers, InitName, InitRefs[c][i])]]
        /\ hist = <<>>

SetToSeq(S) == CHOOSE s \in [1..Cardinality(S) -> S] : \A i, j \in DOMAIN s : i # j => s[i] # s[j]
InitRec == [members |-> SetToSeq(InitMembers), rmembers |-> IF Shape = 1 THEN SetToSeq(InitRMembers) ELSE <<"r2", "r1">>,
            name |-> InitName, refs |-> InitRefs, shapes |-> InitShapes, labels |-> InitLabels,
            rawdeps |-> [r \in Raws |-> SetToSeq(InitRawDeps[r])], rawfile |-> RawFile,
            tagmaps |-> [m \in {"swap12", "t1to3"} |->
                           (CHOOSE x \in MCTagMaps : x.id = m).f]]

AppendOpts == [format |-> "TXT", charset |-> "UTF-8",
               openOptions |-> <<"WRITE", "CREATE", "APPEND">>]
Export ==
    IF Len(hist') <= MaxLen
    THEN Serialize(ToJson([init |-> InitRec, h |-> hist']) \o "\n",
                   IOEnv.GEN_OUT, AppendOpts).exitValue = 0
    ELSE TRUE
Spec == Init /\ [][Next]_vars
=============================================================================
