-------------------------------- MODULE Codec --------------------------------
(***************************************************************************)
(* The number encodings of the two file formats, from the format           *)
(* definitions (OASIS: SEMI P39 section 7; GDSII stream: 8-byte real),     *)
(* over bit sequences (Bits.tla).                                          *)
(*                                                                         *)
(* OASIS integers are uniform:  a bit string = PREFIX bits followed by the *)
(* MAGNITUDE bits (both LSB first), cut into 7-bit groups, one group per   *)
(* byte, low group first, bit 7 of every byte but the last set.            *)
(*   unsigned       prefix <<>>                                            *)
(*   signed/1-delta prefix <<sign>>                                        *)
(*   2-delta        prefix <<d0, d1>>        direction E N W S = 0..3      *)
(*   3-delta        prefix <<d0, d1, d2>>    direction E N W S NE NW SW SE *)
(*   g-delta form 0 prefix <<0, d0, d1, d2>> (octangular displacement)     *)
(*   g-delta form 1 prefix <<1, sx>> magnitude |x|, then a signed integer y *)
(* A value has many legal encodings: trailing all-zero groups are allowed  *)
(* ("non-minimal length"); Forms* enumerates them up to MaxBytes.          *)
(***************************************************************************)
EXTENDS Bits, FiniteSets

\* ---- 7-bit grouping -----------------------------------------------------------
\* bits -> bytes with exactly n groups (n >= minimal number of groups)
GroupByte(bits, k, last) ==     \* k-th group (1-based)
    LET o == 7 * (k - 1) IN
    BitAt(bits, o + 1) + 2 * BitAt(bits, o + 2) + 4 * BitAt(bits, o + 3) + 8 * BitAt(bits, o + 4)
    + 16 * BitAt(bits, o + 5) + 32 * BitAt(bits, o + 6) + 64 * BitAt(bits, o + 7)
    + (IF last THEN 0 ELSE 128)
MinGroups(bits) == LET n == BitLen(bits) IN IF n = 0 THEN 1 ELSE (n + 6) \div 7
GroupsToBytes(bits, n) == [k \in 1..n |-> GroupByte(bits, k, k = n)]
EncBits(bits) == GroupsToBytes(bits, MinGroups(bits))                 \* minimal form
FormsBits(bits, maxbytes) == {GroupsToBytes(bits, n) : n \in MinGroups(bits)..maxbytes}

\* bytes -> (bits, number of bytes consumed); the integer ends at the first byte < 128
RECURSIVE IntLen(_, _)
IntLen(bytes, i) == IF i > Len(bytes) THEN 0          \* ran off the end: malformed
                    ELSE IF bytes[i] < 128 THEN i ELSE IntLen(bytes, i + 1)
\* bits of the integer that starts at position p and ends at position q (inclusive)
IntBits(bytes, p, q) ==
    [i \in 1..(7 * (q - p + 1)) |-> (bytes[p + ((i - 1) \div 7)] \div (2 ^ ((i - 1) % 7))) % 2]

\* ---- decoders: [ok, overflow, value fields..., next] -------------------------------
\* next = position of the first byte after the integer
DecUnsignedAt(bytes, p) ==
    LET q == IntLen(bytes, p) IN
    IF q = 0 THEN [ok |-> FALSE, overflow |-> FALSE, v |-> <<>>, next |-> p]
    ELSE LET b == Trim(IntBits(bytes, p, q)) IN
         [ok |-> Len(b) <= 64, overflow |-> Len(b) > 64, v |-> b, next |-> q + 1]

\* prefix of np bits, magnitude limited to 63 bits (the formats' signed 64-bit range)
DecPrefixedAt(bytes, p, np) ==
    LET q == IntLen(bytes, p) IN
    IF q = 0 THEN [ok |-> FALSE, overflow |-> FALSE, prefix |-> <<>>, mag |-> <<>>, next |-> p]
    ELSE LET all == IntBits(bytes, p, q)
             mag == Trim(SubSeq(all, np + 1, Len(all)))
         IN  [ok |-> Len(mag) <= 63, overflow |-> Len(mag) > 63,
              prefix |-> SubSeq(all, 1, np), mag |-> mag, next |-> q + 1]

\* a signed value is [neg, mag]; zero may carry either sign bit on the wire
SVal(neg, mag) == [neg |-> neg /\ ~IsZero(mag), mag |-> Trim(mag)]
DecSignedAt(bytes, p) ==
    LET d == DecPrefixedAt(bytes, p, 1) IN
    [ok |-> d.ok, overflow |-> d.overflow, next |-> d.next,
     v |-> IF d.ok THEN SVal(d.prefix[1] = 1, d.mag) ELSE SVal(FALSE, <<>>)]

\* displacement [x, y], each a signed value
Zero == SVal(FALSE, <<>>)
DirVec(dir, mag) ==      \* E N W S NE NW SW SE
    LET P == SVal(FALSE, mag)
        N == SVal(TRUE, mag)
    IN  CASE dir = 0 -> [x |-> P, y |-> Zero]
          [] dir = 1 -> [x |-> Zero, y |-> P]
          [] dir = 2 -> [x |-> N, y |-> Zero]
          [] dir = 3 -> [x |-> Zero, y |-> N]
          [] dir = 4 -> [x |-> P, y |-> P]
          [] dir = 5 -> [x |-> N, y |-> P]
          [] dir = 6 -> [x |-> N, y |-> N]
          [] dir = 7 -> [x |-> P, y |-> N]
Dec2DeltaAt(bytes, p) ==
    LET d == DecPrefixedAt(bytes, p, 2) IN
    [ok |-> d.ok, overflow |-> d.overflow, next |-> d.next,
     v |-> IF d.ok THEN DirVec(d.prefix[1] + 2 * d.prefix[2], d.mag) ELSE DirVec(0, <<>>)]
Dec3DeltaAt(bytes, p) ==
    LET d == DecPrefixedAt(bytes, p, 3) IN
    [ok |-> d.ok, overflow |-> d.overflow, next |-> d.next,
     v |-> IF d.ok THEN DirVec(d.prefix[1] + 2 * d.prefix[2] + 4 * d.prefix[3], d.mag)
           ELSE DirVec(0, <<>>)]
DecGDeltaAt(bytes, p) ==
    IF p > Len(bytes) THEN [ok |-> FALSE, overflow |-> FALSE, next |-> p, v |-> DirVec(0, <<>>)]
    ELSE IF bytes[p] % 2 = 0
    THEN LET d == DecPrefixedAt(bytes, p, 4) IN
         [ok |-> d.ok, overflow |-> d.overflow, next |-> d.next,
          v |-> IF d.ok THEN DirVec(d.prefix[2] + 2 * d.prefix[3] + 4 * d.prefix[4], d.mag)
                ELSE DirVec(0, <<>>)]
    ELSE LET dx == DecPrefixedAt(bytes, p, 2)
             dy == DecSignedAt(bytes, dx.next)
         IN  [ok |-> dx.ok /\ dy.ok, overflow |-> dx.overflow \/ dy.overflow, next |-> dy.next,
              v |-> IF dx.ok /\ dy.ok THEN [x |-> SVal(dx.prefix[2] = 1, dx.mag), y |-> dy.v]
                    ELSE DirVec(0, <<>>)]

\* ---- encoders (minimal) and all legal forms ----------------------------------------
EncUnsigned(v) == EncBits(v)
FormsUnsigned(v, maxbytes) == FormsBits(v, maxbytes)
SBits(s) == <<IF s.neg THEN 1 ELSE 0>> \o s.mag
EncSigned(s) == EncBits(SBits(s))
FormsSigned(s, maxbytes) == FormsBits(SBits(s), maxbytes)
\* negative zero is a legal alternative encoding of zero
FormsSignedZero(maxbytes) == FormsBits(<<1>>, maxbytes) \cup FormsBits(<<0>>, maxbytes)

DirOf(d) ==       \* direction code of an octangular displacement, or -1
    LET xz == IsZero(d.x.mag)
        yz == IsZero(d.y.mag)
        eq == BEq(d.x.mag, d.y.mag)
    IN  IF yz THEN (IF d.x.neg THEN 2 ELSE 0)
        ELSE IF xz THEN (IF d.y.neg THEN 3 ELSE 1)
        ELSE IF ~eq THEN -1
        ELSE IF ~d.x.neg /\ ~d.y.neg THEN 4
        ELSE IF d.x.neg /\ ~d.y.neg THEN 5
        ELSE IF d.x.neg /\ d.y.neg THEN 6 ELSE 7
MagOf(d) == IF IsZero(d.y.mag) THEN d.x.mag ELSE d.y.mag
Bits2(n) == FixBits(n, 2)
Bits3(n) == FixBits(n, 3)
Enc2Delta(d) == EncBits(Bits2(DirOf(d)) \o MagOf(d))                 \* requires DirOf in 0..3
Enc3Delta(d) == EncBits(Bits3(DirOf(d)) \o MagOf(d))                 \* requires DirOf in 0..7
EncGDelta0(d) == EncBits(<<0>> \o Bits3(DirOf(d)) \o MagOf(d))
EncGDelta1(d) == EncBits(<<1, IF d.x.neg THEN 1 ELSE 0>> \o d.x.mag) \o EncSigned(d.y)
\* every legal g-delta encoding of d (both forms when octangular; minimal lengths)
FormsGDelta(d) == (IF DirOf(d) >= 0 THEN {EncGDelta0(d)} ELSE {}) \cup {EncGDelta1(d)}

\* ---- reals ----------------------------------------------------------------------------
\* An OASIS real on the wire: type byte 0..7 then
\*   0 +n   1 -n   2 +1/n   3 -1/n   4 +a/b   5 -a/b   6 IEEE single (4 bytes LE)   7 IEEE double
\* Decoded meaning: [neg, kind, a, b] for rationals (value a/b) or the IEEE bit pattern.
DecRealAt(bytes, p) ==
    IF p > Len(bytes) THEN [ok |-> FALSE]
    ELSE LET t == bytes[p] IN
    CASE t \in {0, 1} ->
            LET d == DecUnsignedAt(bytes, p + 1) IN
            [ok |-> d.ok, kind |-> "ratio", neg |-> t = 1, a |-> d.v, b |-> <<1>>, next |-> d.next]
      [] t \in {2, 3} ->
            LET d == DecUnsignedAt(bytes, p + 1) IN
            [ok |-> d.ok /\ ~IsZero(d.v), kind |-> "ratio", neg |-> t = 3, a |-> <<1>>,
             b |-> d.v, next |-> d.next]
      [] t \in {4, 5} ->
            LET d1 == DecUnsignedAt(bytes, p + 1)
                d2 == DecUnsignedAt(bytes, d1.next)
            IN  [ok |-> d1.ok /\ d2.ok /\ ~IsZero(d2.v), kind |-> "ratio", neg |-> t = 5,
                 a |-> d1.v, b |-> d2.v, next |-> d2.next]
      [] t = 6 -> [ok |-> p + 4 <= Len(bytes), kind |-> "single",
                   bits |-> BytesToBits(SubSeq(bytes, p + 1, p + 4)), next |-> p + 5]
      [] t = 7 -> [ok |-> p + 8 <= Len(bytes), kind |-> "double",
                   bits |-> BytesToBits(SubSeq(bytes, p + 1, p + 8)), next |-> p + 9]
      [] OTHER -> [ok |-> FALSE]

\* IEEE single -> the double with the same value (bit manipulation; finite normal/zero/subnormal)
SingleToDoubleBits(s) ==      \* s: 32 bits LSB first
    LET frac == SubSeq(s, 1, 23)
        ef == ToInt(SubSeq(s, 24, 31))
        sign == s[32]
    IN  IF ef = 0 /\ IsZero(frac) THEN Zeros(63) \o <<sign>>
        ELSE IF ef = 255 THEN Zeros(29) \o frac \o FixBits(2047, 11) \o <<sign>>
        ELSE IF ef > 0 THEN Zeros(29) \o frac \o FixBits(ef - 127 + 1023, 11) \o <<sign>>
        ELSE \* subnormal single: value = frac * 2^-149; normalise
             LET n == BitLen(frac)               \* highest set bit position (1-based)
                 mant == SubSeq(Shl(Trim(frac), 53 - n), 1, 52)    \* drop the leading 1
             IN  mant \o FixBits(n - 1 - 149 + 1023, 11) \o <<sign>>

\* |a / b - m 2^e| <= k 2^e  (k ulps of the double (m, e)), for bit naturals a, b > 0, m and integer e
QuotientWithinUlps(a, b, m, e, k) ==
    LET sh == IF e < 0 THEN -e ELSE 0
        up == IF e > 0 THEN e ELSE 0
        A == Shl(a, sh)                              \* a 2^sh
        MB == Shl(BMul(m, b), up)                    \* m b 2^e 2^sh
        T == Shl(BMul(FromInt(k), b), up)            \* k b 2^e 2^sh
    IN  BLe(BAbsDiff(A, MB), T)
\* does the double with bit pattern dbits (64 bits) equal the meaning of decoded real r ?
\* A ratio whose terms are exact doubles (below 2^53) must come out correctly rounded (one IEEE
\* division); with a wider term the conversion of that term rounds first, and the result is held
\* to 2 units in the last place.
RealMeansDouble(r, dbits) ==
    CASE r.kind = "double" -> r.bits = dbits
      [] r.kind = "single" -> SingleToDoubleBits(r.bits) = dbits
      [] r.kind = "ratio" ->
            IF IsZero(r.a) THEN DblIsZero(dbits)
            ELSE /\ DblIsFinite(dbits) /\ (DblSign(dbits) = 1) = r.neg
                 /\ IF BitLen(r.a) <= 53 /\ BitLen(r.b) <= 53
                    THEN IsRoundedQuotient(r.a, r.b, DblMant(dbits), DblExp(dbits))
                    ELSE QuotientWithinUlps(r.a, r.b, DblMant(dbits), DblExp(dbits), 2)
\* ... and exactly (no rounding at all): what a LOSSLESS encoding of the double must satisfy
RealIsExactlyDouble(r, dbits) ==
    CASE r.kind = "double" -> r.bits = dbits
      [] r.kind = "single" -> SingleToDoubleBits(r.bits) = dbits
      [] r.kind = "ratio" ->
            IF IsZero(r.a) THEN DblIsZero(dbits)
            ELSE /\ DblIsFinite(dbits) /\ (DblSign(dbits) = 1) = r.neg
                 \* a / b = m 2^e  <=>  a = m b 2^e
                 /\ LET m == DblMant(dbits)
                        e == DblExp(dbits)
                    IN  IF e >= 0 THEN BEq(r.a, Shl(BMul(m, r.b), e))
                        ELSE BEq(Shl(r.a, -e), BMul(m, r.b))

\* ---- GDSII 8-byte real ----------------------------------------------------------------
\* big endian: byte 1 = sign bit + excess-64 exponent of 16, bytes 2..8 = 56-bit mantissa;
\* value = (-1)^s * mant * 16^(exp - 64) / 2^56  =  mant * 2^(4*(exp-64) - 56)
GdsMant(bytes8) == BytesToBits(<<bytes8[8], bytes8[7], bytes8[6], bytes8[5], bytes8[4],
                                 bytes8[3], bytes8[2]>>)
GdsSign(bytes8) == bytes8[1] \div 128
GdsExp2(bytes8) == 4 * ((bytes8[1] % 128) - 64) - 56
GdsIsZero(bytes8) == IsZero(GdsMant(bytes8))
\* |gds value - double| <= k ulps of the double  (ulp = 2^DblExp)
GdsWithinUlps(bytes8, dbits, k) ==
    IF DblIsZero(dbits) THEN GdsIsZero(bytes8)
    ELSE /\ ~GdsIsZero(bytes8) /\ GdsSign(bytes8) = DblSign(dbits)
         /\ DyadicAbsDiffLe(GdsMant(bytes8), GdsExp2(bytes8), DblMant(dbits), DblExp(dbits),
                            FromInt(k), DblExp(dbits))
\* |double a - double b| <= k ulps of a
DblWithinUlps(a, b, k) ==
    IF DblIsZero(a) THEN DblIsZero(b)
    ELSE /\ DblSign(a) = DblSign(b) /\ DblIsFinite(b)
         /\ DyadicAbsDiffLe(DblMant(a), DblExp(a), DblMant(b), DblExp(b), FromInt(k), DblExp(a))
GdsNormalized(bytes8) == GdsIsZero(bytes8) \/ bytes8[2] >= 16

RECURSIVE SumTo(_, _, _)
SumTo(ds, i, c) == IF i = 0 THEN 0 ELSE ds[i][c] + SumTo(ds, i - 1, c)

\* ---- point lists -------------------------------------------------------------------------
\* type byte 0..5, vertex count n, then n deltas.  Result: the sequence of DELTAS between
\* successive vertices (first vertex is given elsewhere), including the implicit closing
\* delta(s) of types 0 and 1 when the list is closed (polygon).
RECURSIVE DecDeltas(_, _, _, _, _)
DecDeltas(bytes, p, n, kind, acc) ==     \* kind: 1 (1-delta) 2 3 4 (g-delta)
    IF n = 0 THEN [ok |-> TRUE, next |-> p, ds |-> acc]
    ELSE LET d == CASE kind = 1 -> DecSignedAt(bytes, p)
                    [] kind = 2 -> Dec2DeltaAt(bytes, p)
                    [] kind = 3 -> Dec3DeltaAt(bytes, p)
                    [] kind = 4 -> DecGDeltaAt(bytes, p)
         IN  IF ~d.ok THEN [ok |-> FALSE, next |-> p, ds |-> acc]
             ELSE DecDeltas(bytes, d.next, n - 1, kind, Append(acc, d.v))

\* small signed values as TLC integers (point lists, magnitudes below 2^28)
SInt(s) == IF s.neg THEN -ToInt(s.mag) ELSE ToInt(s.mag)
SOfInt(n) == SVal(n < 0, FromInt(IF n < 0 THEN -n ELSE n))
DOfInts(x, y) == [x |-> SOfInt(x), y |-> SOfInt(y)]

\* vertices denoted by a point list of type t with decoded deltas ds, starting at (0,0)
\* (the start vertex is included); closed = the list describes a polygon
RECURSIVE PLWalk(_, _, _, _)
PLWalk(ds, i, cur, acc) ==        \* ds: sequence of <<dx, dy>> integer pairs
    IF i > Len(ds) THEN acc
    ELSE LET nxt == <<cur[1] + ds[i][1], cur[2] + ds[i][2]>> IN PLWalk(ds, i + 1, nxt, Append(acc, nxt))
PLVertices(t, ds, closed) ==
    CASE t \in {0, 1} ->
            \* ds are 1-deltas (integers) alternating horizontal / vertical
            LET hfirst == t = 0
                IsH(i) == IF hfirst THEN i % 2 = 1 ELSE i % 2 = 0
                pairs == [i \in DOMAIN ds |-> IF IsH(i) THEN <<ds[i], 0>> ELSE <<0, ds[i]>>]
                open == PLWalk(pairs, 1, <<0, 0>>, << <<0, 0>> >>)
                last == open[Len(open)]
                \* the implicit vertex closes the polygon with a horizontal and a vertical edge
                impl == IF IsH(Len(ds) + 1) THEN <<0, last[2]>> ELSE <<last[1], 0>>
            IN  IF closed THEN Append(open, impl) ELSE open
      [] t \in {2, 3, 4} -> PLWalk(ds, 1, <<0, 0>>, << <<0, 0>> >>)
      [] t = 5 ->
            \* double deltas: each entry changes the previous displacement
            LET acc == [i \in DOMAIN ds |->
                          <<SumTo(ds, i, 1), SumTo(ds, i, 2)>>]
            IN  PLWalk(acc, 1, <<0, 0>>, << <<0, 0>> >>)
=============================================================================
