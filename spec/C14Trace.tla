------------------------------ MODULE C14Trace ------------------------------
(* Validates gdstk's point-in-polygon queries and polygon measures against       *)
(* Region.tla on exactly representable (half-integer) coordinates.               *)
EXTENDS Region, Json, IOUtils

Log == ndJsonDeserialize(IOEnv.TRACE)
VARIABLES l
Ev == Log[l]

B(x) == IF x THEN 1 ELSE 0
QueryAt(lo, hi, n) == LET w == hi - lo + 1 IN <<lo + ((n - 1) \div w), lo + ((n - 1) % w)>>

PolyFailing(ev) ==
    LET P == ev.g.pts
        lo == ev.g.lo
        hi == ev.g.hi
        \* (32-bit integers: the large polygons are measured to 1/100 instead of 1/1000)
        big == hi > 40
        pb == PerimeterBounds(P, IF big THEN 100 ELSE 1000)
        PV(x) == IF big THEN x \div 10 ELSE x
    IN  {<<"contain", QueryAt(lo, hi, n)>> :
            n \in {m \in DOMAIN ev.res : ev.res[m] # B(Inside(P, QueryAt(lo, hi, m)))}}
        \cup (IF ev.lat THEN {} ELSE {<<"measure_off_lattice_or_not_finite">>})
        \cup (IF ev.sarea = SignedArea2(P) THEN {} ELSE {<<"signed_area">>})
        \cup (IF ev.area = Area2(P) * ev.count THEN {} ELSE {<<"area_times_repetition">>})
        \cup (IF PV(ev.perim1000) >= pb[1] * ev.count /\ PV(ev.perim1000) <= pb[2] * ev.count + 1
              THEN {} ELSE {<<"perimeter_times_repetition">>})
        \cup (IF ev.area0 = Area2(P) /\ PV(ev.perim0) >= pb[1] /\ PV(ev.perim0) <= pb[2] + 1
              THEN {} ELSE {<<"area_or_perimeter">>})

GroupFailing(ev) ==
    LET Gp == ev.g.polys
        pts == ev.g.list
    IN  (IF ev.inside = [i \in DOMAIN pts |-> B(InGroup(Gp, pts[i]))] THEN {} ELSE {<<"inside">>})
        \cup (IF ev.inside1 = ev.inside THEN {} ELSE {<<"inside_depends_on_buffer_content">>})
        \cup (IF ev.all = AllInside(Gp, pts) THEN {} ELSE {<<"all_inside">>})
        \cup (IF ev.any = AnyInside(Gp, pts) THEN {} ELSE {<<"any_inside">>})
        \cup (IF \A i \in DOMAIN Gp : ev.call[i] = ContainAll(Gp[i], pts) THEN {} ELSE {<<"contain_all">>})
        \cup (IF \A i \in DOMAIN Gp : ev.cany[i] = ContainAny(Gp[i], pts) THEN {} ELSE {<<"contain_any">>})

Check(ev) == CASE ev.e \in {"poly", "far"} -> PolyFailing(ev)
               [] ev.e = "group" -> GroupFailing(ev)
               [] OTHER -> {ev.e}
TInit == l = 1
TNext == /\ l <= Len(Log) /\ l' = l + 1
         /\ LET f == Check(Ev) IN IF f = {} THEN TRUE
                                  ELSE PrintT("REJECT " \o ToString(l) \o " " \o ToString(f))
=============================================================================
