--------------------------- MODULE C20TablesTrace ---------------------------
(* Validates a log recorded from gdstk's real hash tables against the actions of *)
(* Containers.tla.  One line of the log = one public call; the model takes the   *)
(* SAME action (SetOp/DelOp/ClearOp/CopyOp) and the line is accepted iff what    *)
(* the API showed afterwards (count, iteration content, get/has for the whole    *)
(* key universe, the call's return value) is what the model's abstract map says. *)
(* A mismatch is recorded (REJECT line) and validation continues: total.         *)
EXTENDS MC_Containers

Log == ndJsonDeserialize(IOEnv.TRACE)
VARIABLES l, bad     \* position in the log; TRUE once this execution has been rejected
tvars == <<vars, l, bad>>

Ev == Log[l]
KeyLo == IF IsTag THEN 0 ELSE 1
NKeys == Len(HomeTab)         \* indices 0..NKeys-1 exist in the measured table

\* what the API showed vs. the abstract map after the step
ContentSet(ev) == {<<ev.content[i][1], ev.content[i][2]>> : i \in DOMAIN ev.content}
ObsOK(ev, m) ==
    /\ ev.count = Cardinality(DOMAIN m)
    /\ Len(ev.content) = ev.count                        \* iteration: each entry exactly once
    /\ ContentSet(ev) = {<<k, m[k]>> : k \in DOMAIN m}
    /\ \A q \in KeyLo..(NKeys - 1) :
          /\ ev.gets[q - KeyLo + 1] = (IF KindC = "set" THEN (IF q \in DOMAIN m THEN 1 ELSE 0)
                                       ELSE Lookup(m, q))
          /\ ev.has[q - KeyLo + 1] = (q \in DOMAIN m)

Mark(okk, why) == IF okk \/ bad THEN bad' = bad
                  ELSE /\ PrintT("REJECT " \o ToString(l) \o " " \o ToString(why)) /\ bad' = TRUE

TInit == Init /\ l = 1 /\ bad = FALSE

TReset == /\ Ev.e = "Reset"
          /\ cap' = 0 /\ slots' = <<>> /\ count' = 0 /\ abs' = [k \in {} |-> 0]
          /\ res' = "none" /\ hist' = <<>> /\ bad' = FALSE

TSet == /\ Ev.e = "set" /\ SetOp(Ev.k, Ev.v) /\ Mark(ObsOK(Ev, abs'), "set")
TDel == /\ Ev.e = "del" /\ DelOp(Ev.k)
        /\ Mark(ObsOK(Ev, abs') /\ Ev.r = res', "del")
TGet == /\ Ev.e = "get" /\ GetOp(Ev.k)
        /\ Mark(ObsOK(Ev, abs') /\ Ev.r = res', "get")
TClear == /\ Ev.e = "clear" /\ ClearOp /\ Mark(ObsOK(Ev, abs'), "clear")
TCopy == /\ Ev.e = "copy" /\ CopyOp /\ Mark(ObsOK(Ev, abs'), "copy")
\* anything else (Crash, Hang, unknown) is explained by no action of the specification
TOther == /\ Ev.e \notin {"Reset", "set", "del", "get", "clear", "copy"}
          /\ PrintT("REJECT " \o ToString(l) \o " " \o ToString(Ev.e))
          /\ bad' = TRUE /\ UNCHANGED vars

TNext == /\ l <= Len(Log) /\ l' = l + 1
         /\ (TReset \/ TSet \/ TDel \/ TGet \/ TClear \/ TCopy \/ TOther)
TSpec == TInit /\ [][TNext]_tvars

\* the refinement invariants of Containers.tla are evaluated in every state of every trace
TraceInv == Refines /\ CountOK /\ NoDuplicateKey /\ HasEmpty /\ ProbeChain
=============================================================================
