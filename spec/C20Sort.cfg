INIT TInit
NEXT TNext
CONSTANTS
  InsMax = 16
  DepthMul = 2
CHECK_DEADLOCK FALSE
