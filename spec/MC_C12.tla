------------------------------- MODULE MC_C12 -------------------------------
(* Polygon families x vertex limits x precisions for fracture, and x cut lists x  *)
(* axes for slice.  Coordinates are user integers (cut positions in HALF units).  *)
EXTENDS Region, Json, IOUtils
CONSTANTS Depth
VARIABLES case

RECURSIVE Teeth(_, _)
\* comb with n teeth of width 1 separated by gaps of 1, height h, on a base of height 1
Teeth(n, h) == IF n = 0 THEN <<>>
               ELSE Teeth(n - 1, h) \o << <<2 * n - 1, 1>>, <<2 * n - 1, h>>, <<2 * n - 2, h>>, <<2 * n - 2, 1>> >>
CombN(n, h) == << <<0, 0>>, <<2 * n - 1, 0>> >> \o
               [i \in 1..(4 * n - 2) |-> Teeth(n, h)[4 * n - i]]
Octagon == << <<3, 0>>, <<8, 0>>, <<11, 3>>, <<11, 8>>, <<8, 11>>, <<3, 11>>, <<0, 8>>, <<0, 3>> >>
Spiral == << <<0, 0>>, <<12, 0>>, <<12, 12>>, <<0, 12>>, <<0, 3>>, <<9, 3>>, <<9, 9>>, <<3, 9>>, <<3, 6>>,
             <<4, 6>>, <<4, 8>>, <<8, 8>>, <<8, 4>>, <<1, 4>>, <<1, 11>>, <<11, 11>>, <<11, 1>>, <<0, 1>> >>
LWithCollinear == << <<0, 0>>, <<4, 0>>, <<8, 0>>, <<8, 3>>, <<8, 3>>, <<3, 3>>, <<3, 6>>, <<3, 9>>, <<0, 9>>, <<0, 4>> >>
Sliver == << <<0, 0>>, <<12, 0>>, <<12, 1>>, <<6, 1>>, <<0, 1>> >>
Star == << <<6, 0>>, <<7, 4>>, <<12, 5>>, <<8, 7>>, <<9, 12>>, <<6, 8>>, <<3, 12>>, <<4, 7>>, <<0, 5>>, <<5, 4>> >>
Rev(s) == [i \in DOMAIN s |-> s[Len(s) + 1 - i]]
\* corners whose two edges have mirrored slopes (the products compared by the slope tests differ in sign only)
Diamond == << <<6, 0>>, <<12, 6>>, <<6, 12>>, <<0, 6>> >>
Saw == << <<0, 0>>, <<2, 2>>, <<4, 0>>, <<6, 2>>, <<8, 0>>, <<8, 8>>, <<6, 6>>, <<4, 8>>, <<2, 6>>, <<0, 8>> >>
Polys == <<Diamond, Saw, Octagon, Spiral, LWithCollinear, Sliver, Star, CombN(3, 9), CombN(6, 7), Rev(Spiral),
           << <<0, 0>>, <<12, 0>>, <<12, 12>>, <<0, 12>> >>, << <<0, 0>>, <<9, 0>>, <<0, 6>> >> >>
Limits == IF Depth = "thorough" THEN 5..12 \cup {199} ELSE {5, 6, 8, 11}
Scalings == IF Depth = "thorough" THEN {1, 8, 100} ELSE {1, 8}
\* cut lists in half units (sorted): inside, on the bounding box, outside, repeated, empty
CutLists == {<<>>, <<10>>, <<7, 15>>, <<0, 12, 24>>, <<-6, 11, 11, 30>>, <<4, 5, 6, 7, 8>>, <<24>>, <<-2>>}

PathSpines == {<< <<0, 0>>, <<8, 0>>, <<8, 6>> >>, << <<1, 1>>, <<1, 9>>, <<7, 9>>, <<7, 3>> >>,
               << <<0, 0>>, <<6, 6>>, <<10, 6>> >>, << <<0, 8>>, <<9, 2>> >>}
PathWidths == {<< <<2>>, <<0>> >>, << <<1>>, <<0>> >>, << <<2, 1>>, <<-2, 2>> >>}
\* long skylines: n unit-wide columns of heights 1..7 on a common base, 2n + 2 vertices, the top walked
\* right-to-left (the coordinate array fracture sorts is long and almost in decreasing order, which is
\* what drives introsort to its heap-sort fallback) or left-to-right
SkyH(i) == ((i * 7) % 5) + 1 + (i % 3)
SkyRTL(n) == << <<0, 0>>, <<n, 0>> >> \o
             [j \in 1..(2 * n) |-> LET i == n - 1 - ((j - 1) \div 2) IN
                                    IF j % 2 = 1 THEN <<i + 1, SkyH(i)>> ELSE <<i, SkyH(i)>>]
Init == \/ \E i \in DOMAIN Polys, lim \in Limits \cup {0, 4}, s \in Scalings :
              case = [k |-> "fracture", p |-> Polys[i], ip |-> i, limit |-> lim, s |-> s]
        \/ \E n \in {220, 300}, lim \in {5, 8}, d \in {"rtl", "ltr"} :
              case = [k |-> "stair", p |-> IF d = "rtl" THEN SkyRTL(n) ELSE Rev(SkyRTL(n)), ip |-> n,
                      n |-> n, limit |-> lim, s |-> 1]
        \* the same polygons through the GDSII writer's vertex limit (C01; filtered out by C12's runner)
        \/ \E i \in DOMAIN Polys, lim \in Limits \cup {0, 4}, s \in Scalings :
              case = [k |-> "gdsfrac", p |-> Polys[i], ip |-> i, limit |-> lim, s |-> s]
        \* non-simple paths through the GDSII writer (C01): flexible and robust, 1-2 elements
        \/ \E sp \in PathSpines, wo \in PathWidths, en \in {0, 2}, jn \in {0, 1, 2}, rb \in BOOLEAN :
              /\ (rb => jn = 0)
              /\ \E lim \in {0, 6} :        \* with a vertex limit the outline polygons are fractured as well
                 case = [k |-> "gdspath", spine |-> sp, widths |-> wo[1], offs |-> wo[2], end |-> en, join |-> jn,
                         robust |-> rb, s |-> 4, ip |-> 0, limit |-> lim]
        \/ \E i \in DOMAIN Polys, c \in CutLists, ax \in {"x", "y"}, s \in Scalings :
              case = [k |-> "slice", p |-> Polys[i], ip |-> i, cuts |-> c, axis |-> ax, s |-> s]
Next == UNCHANGED case

\* the palette is made of simple polygons: every sample has winding -1, 0 or 1
Laws == ("p" \in DOMAIN case /\ case.k # "stair") => \A q \in FineSamples(-1, 12, 1) : Winding(FineOfUser(<<case.p>>, 1)[1], q) \in {-1, 0, 1}

AppendOpts == [format |-> "TXT", charset |-> "UTF-8",
               openOptions |-> <<"WRITE", "CREATE", "APPEND">>]
Export == Serialize(ToJson(case) \o "\n", IOEnv.GEN_OUT, AppendOpts).exitValue = 0
=============================================================================
