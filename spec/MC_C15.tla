------------------------------- MODULE MC_C15 -------------------------------
(* Histories of curve sections on integer control points, with the exact control   *)
(* polygon of every section computed by Paths.tla, and the shape primitives.        *)
EXTENDS Paths, Json, IOUtils
CONSTANTS Depth
VARIABLES case

Seg(p, r) == [k |-> "segment", p |-> p, rel |-> r]
Hor(x, r) == [k |-> "horizontal", x |-> x, rel |-> r]
Ver(y, r) == [k |-> "vertical", y |-> y, rel |-> r]
Cub(a, b, e, r) == [k |-> "cubic", c1 |-> a, c2 |-> b, e |-> e, rel |-> r]
CubS(b, e, r) == [k |-> "cubic_smooth", c2 |-> b, e |-> e, rel |-> r]
Qua(c, e, r) == [k |-> "quadratic", c |-> c, e |-> e, rel |-> r]
QuaS(e, r) == [k |-> "quadratic_smooth", e |-> e, rel |-> r]
Bez(p, r) == [k |-> "bezier", pts |-> p, rel |-> r]
Arc(rx, ry, a0, a1, rot) == [k |-> "arc", rx |-> rx, ry |-> ry, a0 |-> a0, a1 |-> a1, rot |-> rot]
Turn(r, a) == [k |-> "turn", r |-> r, a |-> a]
Par(f, r) == [k |-> "parametric", f |-> f, rel |-> r]
Itp(p, r) == [k |-> "interpolation", pts |-> p, rel |-> r]

Poly == {Seg(<<5, 0>>, FALSE), Seg(<<2, 3>>, TRUE), Hor(7, FALSE), Hor(-3, TRUE), Ver(4, FALSE), Ver(-2, TRUE),
         Cub(<<2, 0>>, <<4, 1>>, <<6, 3>>, FALSE),            \* gentle, does not double back
         Cub(<<1, 3>>, <<4, 3>>, <<5, 0>>, TRUE),             \* arch (doubles back)
         Cub(<<5, 5>>, <<0, 5>>, <<5, 0>>, TRUE),             \* loop / cusp
         Cub(<<3, 3>>, <<3, 3>>, <<6, 0>>, FALSE),            \* coincident controls
         Cub(<<2, 2>>, <<4, 4>>, <<6, 6>>, TRUE),             \* collinear
         Cub(<<0, 0>>, <<3, 1>>, <<4, 4>>, TRUE),             \* first control on the start point
         CubS(<<4, 2>>, <<6, 0>>, FALSE), CubS(<<2, -2>>, <<4, 0>>, TRUE),
         Qua(<<3, 3>>, <<6, 0>>, FALSE), Qua(<<2, 0>>, <<4, 1>>, TRUE), Qua(<<1, 1>>, <<2, 2>>, TRUE),
         QuaS(<<6, 2>>, FALSE), QuaS(<<3, -1>>, TRUE),
         Bez(<< <<1, 2>>, <<3, 3>>, <<5, 2>>, <<6, 0>> >>, FALSE),
         Bez(<< <<1, 0>>, <<2, 1>>, <<3, 3>>, <<4, 6>> >>, TRUE),
         Bez(<< <<2, 2>>, <<4, 0>> >>, TRUE)}
Arcs == {Arc(4, 4, 0, 90, 0), Arc(2, 2, 90, -180, 0), Arc(3, 3, 0, 540, 0), Arc(1, 1, 180, 90, 0),
         Arc(8, 1, 0, 20, 0), Arc(8, 1, -30, 30, 0), Arc(10, 1, 80, 100, 0), Arc(3, 6, 10, 200, 30),
         Arc(5, 5, 17, 143, 0),
         \* elliptical arcs whose angles relative to the axes fall below -180 degrees at one end only
         \* (clockwise across -180, rotated axes) and at both ends, and more than a turn clockwise
         Arc(3, 6, -150, -250, 0), Arc(6, 2, -20, 40, 170), Arc(6, 2, -200, -300, 0), Arc(5, 2, -170, -560, 0),
         Turn(2, 90), Turn(3, -135), Turn(1, 400),
         Par("wave", TRUE), Par("wave", FALSE), Itp(<< <<2, 2>>, <<5, 1>>, <<7, 4>> >>, FALSE),
         Itp(<< <<1, 1>>, <<3, 0>> >>, TRUE)}
All == Poly \cup Arcs
Tols == IF Depth = "thorough" THEN {-1, 0, 1, 2, 3, 5} ELSE {0, 2, 5}      \* tolerance = 10^-k
Secs1 == {<<s>> : s \in All}
Secs2 == {<<a, b>> : a \in All, b \in Poly \cup {Turn(2, 90), Arc(4, 4, 0, 90, 0), Arc(8, 1, 0, 20, 0)}}
Secs3 == {<<a, b, c>> : a \in {Cub(<<1, 3>>, <<4, 3>>, <<5, 0>>, TRUE), Seg(<<2, 3>>, TRUE), Arc(4, 4, 0, 90, 0)},
                        b \in {CubS(<<2, -2>>, <<4, 0>>, TRUE), QuaS(<<3, -1>>, TRUE), Bez(<< <<1, 0>>, <<2, 1>>, <<3, 3>>, <<4, 6>> >>, TRUE), Turn(2, 90)},
                        c \in {CubS(<<4, 2>>, <<6, 0>>, FALSE), QuaS(<<3, -1>>, TRUE), Turn(3, -135), Seg(<<2, 3>>, TRUE)}}
Histories == Secs1 \cup Secs2 \cup Secs3

Prims == {[p |-> "rectangle", a |-> <<1, 2>>, b |-> <<5, 4>>], [p |-> "rectangle", a |-> <<3, 3>>, b |-> <<-2, -1>>],
          [p |-> "cross", c |-> <<2, 3>>, full |-> 10, arm |-> 2], [p |-> "cross", c |-> <<0, 0>>, full |-> 4, arm |-> 4],
          [p |-> "regular_polygon", c |-> <<1, 1>>, side |-> 2, n |-> 3, rot |-> 0],
          [p |-> "regular_polygon", c |-> <<0, 0>>, side |-> 3, n |-> 8, rot |-> 30],
          [p |-> "ellipse", c |-> <<0, 0>>, rx |-> 5, ry |-> 5, irx |-> 0, iry |-> 0, a0 |-> 0, a1 |-> 0],
          [p |-> "ellipse", c |-> <<2, 1>>, rx |-> 8, ry |-> 1, irx |-> 0, iry |-> 0, a0 |-> 0, a1 |-> 0],
          [p |-> "ellipse", c |-> <<0, 0>>, rx |-> 6, ry |-> 4, irx |-> 3, iry |-> 2, a0 |-> 0, a1 |-> 0],
          [p |-> "ellipse", c |-> <<0, 0>>, rx |-> 5, ry |-> 5, irx |-> 0, iry |-> 0, a0 |-> 20, a1 |-> 250],
          [p |-> "ellipse", c |-> <<0, 0>>, rx |-> 6, ry |-> 3, irx |-> 2, iry |-> 1, a0 |-> -45, a1 |-> 100],
          [p |-> "racetrack", c |-> <<0, 0>>, len |-> 6, r |-> 2, ir |-> 0, vertical |-> FALSE],
          [p |-> "racetrack", c |-> <<1, 1>>, len |-> 3, r |-> 3, ir |-> 1, vertical |-> TRUE],
          [p |-> "fillet", side |-> 8, r |-> 2], [p |-> "fillet", side |-> 8, r |-> 3],
          \* rectangles whose short side forces the radius to be clamped (both orientations), and one that fits
          [p |-> "fillet", side |-> 10, side2 |-> 1, r |-> 2], [p |-> "fillet", side |-> 1, side2 |-> 10, r |-> 2],
          [p |-> "fillet", side |-> 8, side2 |-> 3, r |-> 1],
          [p |-> "ellipse", c |-> <<0, 0>>, rx |-> 8, ry |-> 1, irx |-> 0, iry |-> 0, a0 |-> -20, a1 |-> 20],
          [p |-> "ellipse", c |-> <<0, 0>>, rx |-> 8, ry |-> 1, irx |-> 4, iry |-> 1, a0 |-> 0, a1 |-> 30],
          \* slices given with angles below -180 degrees (one end, both ends)
          [p |-> "ellipse", c |-> <<0, 0>>, rx |-> 6, ry |-> 3, irx |-> 2, iry |-> 1, a0 |-> -200, a1 |-> -140],
          [p |-> "ellipse", c |-> <<1, 0>>, rx |-> 3, ry |-> 6, irx |-> 0, iry |-> 0, a0 |-> -250, a1 |-> -100],
          [p |-> "ellipse", c |-> <<0, 0>>, rx |-> 6, ry |-> 3, irx |-> 0, iry |-> 0, a0 |-> -300, a1 |-> -200]}

Annotate(secs) == LET sts == RunStates(Init0, secs, 1) IN
    [i \in DOMAIN secs |-> [sec |-> secs[i], ctrl |-> CtrlFor(sts[i], secs[i]),
                            xl |-> sts[i].xl, xc |-> sts[i].xc]]
\* sections that have a command letter (segment h v, cubic and quadratic with their smooth forms, turn, arc)
HasLetter(sec) == sec.k \in {"segment", "horizontal", "vertical", "cubic", "cubic_smooth", "quadratic",
                             "quadratic_smooth", "turn", "arc"}
CmdHistories == {h \in Secs2 \cup Secs3 : \A i \in DOMAIN h : HasLetter(h[i])}
\* closed interpolations: knots x which knots carry an angle constraint x tensions (quarters) x the
\* knot the second construction starts from
Knots4 == << <<0, 0>>, <<6, 1>>, <<7, 6>>, <<1, 5>> >>
Knots5 == << <<0, 0>>, <<5, -1>>, <<8, 3>>, <<4, 7>>, <<-1, 4>> >>
ItpClosed == {[k |-> "itpclosed", pts |-> K, ang |-> [i \in DOMAIN K |-> A[((i - 1) % 4) + 1]],
               cons |-> [i \in DOMAIN K |-> i \in C], tens |-> [i \in DOMAIN K |-> T[((i - 1) % 3) + 1]],
               shift |-> sh, tol |-> 3] :
                K \in {Knots4, Knots5}, A \in {<<30, 100, 200, -60>>}, C \in {{}, {1}, {2}, {3}, {2, 4}},
                T \in {<< <<4, 4>>, <<4, 4>>, <<4, 4>> >>, << <<4, 6>>, <<3, 4>>, <<8, 5>> >>}, sh \in {1, 2, 3}}
Init == \/ case \in ItpClosed
        \/ \E h \in Histories, t \in Tols : case = [k |-> "curve", tol |-> t, secs |-> Annotate(h)]
        \/ \E h \in CmdHistories, t \in {2} : case = [k |-> "curve", tol |-> t, secs |-> Annotate(h), cmd |-> TRUE]
        \/ \E p \in Prims, t \in Tols : case = [k |-> "prim", tol |-> t] @@ p
        \* fillets also at a coarse tolerance (few segments per corner) in every tier
        \/ \E r \in {2, 3} : case = [k |-> "prim", tol |-> 1, p |-> "fillet", side |-> 8, r |-> r]
Next == UNCHANGED case

\* theorems: smooth continuations are tangent continuous whenever the previous control point is
\* known exactly, and a history of exact sections keeps the state exact
Laws == case.k = "curve" =>
    LET secs == [i \in DOMAIN case.secs |-> case.secs[i].sec]
        sts == RunStates(Init0, secs, 1)
    IN  \A i \in DOMAIN secs :
           /\ (secs[i].k \in {"cubic_smooth", "quadratic_smooth"} /\ sts[i].xl /\ sts[i].xc
               /\ sts[i].last # sts[i].lctrl)
                 => TangentContinuous(sts[i], ControlsOf(sts[i], secs[i]))
           /\ (secs[i].k \in Polynomial /\ sts[i].xl /\ sts[i].xc) => (sts[i + 1].xl /\ sts[i + 1].xc)

AppendOpts == [format |-> "TXT", charset |-> "UTF-8",
               openOptions |-> <<"WRITE", "CREATE", "APPEND">>]
Export == Serialize(ToJson(case) \o "\n", IOEnv.GEN_OUT, AppendOpts).exitValue = 0
=============================================================================
