"""C05 — boolean operations compute the set-theoretic result.  DESIGN.md §4 C05."""
import json
import os

from . import core
from .c20 import render


def run(rep, tier, seed):
    core.build("rel")
    d = core.rundir("C05")
    hb = core.hbin("h_geo")
    gen = os.path.join(d, "gen.ndjson")
    open(gen, "w").close()
    render(os.path.join(core.SPEC, "MC_C05.cfg.in"), os.path.join(d, "MC_C05.cfg"), DEPTH=tier)
    r = core.tlc("MC_C05", "MC_C05.cfg", d, workers=12, env=dict(GEN_OUT=gen), heap="6g")
    rep.add_model("boolean-operands", r)
    obs = os.path.join(d, "obs.ndjson")
    core.run([hb, gen, obs], timeout=3000)
    v = core.validate("C05Trace", "C05Trace.cfg", d, obs, nparts=16, boundary=None)
    n = core.count_lines(gen)
    rep.add_validation("boolean-trace", v, n, distinct=n)
    rep.cov.update(operations_per_case=6, sample_points_per_operation=196)
    gl = core.read_ndjson(gen, 2000)
    rep.cov["samples"] += [gl[len(gl) // 3], gl[-1]]
    for line, why, fn in v["rejects"]:
        rp = os.path.join(d, "replay", "c05_%d.ndjson" % line)
        os.makedirs(os.path.dirname(rp), exist_ok=True)
        ev = json.loads(core.extract_execution(obs, line, rp, boundary="{"))
        g = ev.get("g", {})
        sig = "C05 %s a=%s b=%s s=%s %s" % (ev.get("e"), g.get("ia"), g.get("ib"), g.get("s"),
                                             why[:160])
        rep.violation(sig, rp, why[:300])
    return rep.finish(rule="all ordered pairs of 20 operand groups (rectangles in both "
                           "orientations, L/U/comb, triangles and a diamond, touching at an edge "
                           "or vertex, nested, keyhole input, multi-polygon and empty groups) x 4 "
                           "operations + 2 merges x scalings {1, 8, 100}; 196 exact sample points "
                           "per result, skipping those within 1.5 grid units of a non-Manhattan "
                           "operand edge; distinct_nontrivial = operand pairs x scalings")
