"""C19 — number encodings used by the file formats are lossless.  DESIGN.md §4 C19."""
import json
import os

from . import core
from .c20 import render


def run(rep, tier, seed):
    core.build("rel")
    d = core.rundir("C19")
    hb = core.hbin("h_c19")
    gen = os.path.join(d, "gen.ndjson")
    open(gen, "w").close()
    render(os.path.join(core.SPEC, "MC_Codec.cfg.in"), os.path.join(d, "MC_Codec.cfg"),
           SMALLMAX=130 if tier == "quick" else 600, KSTEP=5 if tier == "quick" else 1)
    r = core.tlc("MC_Codec", "MC_Codec.cfg", d, workers=1, env=dict(GEN_OUT=gen), heap="6g")
    rep.add_model("codec-cases", r)
    r2 = core.tlc("MC_Codec", "MC_CodecThm.cfg", d, workers=1, tag="codec-roundtrip")
    rep.add_model("codec-roundtrip-theorem", r2)
    obs = os.path.join(d, "obs.ndjson")
    nrand = 150 if tier == "quick" else 3000
    core.run([hb, gen, obs, str(seed), str(nrand)], timeout=3000)
    v = core.validate("C19Trace", "C19Trace.cfg", d, obs, nparts=16, boundary=None)
    n = core.count_lines(obs)
    rep.add_validation("codec-trace", v, n, distinct=core.count_lines(gen))
    gl = core.read_ndjson(gen, 100000)
    rep.cov["samples"] += [gl[0], gl[len(gl) // 3], gl[-1]]
    for line, why, fn in v["rejects"]:
        rp = os.path.join(d, "replay", "c19_%d.ndjson" % line)
        os.makedirs(os.path.dirname(rp), exist_ok=True)
        ev = json.loads(core.extract_execution(obs, line, rp, boundary="{"))
        g = ev.get("g") or {}
        sig = "C19 %s %s %s" % (g.get("k"), g.get("kind", ""), why)
        if g.get("kind") == "real" and g.get("k") == "enc":
            sig += " type=%s" % (ev.get("bytes") or [None])[0]
        rep.violation(sig, rp, "codec case rejected at log line %d: %s" % (line, why))
    rep.assumptions += ["signed integers and deltas are sign-magnitude with magnitudes below 2^63",
                        "non-minimal integer forms are enumerated up to 10 bytes",
                        "ratio reals use numerators/denominators below 2^53 (exactly "
                        "representable), so a conforming reader's division is correctly rounded"]
    return rep.finish(rule="TLC-enumerated byte strings (every legal form of boundary-family and "
                           "small values, all real types, all point-list types) decoded by gdstk; "
                           "TLC-chosen and seeded random values encoded by gdstk and decoded by "
                           "the specification's strict decoder; distinct_nontrivial = distinct "
                           "generated cases")
