"""C07 — FlexPath outlines are the region swept by width and offset along the spine. DESIGN §4 C07."""
import json
import os

from . import core
from .c20 import render


def run(rep, tier, seed):
    core.build("rel")
    d = core.rundir("C07")
    hb = core.hbin("h_path")
    gen = os.path.join(d, "gen.ndjson")
    open(gen, "w").close()
    render(os.path.join(core.SPEC, "MC_C07.cfg.in"), os.path.join(d, "MC_C07.cfg"), DEPTH=tier)
    r = core.tlc("MC_C07", "MC_C07.cfg", d, workers=12, env=dict(GEN_OUT=gen), heap="8g")
    rep.add_model("flexpath-cases(region semantics consistent)", r)
    obs = os.path.join(d, "obs.ndjson")
    core.run([hb, gen, obs], timeout=3000)
    v = core.validate("C07Trace", "C07Trace.cfg", d, obs, nparts=16, boundary=None, heap="4g")
    n = core.count_lines(gen)
    rep.add_validation("flexpath-trace", v, n, distinct=n)
    gl = core.read_ndjson(gen, 3000)
    rep.cov["samples"] += [gl[3], gl[-1]]
    for line, why, fn in v["rejects"]:
        rp = os.path.join(d, "replay", "c07_%d.ndjson" % line)
        os.makedirs(os.path.dirname(rp), exist_ok=True)
        ev = json.loads(core.extract_execution(obs, line, rp, boundary="{"))
        g = ev.get("g", {})
        if g.get("k") == "fpbook":
            sig = "C07 book nel=%s %s %s" % (g.get("nel"), "+".join(c["sec"]["k"] for c in g["calls"]), why[:160])
        elif g.get("k") == "fpbend":
            sig = "C07 bend npts=%s w=%s o=%s r=%s ends=%s %s" % (len(g.get("spine", [])), g.get("w"), g.get("o"),
                                                             g.get("r"), g.get("ends"), why[:160])
        else:
            el = (g.get("els") or [{}])[0]
            hw = el.get("hw", [])
            sig = "C07 region join=%s end=%s ext=%s taper=%s npts=%s %s" % (
                el.get("join"), el.get("end"), el.get("ext"), len(set(hw)) > 1,
                len(g.get("spine", [])), why[:160])
        rep.violation(sig, rp, why[:300])
    # (d) corners at non-right angles: exact lattice cases with their own generator and trace module
    gen2 = os.path.join(d, "gen_corner.ndjson")
    open(gen2, "w").close()
    r2 = core.tlc("MC_C07Corner", "MC_C07Corner.cfg", d, workers=1, env=dict(GEN_OUT=gen2), heap="2g")
    rep.add_model("flexpath-corner-cases(rectangles and tan(turn/2) consistent)", r2)
    obs2 = os.path.join(d, "obs_corner.ndjson")
    core.run([hb, gen2, obs2], timeout=3000)
    v2 = core.validate("C07CornerTrace", "C07CornerTrace.cfg", d, obs2, nparts=16, boundary=None, heap="3g")
    n2 = core.count_lines(gen2)
    rep.add_validation("flexpath-corner-trace", v2, n2, distinct=n2)
    for line, why, fn in v2["rejects"]:
        rp = os.path.join(d, "replay", "c07_corner_%d.ndjson" % line)
        os.makedirs(os.path.dirname(rp), exist_ok=True)
        ev = json.loads(core.extract_execution(obs2, line, rp, boundary="{"))
        g = ev.get("g", {})
        rep.violation("C07 corner join=%s spine=%s %s" % (g.get("join"), g.get("spine"), why[:160]), rp, why[:300])
    return rep.finish(rule="(a) every construction call kind (16, incl. command strings and repeated "
                           "points) x width/offset given or not x 1..3 elements, and pairs of calls: "
                           "one width/offset entry per spine point; (b) 6 Manhattan spines x 4 width "
                           "patterns (constant, tapering, alternating) x offsets x 4 joins x 4 end "
                           "caps, 2 elements each: 1517 exact sample points per element judged by "
                           "SureIn / SureOut; (c) circular bends: 5 spines (one corner, two corners sharing a "
                           "short leg, 45 degrees, leg too short, three turns) x 2 widths x 3 offsets x 2 "
                           "radii x 2 end caps, outline measured against every admissible set of bent "
                           "corners, and the PATH centre line against the same centre curves; (d) one corner at 10 "
                           "non-right and right angles (3-4-5 directions) x 3 joins x both directions: exact "
                           "lattice tests (segment rectangles covered, nothing beyond the miter tip); "
                           "distinct_nontrivial = cases")
