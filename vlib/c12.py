"""C12 — fracturing and slicing partition a polygon without changing the region. DESIGN §4 C12."""
import json
import os

from . import core
from .c20 import render


def keep(gen, pred):
    lines = [l for l in open(gen) if l.strip() and pred(json.loads(l)["k"])]
    with open(gen, "w") as f:
        f.writelines(lines)


def vertex_limit_leg(rep, d, tier, pid="C01"):
    """C01: polygons longer than the vertex limit through write_gds / read_gds (region equality)"""
    hb = core.hbin("h_geo")
    gen = os.path.join(d, "gen_frac.ndjson")
    open(gen, "w").close()
    render(os.path.join(core.SPEC, "MC_C12.cfg.in"), os.path.join(d, "MC_C12.cfg"), DEPTH=tier)
    r = core.tlc("MC_C12", "MC_C12.cfg", d, workers=12, env=dict(GEN_OUT=gen), heap="6g",
                 tag="gds-vertex-limit-cases")
    rep.add_model("gds-vertex-limit-cases", r)
    keep(gen, lambda k: k in ("gdsfrac", "gdspath"))
    obs = os.path.join(d, "obs_frac.ndjson")
    tmp = os.path.join(d, "tmp")
    os.makedirs(tmp, exist_ok=True)
    core.run([hb, gen, obs, tmp], timeout=3000)
    v = core.validate("C12Trace", "C12Trace.cfg", d, obs, nparts=16, boundary=None)
    n = core.count_lines(gen)
    rep.add_validation("gds-vertex-limit(write_gds max_points -> read_gds, region equality)", v, n,
                       distinct=n)
    for line, why, fn in v["rejects"]:
        rp = os.path.join(d, "replay", "frac_%d.ndjson" % line)
        os.makedirs(os.path.dirname(rp), exist_ok=True)
        ev = json.loads(core.extract_execution(obs, line, rp, boundary="{"))
        g = ev.get("g", {})
        sig = "%s %s poly=%s limit=%s s=%s %s" % (pid, ev.get("e"), g.get("ip"), g.get("limit"),
                                                g.get("s"), why[:120])
        rep.violation(sig, rp, why[:300])


def run(rep, tier, seed):
    core.build("rel")
    d = core.rundir("C12")
    hb = core.hbin("h_geo")
    gen = os.path.join(d, "gen.ndjson")
    open(gen, "w").close()
    render(os.path.join(core.SPEC, "MC_C12.cfg.in"), os.path.join(d, "MC_C12.cfg"), DEPTH=tier)
    r = core.tlc("MC_C12", "MC_C12.cfg", d, workers=12, env=dict(GEN_OUT=gen), heap="6g")
    rep.add_model("fracture-slice-cases", r)
    keep(gen, lambda k: k not in ("gdsfrac", "gdspath"))
    obs = os.path.join(d, "obs.ndjson")
    core.run([hb, gen, obs], timeout=3000)
    v = core.validate("C12Trace", "C12Trace.cfg", d, obs, nparts=16, boundary=None)
    n = core.count_lines(gen)
    rep.add_validation("fracture-slice-trace", v, n, distinct=n)
    gl = core.read_ndjson(gen, 2000)
    rep.cov["samples"] += [gl[0], gl[-1]]
    for line, why, fn in v["rejects"]:
        rp = os.path.join(d, "replay", "c12_%d.ndjson" % line)
        os.makedirs(os.path.dirname(rp), exist_ok=True)
        ev = json.loads(core.extract_execution(obs, line, rp, boundary="{"))
        g = ev.get("g", {})
        sig = "C12 %s poly=%s limit=%s cuts=%s axis=%s s=%s %s" % (
            ev.get("e"), g.get("ip"), g.get("limit"), g.get("cuts"), g.get("axis"), g.get("s"),
            why[:120])
        rep.violation(sig, rp, why[:300])
    return rep.finish(rule="10 polygon families (octagon, spiral in both orientations, L with "
                           "collinear and repeated vertices, 1-unit sliver, star, combs with 14 "
                           "and 26 vertices, square, triangle) x vertex limits (0, 4, 5..12) x "
                           "precisions for fracture; x 8 sorted cut lists (inside, on and outside "
                           "the bounding box, repeated, empty) x 2 axes for slice; skylines of 442 and 602 "
                           "vertices in both walking directions x limits 5, 8 (area sum and "
                           "cover count on sampled cells); 196 exact "
                           "sample points; distinct_nontrivial = cases")
