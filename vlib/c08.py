"""C08 — RobustPath outlines follow their parametric spine, width and offset. DESIGN §4 C08."""
import json
import os

from . import core
from .c20 import render


def run(rep, tier, seed):
    core.build("rel")
    d = core.rundir("C08")
    hb = core.hbin("h_path")
    gen = os.path.join(d, "gen.ndjson")
    open(gen, "w").close()
    render(os.path.join(core.SPEC, "MC_C08.cfg.in"), os.path.join(d, "MC_C08.cfg"), DEPTH=tier)
    r = core.tlc("MC_C08", "MC_C08.cfg", d, workers=12, env=dict(GEN_OUT=gen), heap="6g")
    rep.add_model("robustpath-cases", r)
    obs = os.path.join(d, "obs.ndjson")
    core.run([hb, gen, obs], timeout=3000)
    v = core.validate("C08Trace", "C08Trace.cfg", d, obs, nparts=16, boundary=None, heap="4g")
    n = core.count_lines(gen)
    rep.add_validation("robustpath-trace", v, n, distinct=n)
    gl = core.read_ndjson(gen, 3000)
    rep.cov["samples"] += [gl[3], gl[-1]]
    rep.assumptions += ["[M] outline clearance: distances to the exact centre curve (2000 samples per "
                        "section) and point-in-outline tests are computed by the harness"]
    for line, why, fn in v["rejects"]:
        rp = os.path.join(d, "replay", "c08_%d.ndjson" % line)
        os.makedirs(os.path.dirname(rp), exist_ok=True)
        ev = json.loads(core.extract_execution(obs, line, rp, boundary="{"))
        g = ev.get("g", {})
        k = g.get("k")
        if k == "rpbook":
            sig = "C08 book %s %s" % ("+".join(c["sec"]["k"] for c in g["calls"]), why[:160])
        elif k == "rpxform":
            sig = "C08 after-%s %s+%s %s" % (g["xf"]["op"], g["first"]["k"], g["second"]["k"], why[:160])
        elif k == "rpcmd":
            sig = "C08 commands '%s' %s" % (g.get("s"), why[:160])
        else:
            shape = "+".join(s["k"] for s in g.get("secs", []))
            if g.get("poly"):
                shape = "polyline" + "".join("(%s,%s)" % tuple(s["p"]) for s in g["secs"])
            sig = "C08 region %s w=%s o=%s ends=%s %s" % (shape, g.get("w"), g.get("o"), g.get("ends"), why[:120])
        rep.violation(sig, rp, why[:300])
    return rep.finish(rule="(a) 14 section kinds x 4 width x 3 offset interpolations x 1-2 elements "
                           "and call pairs: exact end points, one interpolation entry per section, "
                           "width/offset queries at u = k, k+1/2, k+1, sections meeting without "
                           "gaps; (b) smooth / turn / parametric / segment sections appended after "
                           "rotate / translate / scale / mirror; (c) command strings; (d) measured "
                           "clearance of the outline for 4 spines x widths x offsets x flush/round "
                           "ends x 2 tolerances; distinct_nontrivial = cases")
