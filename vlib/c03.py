"""C03 — GDSII reader and writer agree with the format specification.  DESIGN.md §4 C03."""
import json
import os

from . import core
from .c20 import render


def gen_cases(rep, d, tier, name="MC_Gdsii"):
    gen = os.path.join(d, "gen.ndjson")
    open(gen, "w").close()
    render(os.path.join(core.SPEC, "MC_Gdsii.cfg.in"), os.path.join(d, "MC_Gdsii.cfg"),
           DEPTH=tier, EXPORT="Export")
    r = core.tlc("MC_Gdsii", "MC_Gdsii.cfg", d, workers=1, env=dict(GEN_OUT=gen), heap="8g")
    rep.add_model("gdsii-model(roundtrip,strict,prefixes)", r)
    r2 = core.tlc("MC_Gdsii", "MC_GdsiiThm.cfg", d, workers=1, tag="gdsii-reals")
    rep.add_model("gdsii-reals-theorem", r2)
    return gen


def forward(rep, d, gen, pid="C03"):
    hb = core.hbin("h_gds")
    obs = os.path.join(d, "obs_read.ndjson")
    tmp = os.path.join(d, "tmp")
    os.makedirs(tmp, exist_ok=True)
    core.run([hb, "read", gen, obs, tmp], timeout=3000)
    v = core.validate("C03Trace", "C03Trace.cfg", d, obs, nparts=16, boundary=None,
                      env=dict(GEN=gen), heap="4g")
    n = core.count_lines(gen)
    rep.add_validation("gdsii-forward(spec bytes -> read_gds)", v, n, distinct=n)
    g = core.read_ndjson(gen, 700)
    s = g[len(g) // 2]
    rep.cov["samples"].append(dict(part="forward", layout=s["lay"], choices=s["ch"],
                                   nbytes=len(s["bytes"])))
    gens = None
    for line, why, fn in v["rejects"]:
        rp = os.path.join(d, "replay", "read_%d.ndjson" % line)
        os.makedirs(os.path.dirname(rp), exist_ok=True)
        ev = json.loads(core.extract_execution(obs, line, rp, boundary="{"))
        if gens is None:
            gens = core.read_ndjson(gen)
        gc = gens[ev["i"]] if "i" in ev and ev["i"] < len(gens) else {}
        kinds = "+".join(e["kind"] for c in gc.get("lay", {}).get("cells", [])[:2]
                         for e in c["elems"])
        with open(rp, "a") as f:
            f.write(json.dumps(dict(case=gc)) + "\n")
        sig = "%s read %s omit=%s kinds=%s" % (pid, why, gc.get("ch", {}).get("omit"), kinds)
        rep.violation(sig, rp, "read_gds of a specification-encoded stream: %s" % why)


def run(rep, tier, seed):
    core.build("rel")
    d = core.rundir("C03")
    gen = gen_cases(rep, d, tier)
    forward(rep, d, gen)
    # reverse direction: files gdstk writes are decoded by the strict decoder inside TLC
    from . import c01
    gen_api = c01.api_cases(rep, d, tier)
    c01.roundtrip(rep, d, gen_api, "C03", file_only=True)
    return rep.finish(rule="TLC enumerates GDSII layouts x encoder choice vectors (element "
                           "palette incl. BOX, all path types, reflected/rotated AREF, TEXT "
                           "presentations, properties; all ordered element pairs; optional records, "
                           "ELFLAGS/PLEX, XY splitting, 5 UNITS entries x 3 target units) for read_gds, and "
                           "API-level libraries whose written files the strict decoder must accept "
                           "and decode to the saved library; "
                           "distinct_nontrivial = distinct generated streams")
