"""C15 — curves and shape primitives stay within tolerance of the exact geometry. DESIGN §4 C15."""
import json
import os

from . import core
from .c20 import render


def run(rep, tier, seed):
    core.build("rel")
    d = core.rundir("C15")
    hb = core.hbin("h_c15")
    gen = os.path.join(d, "gen.ndjson")
    open(gen, "w").close()
    render(os.path.join(core.SPEC, "MC_C15.cfg.in"), os.path.join(d, "MC_C15.cfg"), DEPTH=tier)
    r = core.tlc("MC_C15", "MC_C15.cfg", d, workers=12, env=dict(GEN_OUT=gen), heap="6g")
    rep.add_model("curve-histories(exact state, tangent continuity)", r)
    obs = os.path.join(d, "obs.ndjson")
    core.run([hb, gen, obs], timeout=3000)
    v = core.validate("C15Trace", "C15Trace.cfg", d, obs, nparts=16, boundary=None)
    n = core.count_lines(gen)
    rep.add_validation("curve-trace", v, n, distinct=n)
    gl = core.read_ndjson(gen, 4000)
    rep.cov["samples"] += [gl[7], gl[-1]]
    rep.assumptions += ["[M] clauses: distances between produced vertices and the exact curves are "
                        "measured by the harness (4000-point sampling + ternary refinement)"]
    for line, why, fn in v["rejects"]:
        rp = os.path.join(d, "replay", "c15_%d.ndjson" % line)
        os.makedirs(os.path.dirname(rp), exist_ok=True)
        ev = json.loads(core.extract_execution(obs, line, rp, boundary="{"))
        g = ev.get("g", {})
        if g.get("k") == "curve":
            ks = "+".join(s["sec"]["k"] + ("(rel)" if s["sec"].get("rel") else "") for s in g["secs"])
            sig = "C15 curve tol=1e-%s %s %s" % (g.get("tol"), ks, why[:200])
        else:
            sig = "C15 prim tol=1e-%s %s %s" % (g.get("tol"), g.get("p"), why[:200])
        rep.violation(sig, rp, why[:300])
    return rep.finish(rule="38 section instances (all 12 section kinds; cusps, coincident and "
                           "collinear controls, eccentric and rotated elliptical arcs, negative and "
                           "multi-turn sweeps) as single sections, all ordered pairs with a "
                           "polynomial/turn/arc second section, selected triples; x tolerances "
                           "10^0..10^-5; 15 primitive instances; distinct_nontrivial = cases")
