"""C17 — partial and alternative GDSII readers agree with the full reader.  DESIGN.md §4 C17."""
import json
import os

from . import core
from . import c01, c03


def run(rep, tier, seed):
    core.build("rel")
    d = core.rundir("C17")
    gen_spec = c03.gen_cases(rep, d, tier)
    gen_api = c01.api_cases(rep, d, tier)
    # file set: every F1/F3 stream, every k-th element-pair stream, every API-built library
    cases = os.path.join(d, "cases.ndjson")
    step = 9 if tier == "quick" else 2
    n_spec = n_api = 0
    with open(cases, "w") as out:
        for i, line in enumerate(open(gen_spec)):
            g = json.loads(line)
            two = len(g["lay"]["cells"]) == 2 and len(g["lay"]["cells"][1]["elems"]) == 2
            if two and (i + seed) % step:
                continue
            out.write(line)
            n_spec += 1
        for line in open(gen_api):
            out.write(line)
            n_api += 1
        # files with one long record (4095 vertices + the closing point = the first record longer than
        # 32 KiB, 8189 + closing point = the longest XY record the format allows); the harness builds
        # them, only counts are logged
        for n in ([100, 4094, 4095, 8189] if tier == "quick" else [100, 2000, 4093, 4094, 4095, 4096, 6000, 8188, 8189]):
            out.write(json.dumps(dict(k="biginfo", n=n, u=1)) + "\n")
            n_api += 1
    hb = core.hbin("h_gds")
    obs = os.path.join(d, "obs_partial.ndjson")
    tmp = os.path.join(d, "tmp")
    os.makedirs(tmp, exist_ok=True)
    core.run([hb, "partial", cases, obs, tmp], timeout=3000)
    v = core.validate("C17Trace", "C17Trace.cfg", d, obs, nparts=16, boundary=None, heap="4g")
    rep.add_validation("partial-readers", v, n_spec + n_api, distinct=n_spec + n_api)
    rep.cov["files_spec_encoded"] = n_spec
    rep.cov["files_gdstk_written"] = n_api
    ob = core.read_ndjson(obs, 3)[-1]
    rep.cov["samples"].append(dict(info=ob["info"], ts=ob["ts"], nfilters=len(ob["filters"]),
                                   nraw_subsets=len(ob["raws"]), file_bytes=len(ob["bytes"])))
    for line, why, fn in v["rejects"]:
        rp = os.path.join(d, "replay", "partial_%d.ndjson" % line)
        os.makedirs(os.path.dirname(rp), exist_ok=True)
        core.extract_execution(obs, line, rp, boundary="{")
        sig = "C17 partial %s" % why[:300]
        rep.violation(sig, rp, "partial reader disagrees with the decoded stream: %s" % why[:300])
    return rep.finish(rule="files = specification-encoded streams (all single-element and "
                           "multi-cell cases, a seed-dependent sample of element pairs) + every "
                           "API-built library written by gdstk; per file: gds_info, gds_units, "
                           "gds_timestamp get/set, 3-4 tag filters, 3 target units, 3-5 raw-cell "
                           "subsets; distinct_nontrivial = files")
