"""Common machinery for /verif/check: build, run TLC (model / generate / validate), evidence,
known-findings handling and exit codes.  The verdict on every property is TLC's: this file only
moves files around, counts, and turns TLC's REJECT lines into VIOLATION / KNOWN-FINDING lines."""
import concurrent.futures as cf
import json
import os
import re
import shutil
import subprocess
import sys
import time

VERIF = os.path.dirname(os.path.dirname(os.path.abspath(__file__)))
REPO = os.environ.get("VERIF_REPO", "/repo")
SPEC = os.path.join(VERIF, "spec")
BUILD = os.path.join(VERIF, "build")
EVID = os.environ.get("VERIF_EVIDENCE_DIR") or os.path.join(VERIF, "evidence")
JAR = "/opt/veriftools/tla/tla2tools.jar"
CMJAR = "/opt/veriftools/tla/CommunityModules-deps.jar"
NOISE = re.compile(r"^(Parsing|Semantic|Linting|WARNING: conda|Picked up JAVA)")


class Infra(Exception):
    """The machinery itself failed (build, SANY, JVM): exit 2, nothing is claimed."""


def log(*a):
    print(*a, flush=True)


def run(cmd, timeout=3600, env=None, cwd=None, check=True, capture=True):
    e = dict(os.environ)
    if env:
        e.update(env)
    p = subprocess.run(cmd, cwd=cwd, env=e, timeout=timeout,
                       stdout=subprocess.PIPE if capture else None,
                       stderr=subprocess.STDOUT if capture else None, text=True)
    if check and p.returncode != 0:
        raise Infra("command failed (%d): %s\n%s" % (p.returncode, " ".join(map(str, cmd)),
                                                     (p.stdout or "")[-3000:]))
    return p


def build(flavor="rel"):
    """(Re)build gdstk from /repo's current working tree plus the harnesses (incremental)."""
    t = time.time()
    p = run(["make", "-C", os.path.join(VERIF, "harness"), "-j16", "FLAVOR=" + flavor,
             "REPO=" + REPO], timeout=1800, check=False)
    if p.returncode != 0:
        raise Infra("build failed:\n" + p.stdout[-4000:])
    return time.time() - t


def hbin(name, flavor="rel"):
    return os.path.join(BUILD, flavor, name)


def rundir(pid):
    d = os.path.join(BUILD, "run", pid)
    shutil.rmtree(d, ignore_errors=True)
    os.makedirs(d)
    # TLC wants all modules side by side
    for f in os.listdir(SPEC):
        if f.endswith(".tla") or f.endswith(".cfg"):
            shutil.copy(os.path.join(SPEC, f), d)
    return d


class TlcResult:
    def __init__(self, out, rc, wall):
        self.out = out
        self.rc = rc
        self.wall = wall
        m = re.search(r"(\d[\d,]*) states generated, (\d[\d,]*) distinct states found", out)
        self.generated = int(m.group(1).replace(",", "")) if m else 0
        self.distinct = int(m.group(2).replace(",", "")) if m else 0
        m = re.search(r"depth of the complete state graph search is (\d+)", out)
        self.depth = int(m.group(1)) if m else 0
        self.ok = "No error has been found" in out or "Model checking completed" in out
        self.violated = re.findall(r"Invariant (\S+) is violated", out)
        self.rejects = []
        for m in re.finditer(r'^"REJECT (\d+) (.*)"$', out, re.M):
            self.rejects.append((int(m.group(1)), m.group(2).replace('\\"', '"')))
        self.reject_mentions = out.count("REJECT")
        self.printed = re.findall(r'^<<"STAT", (.*)>>$', out, re.M)


_tlc_counter = [0]


def tlc(module, cfg, cwd, workers=1, env=None, simulate=None, timeout=3000, heap="4g",
        extra=None, depth_first=False, tag=None):
    """Run TLC on cwd/module.tla with cwd/cfg.  Returns TlcResult; raises Infra on SANY/JVM
    failures (anything that is neither a clean finish nor an invariant/property violation)."""
    _tlc_counter[0] += 1
    meta = os.path.join(cwd, "meta_%s_%d_%d" % (tag or module, os.getpid(), _tlc_counter[0]))
    cmd = ["java", "-Xss64m", "-Xmx" + heap, "-XX:+UseParallelGC", "-XX:ParallelGCThreads=2",
           "-XX:CICompilerCount=2"]
    if depth_first:
        cmd.append("-Dtlc2.tool.queue.IStateQueue=StateDeque")
    cmd += ["-cp", JAR + ":" + CMJAR, "tlc2.TLC", "-workers", str(workers), "-metadir", meta,
            "-config", cfg]
    if simulate:
        cmd += ["-simulate", "num=%d" % simulate[0], "-depth", str(simulate[1])]
    if extra:
        cmd += extra
    cmd.append(module + ".tla")
    t = time.time()
    try:
        p = run(cmd, timeout=timeout, env=env, cwd=cwd, check=False)
    except subprocess.TimeoutExpired:
        raise Infra("TLC timed out on %s/%s" % (module, cfg))
    out = "\n".join(l for l in p.stdout.splitlines() if not NOISE.match(l))
    shutil.rmtree(meta, ignore_errors=True)
    with open(os.path.join(cwd, "tlc-%s.out" % (tag or module)), "w") as f:
        f.write(out)
    r = TlcResult(out, p.returncode, time.time() - t)
    if simulate and p.returncode == 0:
        r.ok = True
    if not r.ok and not r.violated and p.returncode not in (0,):
        # 12 = safety violation, 13 = liveness; everything else is infrastructure
        if p.returncode not in (12, 13):
            raise Infra("TLC failed on %s/%s (rc %d):\n%s" % (module, cfg, p.returncode,
                                                             out[-3000:]))
    return r


def split_trace(path, nparts, boundary='{"e":"Reset"'):
    """Split an ndjson log into <= nparts files at Reset boundaries. Returns
    [(file, first_line_index_in_original)], line indices are 1-based."""
    with open(path) as f:
        lines = f.readlines()
    if not lines:
        return []
    if boundary is None:
        # independent lines: deal them out round-robin so that expensive cases (which generators
        # tend to emit together) are spread over all validators
        n = max(1, min(nparts, len(lines)))
        res = []
        for p in range(n):
            fn = "%s.part%02d" % (path, p)
            with open(fn, "w") as f:
                f.writelines(lines[p::n])
            res.append((fn, ("rr", p, n)))
        return res
    starts = [i for i, l in enumerate(lines) if l.startswith(boundary)]
    if not starts or starts[0] != 0:
        starts = [0] + starts
    per = max(1, len(lines) // nparts)
    parts, cur = [], 0
    while cur < len(lines):
        target = cur + per
        nxt = next((s for s in starts if s >= target), len(lines))
        parts.append((cur, nxt))
        cur = nxt
    res = []
    for n, (a, b) in enumerate(parts):
        fn = "%s.part%02d" % (path, n)
        with open(fn, "w") as f:
            f.writelines(lines[a:b])
        res.append((fn, a))
    return res


def validate(module, cfg, cwd, trace_path, nparts=16, env=None, heap="3g", timeout=3000,
             boundary='{"e":"Reset"'):
    """Validate an implementation log with a trace module, in parallel chunks.
    Returns dict(events, rejects=[(global_line, text)], states, transitions, wall)."""
    parts = split_trace(trace_path, nparts, boundary)
    _last_validation.clear()
    _last_validation.update(module=module, cfg=cfg, cfg_text=open(os.path.join(cwd, cfg)).read(),
                            env=dict(env or {}), heap=heap)
    # description of this validation next to the log: lets tools/binding_selftest.py (and a later
    # replay) run the same trace module on a modified copy of the log
    with open(trace_path + ".validation.json", "w") as f:
        json.dump(dict(_last_validation, cwd=cwd, boundary=boundary), f)
    t = time.time()
    results = []

    def one(arg):
        fn, off = arg
        e = dict(env or {})
        e["TRACE"] = fn
        r = tlc(module, cfg, cwd, workers=1, env=e, heap=heap, timeout=timeout,
                tag="%s-%s" % (module, os.path.basename(fn)))
        return fn, off, r

    with cf.ThreadPoolExecutor(max_workers=min(16, max(1, len(parts)))) as ex:
        results = list(ex.map(one, parts))
    rejects, states, trans, events = [], 0, 0, 0
    for fn, off, r in results:
        with open(fn) as f:
            n = sum(1 for _ in f)
        events += n
        states += r.distinct
        trans += r.generated
        # acceptance: deterministic fold => one state per consumed line plus the initial one
        if r.violated:
            raise Infra("trace module invariant violated (%s) on %s:\n%s" %
                        (r.violated, fn, r.out[-2000:]))
        if r.distinct != n + 1:
            raise Infra("trace validation did not consume %s: %d states for %d lines\n%s" %
                        (fn, r.distinct, n, r.out[-2000:]))
        if r.reject_mentions != len(r.rejects):
            raise Infra("could not parse every REJECT line of %s" % fn)
        for ln, why in r.rejects:
            if isinstance(off, tuple):
                rejects.append(((ln - 1) * off[2] + off[1] + 1, why, fn))
            else:
                rejects.append((off + ln, why, fn))
    return dict(events=events, rejects=rejects, states=states, transitions=trans,
                wall=time.time() - t)


def read_ndjson(path, limit=None):
    out = []
    with open(path) as f:
        for i, l in enumerate(f):
            if limit is not None and i >= limit:
                break
            l = l.strip()
            if l:
                out.append(json.loads(l))
    return out


def count_lines(path):
    with open(path) as f:
        return sum(1 for _ in f)


# ------------------------------------------------------------------ known findings
def load_known():
    p = os.path.join(VERIF, "known_findings.json")
    if not os.path.exists(p):
        return []
    return json.load(open(p))["findings"]


class Report:
    """Collects violations for one property run and applies the known-findings policy."""

    def __init__(self, pid, tier, seed):
        self.pid, self.tier, self.seed = pid, tier, seed
        self.t0 = time.time()
        self.violations = []      # (signature, replay_path, description)
        self.sig_counts = {}
        self.known_hits = {}
        self.cov = dict(states=0, transitions=0, traces_validated_against_impl=0, samples=[],
                        evaluations=0, distinct_nontrivial=0, parts={})
        self.assumptions = []
        self.known = [k for k in load_known() if k["property"] == pid]

    def add_model(self, name, r):
        self.cov["states"] += r.distinct
        self.cov["transitions"] += r.generated
        self.cov["parts"][name] = dict(kind="model", distinct_states=r.distinct,
                                       states_generated=r.generated, depth=r.depth,
                                       wall_s=round(r.wall, 1))
        if r.violated or not r.ok:
            # the specification's own theorem failed: that is a machinery defect, not a verdict
            raise Infra("model leg %s failed: %s\n%s" % (name, r.violated, r.out[-3000:]))

    def add_validation(self, name, v, traces, distinct=None):
        self.cov["states"] += v["states"]
        self.cov["transitions"] += v["transitions"]
        self.cov["traces_validated_against_impl"] += traces
        self.cov["evaluations"] += v["events"]
        self.cov["parts"][name] = dict(kind="trace-validation", events=v["events"],
                                       traces=traces, rejected=len(v["rejects"]),
                                       wall_s=round(v["wall"], 1))
        if distinct is not None:
            self.cov["distinct_nontrivial"] += distinct
            self.cov["parts"][name]["distinct_nontrivial"] = distinct

    def violation(self, signature, replay, what):
        self.sig_counts[signature] = self.sig_counts.get(signature, 0) + 1
        for k in self.known:
            if k.get("status") == "known" and re.search(k["signature"], signature):
                self.known_hits.setdefault(k["signature"], [k, 0])[1] += 1
                return
        self.violations.append((signature, replay, what))

    def finish(self, level="model_checking", rule="", extra=None):
        wall = time.time() - self.t0
        for sig, (k, n) in self.known_hits.items():
            log("KNOWN-FINDING: property=%s %s (%d occurrence(s) this run)" %
                (self.pid, k["what"], n))
        shown = {}
        for sig, replay, what in self.violations:
            shown.setdefault(sig, []).append((replay, what))
        for sig, lst in shown.items():
            for replay, what in lst[:3]:
                log("VIOLATION property=%s replay=%s  %s :: %s" % (self.pid, replay, sig, what))
            if len(lst) > 3:
                log("  ... and %d more with signature '%s'" % (len(lst) - 3, sig))
        cov = dict(self.cov)
        cov["rule"] = rule
        if extra:
            cov.update(extra)
        if not cov["samples"]:
            cov["samples"] = ["(none)"]
        ev = dict(property_id=self.pid, tier=self.tier, seed=self.seed, level=level,
                  coverage=cov, assumptions=self.assumptions, wall_s=round(wall, 1),
                  violations=len(self.violations),
                  known_findings_observed=[k["what"] for k, n in self.known_hits.values()])
        os.makedirs(EVID, exist_ok=True)
        with open(os.path.join(EVID, self.pid + ".json"), "w") as f:
            json.dump(ev, f, indent=1)
        log("%s %s: %d violation(s), %d known finding(s), states=%d events=%d wall=%.0fs" %
            (self.pid, self.tier, len(self.violations), len(self.known_hits), cov["states"],
             cov["evaluations"], wall))
        return 1 if self.violations else 0


_lines_cache = {}


_last_validation = {}


def replay(pid, path):
    """Re-validate one recorded execution (a file written by extract_execution) with the trace
    module that rejected it.  Prints the rejection again; exit 1 if rejected, 0 if accepted."""
    meta_path = path + ".meta.json"
    if not os.path.exists(meta_path):
        raise Infra("no replay description next to %s" % path)
    meta = json.load(open(meta_path))
    d = rundir(pid + "_replay")
    cfg = "Replay_" + meta["cfg"]
    with open(os.path.join(d, cfg), "w") as f:
        f.write(meta["cfg_text"])
    env = dict(meta.get("env") or {})
    lines = [l for l in open(path) if l.strip() and not l.startswith('{"case"')]
    tr = os.path.join(d, "replay_trace.ndjson")
    with open(tr, "w") as f:
        f.writelines(lines)
    env["TRACE"] = tr
    r = tlc(meta["module"], cfg, d, workers=1, env=env, heap=meta.get("heap", "4g"), tag="replay")
    if r.distinct != len(lines) + 1:
        raise Infra("replay did not consume the trace: %d states for %d lines" % (r.distinct, len(lines)))
    for ln, why in r.rejects:
        log("VIOLATION property=%s replay=%s  rejected again at line %d: %s" % (pid, path, ln, why))
    if not r.rejects:
        log("replay of %s: accepted by %s (%d events)" % (path, meta["module"], len(lines)))
    return 1 if r.rejects else 0


def extract_execution(trace_path, line_no, out_path, boundary='{"e":"Reset"'):
    """Write the execution (Reset..next Reset) containing 1-based line_no to out_path."""
    if trace_path not in _lines_cache:
        _lines_cache.clear()
        with open(trace_path) as f:
            _lines_cache[trace_path] = f.readlines()
    lines = _lines_cache[trace_path]
    i = min(line_no - 1, len(lines) - 1)
    a = i
    while a > 0 and not lines[a].startswith(boundary):
        a -= 1
    b = i + 1
    while b < len(lines) and not lines[b].startswith(boundary):
        b += 1
    with open(out_path, "w") as f:
        f.writelines(lines[a:b])
    if _last_validation:
        with open(out_path + ".meta.json", "w") as f:
            json.dump(_last_validation, f)
    return lines[i]
