"""Writes /verif/MANIFEST.json from the table below (single source of truth)."""
import json
import os

VERIF = os.path.dirname(os.path.dirname(os.path.abspath(__file__)))

CHECKS = {
    "C20": dict(
        level="model_checking",
        technique="TLA+ spec (Containers/Props/Sort) model-checked by TLC; TLC-generated "
                  "transition-covering histories replayed on the real tables; recorded traces "
                  "validated by TLC against the spec actions",
        text="TLC proves, in a small scope, that the slot-array model of gdstk's four hash "
             "tables refines an abstract map (with home slots measured from gdstk's hash), that "
             "the property-list operators obey the ordered-multimap laws and that the transcribed "
             "sort routines return ordered permutations in all three regimes; one history per "
             "transition of those state graphs plus seeded long random histories is executed on "
             "the real code and every logged call is validated by TLC against the same actions.",
        note="Trusted: TLC, the harness projection (iteration content, get/has, typed property "
             "values), my transcription of map.hpp/sort.hpp. Not covered: allocation failure, "
             "capacities beyond 128.",
        design="4 C20"),
}

CHECKS["C16"] = dict(
    level="model_checking",
    technique="TLA+ spec LibGraph.tla model-checked by TLC (intent ghost invariant); one replayed "
              "edit history per transition of its state graph executed on a real gdstk Library; "
              "recorded projections and query results validated by TLC against the spec actions",
    text="TLC checks that under rename / replace (4 overloads) / remap / add / remove / copy every "
         "reference of every member cell keeps designating the object its author meant, and that "
         "top-level, dependency and tag queries equal their graph-theoretic definitions; every "
         "transition of that state graph (bounded history length) is replayed through the public "
         "API and the projected graph plus all query results after each call are validated by TLC. "
             "Histories include removing a cell that members still reference by pointer and replace_cell of a cell that is no longer in the library (references are updated, nothing is inserted); cell names differ in length and share prefixes.",
    note="Trusted: TLC, the harness projection (pointer identity mapped to object ids). Domain: "
         "unique member names, replaced objects are not brought back, raw cells needed by other "
         "raw cells are not replaced. Three initial library shapes (shared sub-cell, by-name refs to cells, raw cells and absent cells, two raw-cell files; more raw cells than cells; and library 2 of a pair sharing its cells with another library that replaced members by same-named objects of the other kind, i.e. stale cross-kind designations that each replace_cell overload resolves by name); tag t1 is the all-zero tag, tag maps are grown past their first capacity and reached through retractions (displaced entries, set(k,k) / del re-packing).",
    design="4 C16")

CHECKS["C11"] = dict(
    level="model_checking",
    technique="TLA+ spec Repetition.tla (offset bags, extrema, structural transform) checked by "
              "TLC over an enumerated scope; every enumerated case replayed on gdstk's Repetition "
              "and on apply_repetition of all five element kinds; results validated by TLC",
    text="TLC enumerates every repetition value of the scope (5 kinds, counts 0..3, spacings and "
         "lattice vectors of either sign incl. collinear ones, explicit lists with duplicates and "
         "zeros) x 36 lattice transforms, proves count = |offsets|, extrema span the offsets, and "
         "that the structural transform maps every vector linearly; each case is executed on the "
         "real code (count, offsets, extrema, copy, transform, apply on polygon / 2-element "
         "FlexPath / RobustPath / label / reference with properties) and the logged results are "
         "validated against the same operators. "
             "Also in scope: transforms applied through the element's own interface (Polygon::scale with two factors, mirror, rotate, transform on every element kind), which must map the carried repetition's vectors by the linear part, and the append contract of get_offsets / get_extrema (earlier content of the caller's array is kept).",
    note="Trusted: TLC, the harness's 'otherwise identical' comparison of copies (outline after "
         "de-duplicating doubled vertices, tags, properties). A count of 0 columns/rows is read as "
         "the empty lattice (no zero vector demanded). Exactness: integer lattice, Q = 10.",
    design="4 C11")

CHECKS["C19"] = dict(
    level="model_checking",
    technique="TLA+ spec Codec.tla/Bits.tla (bit-level OASIS integers, deltas, reals, point lists, "
              "GDSII real) checked by TLC; spec-emitted byte strings decoded by gdstk and "
              "gdstk-written bytes decoded by the spec's strict decoder inside TLC",
    text="The encodings are specified from the format definitions over arbitrary-precision bit "
         "sequences (nothing wide ever becomes a TLC integer). TLC checks Dec(f)=v for every legal "
         "form f of every value in the scope, emits those forms for gdstk's readers, and validates "
         "what the readers returned; gdstk's writers are run on TLC-chosen and seeded random values "
         "and TLC decodes the produced bytes strictly, checks that they denote exactly the value "
         "(correctly-rounded-quotient test for ratio reals, one ulp for the GDSII real) and that "
         "gdstk's own reader returns it.",
    note="Trusted: TLC, Bits.tla arithmetic, my reading of SEMI P39 section 7 and of the GDSII real. "
         "Signed magnitudes below 2^63; non-minimal forms up to 10 bytes; little-endian host only.",
    design="4 C19")

CHECKS["C03"] = dict(
    level="model_checking",
    technique="TLA+ spec Gdsii.tla (data model, framing, encoder with explicit choices, strict "
              "decoder) checked by TLC; spec-emitted streams loaded by read_gds and validated; "
              "gdstk-written files decoded by the strict decoder inside TLC",
    text="The GDSII stream format is specified from the format definition with an encoder whose "
         "free choices are explicit and a strict grammar decoder; TLC proves Decode(Encode(L,ch))=L, "
         "that dropping a mandatory record is rejected and that no prefix is accepted. Every "
         "enumerated (layout, choices) stream is loaded by read_gds and the projected library must "
         "equal the layout's meaning; libraries built through the API are saved and the written "
         "bytes must be accepted by the strict decoder and decode to the saved library.",
    note="Trusted: TLC, my transcription of the GDSII manual, harness projection. Element palette "
         "(26 elements, all ordered pairs), not arbitrary layouts; NODE/TEXTNODE excluded; AREF "
         "lattices consistent with the placement; multi-record XY only by splitting small lists.",
    design="4 C03")
CHECKS["C01"] = dict(
    level="model_checking",
    technique="TLA+ normal form Norm (GdsApi.tla) over Gdsii.tla's meaning; TLC-enumerated "
              "API-level libraries saved and re-loaded by gdstk over 3 cycles; projections "
              "validated by TLC against Norm",
    text="TLC enumerates API-level library descriptions on a quarter-dbu lattice (every element "
         "kind x every repetition kind x transforms x properties), the harness builds them with "
         "the C++ API and runs save/load three times; TLC checks each reloaded projection and the "
         "strictly decoded file against Norm(description) (rounding to the grid, repetitions "
         "expanded, arrays as placement sets, simple paths by centre line/width/end/extension, "
         "GDSII properties as maps, units and timestamps). "
             "Also: eighth-dbu libraries whose vertices AND repetition offsets are off the grid (copies must be round(vertex + offset)), and GDSII properties stored without a terminating NUL through the generic property interface.",
    note="Trusted: TLC, harness builder/projection. Polygons longer than the vertex "
         "limit and non-simple Flex/RobustPaths go through write_gds / read_gds and are compared as "
         "regions on exact sample points (Region.tla). Not covered: strings near 64 kB.",
    design="4 C01")
CHECKS["C17"] = dict(
    level="model_checking",
    technique="TLA+ views (Info, FilterM, RawViewM, Restamp) over the strictly decoded stream of "
              "Gdsii.tla; every partial reader run on spec-encoded and gdstk-written files; logs "
              "validated by TLC",
    text="For each file the harness runs gds_info, gds_units, gds_timestamp (get/set), read_gds "
         "with tag filters and target units, and read_rawcells -> write_gds -> read_gds; TLC decodes "
         "the same bytes strictly and checks every result against the corresponding view of the "
         "decoded stream (counts, tag sets, units, filtered / rescaled / raw-copied layouts, "
         "byte-exact restamping). "
             "Also: a copy made from raw cells (library record already carrying the requested stamp, cells carrying another) is restamped and compared byte for byte, and files holding one record longer than 32 KiB (polygons of up to 8189 vertices) go through every summary reader.",
    note="Trusted: TLC, Gdsii.tla decoder, harness projection. Files: C03's encoder cases and "
         "C01's API-built libraries.",
    design="4 C17")

CHECKS["C18"] = dict(
    level="fault_enumeration",
    technique="TLC proves no prefix of a spec-encoded stream is accepted (Gdsii.tla strict "
              "decoder); every cut of every file is run through every reader twice under ASan "
              "with descriptor accounting and crash/hang supervision; the log is validated by TLC "
              "against the per-reader outcome relation (C18Trace.tla)",
    text="Fault enumeration over all truncation points: for each file (specification-encoded "
         "GDSII, gdstk-written GDSII, gdstk-written OASIS with none/CRC32/checksum32 and CBLOCKs) "
         "and every prefix length, each reader is called twice in a supervised child built with "
         "AddressSanitizer; crashes, hangs and sanitizer aborts become trace events that no "
         "specification action accepts; TLC checks every call against the outcome relation of the "
         "property (error, or exactly the complete file's units/timestamp; never a valid signature "
         "for a truncated signed file; no descriptor left open).",
    note="Trusted: TLC, ASan, /proc/self/fd counting, the supervisor. read_oas is outside the "
         "property (DESIGN 6.3). Quick tier uses a sample of files, all their cuts.",
    design="4 C18")

CHECKS["C14"] = dict(
    level="model_checking",
    technique="TLA+ spec Region.tla/Base.tla (integer winding number, on-segment test, shoelace, "
              "integer square-root bounds) checked by TLC; exhaustive small-scope polygons x query "
              "points replayed on gdstk and validated by TLC",
    text="TLC enumerates every vertex list of length 0..4 on a 3x3 (thorough 4x4) grid and checks "
         "the membership laws (rotation/reversal invariance); gdstk's contain() is evaluated for "
         "each list at every point of the half-grid one cell beyond it (121 points), signed_area, "
         "area, perimeter with and without repetition, and the group queries inside / all_inside / "
         "any_inside / contain_all / contain_any on palette groups and point lists including empty "
         "ones; every result is compared by TLC with the exact integer semantics. "
             "Five polygons with long slanted edges (coordinates up to 31 units) are queried on every half-unit point of a 67 x 67 window, so that points exactly on a slanted edge far from its ends are decided; inside() is called twice with differently preset result buffers. Seven palette polygons and their query windows are also displaced by (+-)(2^e + f/8), e in {27,40} (exact doubles): by the model's translation-invariance law the answers and measures must equal those of the undisplaced list.",
    note="Trusted: TLC, Base.tla arithmetic. Coordinates are half-integers (exact doubles); "
         "bounded-exhaustive, not all polygons.",
    design="4 C14")

CHECKS["C05"] = dict(
    level="model_checking",
    technique="TLA+ spec Region.tla (exact winding-number membership on integer sample points, "
              "guard band by exact squared distances) ; TLC-enumerated operand pairs run through "
              "boolean(); results validated by TLC",
    text="For all ordered pairs of 20 operand groups x 4 operations (+ merges) x scalings, TLC "
         "checks on 196 exact sample points per result that membership in the output equals the "
         "set operation of the memberships in the operands (skipping only points within 1.5 grid "
         "units of a non-Manhattan operand edge), that at most one output polygon covers a point "
         "with winding +-1 (holes are zero-width slits), and the area identities (exact for "
         "Manhattan operands, within perimeter x grid otherwise). "
             "The same operations are repeated on a grid of 1e-9 (scaled coordinates beyond 32 bits): area identities hold there and each fine-grid area equals the coarse-grid one up to the coarse rounding allowance. "
             "A third run on a grid of 2^-34 with the operands squeezed into |x| < 2^30 and moved to y < -2^30 must give the same areas.",
    note="Trusted: TLC, Base/Region arithmetic. Clipper itself is vendored; the binding is on "
         "clipper_tools.cpp. Operands from a palette on a 12x12 grid, not arbitrary polygons. Every case is also run with both operands moved by (-6,-6) on the grid 2^-29 (scaled coordinates between 2^30 and 2^32 in magnitude, difference products beyond 2^64): areas must equal those of the 1e9 grid.",
    design="4 C05")

CHECKS["C12"] = dict(
    level="model_checking",
    technique="TLA+ spec Region.tla (exact membership in fine coordinates where samples can never "
              "lie on a grid line); TLC-enumerated polygons x limits x precisions x cut lists run "
              "through Polygon::fracture and slice(); results validated by TLC",
    text="TLC checks for every case that each fracture piece has at most the limit's vertices, "
         "that the pieces cover exactly the polygon's region and never overlap on exact sample "
         "points (guard band only along non-Manhattan edges), that tag, repetition and properties "
         "are copied to every piece, that a limit below 5 leaves the polygon alone, and that each "
         "slice bin holds exactly the part of the polygon between its two cuts (cuts inside, on "
         "and outside the bounding box, repeated and empty lists, both axes); hangs are events. "
             "fracture and slice are repeated on a grid of 1e-9 (the precision write_gds passes): the pieces add up to the coarse-grid area and respect the limit; the palette includes corners with mirrored slopes.",
    note="Trusted: TLC, Region.tla. 10 polygon families up to 26 vertices; the GDSII writer's use "
         "of the vertex limit is not yet re-checked through files. Skylines of 442 and 602 vertices walked right-to-left and left-to-right (limits 5, 8) are judged by exact area sum and cover count on sampled cells.",
    design="4 C12")
CHECKS["C13"] = dict(
    level="model_checking",
    technique="TLA+ spec Region.tla (conservative integer distance tests); TLC-enumerated operand "
              "groups x distances x joins x union x scalings run through offset(); results "
              "validated by TLC on exact sample points",
    text="Each case carries the parts whose dilation/erosion the result must be the union of (one "
         "per input polygon without the union option, the merged outline and holes with it; TLC "
         "proves the two descriptions cover the same points). TLC then checks that every sample "
         "surely closer than d is covered and none surely beyond the join's reach is (d>0), and "
         "symmetrically for erosion, with a guard of 1.5 grid units plus the round-join arc "
         "tolerance. "
             "A deep erosion (|d| = 5) of a fat L-shape puts sample points between the round join's arc and its chord at the reflex corner.",
    note="Trusted: TLC, Region.tla, my reach factors (round 1, bevel sqrt 2, miter = limit). One "
         "known finding (overlapping inputs, d<0, no union; vendored ClipperOffset).",
    design="4 C13")

CHECKS["C10"] = dict(
    level="model_checking",
    technique="TLA+ spec Hierarchy.tla/Base.tla (exact affine maps on a rational lattice, "
              "composition, rings up to rotation/orientation); TLC-enumerated operation sequences "
              "replayed on every element kind; results validated by TLC",
    text="TLC enumerates sequences of translate/scale/mirror/rotate/transform operations from a "
         "lattice palette (90/180 degrees and atan(4/3) rotations, 3-4-5 mirror axes, 1/2, 2 and "
         "negative magnifications, reflections) whose denominators keep every vertex on the grid, "
         "checks the composition laws, and for each case compares gdstk's outline after the "
         "operations with the affine image of the outline before, the path bookkeeping (spine, "
         "half-widths scaled only with scale_width, offsets scaled by |mag| and flipped under "
         "reflection, RobustPath trafo/width_scale/offset_scale), the transformed repetition "
         "offsets, and for labels/references the composition of placements.",
    note="Trusted: TLC, Base.tla; outlines are gdstk's own to_polygons on both sides (the law, not "
         "the outline, is under test here). Fixed element shapes (one polygon, 2-element paths, "
         "label, reference); end extensions and non-uniform scale not exercised.",
    design="4 C10")

CHECKS["C06"] = dict(
    level="model_checking",
    technique="TLA+ spec Hierarchy.tla (Flat = structural recursion composing exact affine maps "
              "over literal outlines; Flattened; denotation of results with residual repetitions); "
              "TLC-enumerated hierarchies and step sequences replayed on real cells; results "
              "validated by TLC",
    text="TLC enumerates the one-level product reflection x rotation (incl. +-atan(4/3)) x "
         "magnification x reference repetition x element kind x element repetition, chains of "
         "depth 3 and diamonds with shared sub-cells and dangling references, each with a sequence "
         "of steps (get_polygons/flexpaths/robustpaths/labels with repetitions applied or left "
         "attached, depth limits, tag filters per path element, deep copy + mutation, flatten, "
         "queries after flatten); for every step TLC compares the denotation of what gdstk "
         "returned (outline rings up to rotation/orientation and collinear vertices, expanded by "
         "residual repetitions) with Flat of the specification's hierarchy.",
    note="Trusted: TLC, Base/Hierarchy arithmetic; path outlines are opaque (gdstk's to_polygons "
         "of the untransformed element), scale_width = true. Quick tier samples 1/7 of the product.",
    design="4 C06")
CHECKS["C09"] = dict(
    level="model_checking",
    technique="same pipeline as C06: Hierarchy.tla's Flat gives the exact point set; BBox and "
              "HullOK (contains every point, corners are geometry points; overflow-safe cross "
              "products) are evaluated by TLC on gdstk's bounding_box / convex_hull results",
    text="For every hierarchy of C06 plus degenerate contents (empty, single point, horizontal, "
         "vertical and descending-diagonal collinear sets) under rotated/reflected references with "
         "explicit repetitions (incl. an offset extreme only along a diagonal), TLC checks the "
         "bounding box of cell and reference against the exact min/max of all flattened vertices "
         "and label positions, the inverted box of empty cells, and that each reported hull "
         "contains all geometry and has only geometry points as corners -- with a fresh cache and "
         "with one cache shared across queries in different orders.",
    note="Trusted: TLC, Hierarchy.tla. Caches are cleared by the harness when the cell changes "
         "(the property is about unchanged cells).",
    design="4 C09")

CHECKS["C15"] = dict(
    level="model_checking",
    technique="TLA+ spec Paths.tla (exact curve state machine on integer control points; bounds on "
              "measured deviations); TLC-generated section histories with spec-computed control "
              "polygons replayed on gdstk::Curve; state and quantised measurements validated by TLC",
    text="[S] exact: after every section the end point, the last control point (absolute, second "
         "to last control / reflection for smooth continuations), the vertex count and, for "
         "rectangle / cross, the documented vertices are compared with Paths.tla; TLC also proves "
         "tangent continuity of smooth continuations on the exact state. [M] measured: the harness "
         "measures, by dense sampling, that all new vertices are finite, lie on the exact curve in "
         "forward order (1e-6 of the feature), start and end where requested, and that the polyline "
         "stays within 1.5 tolerances of the exact curve for arcs and non-doubling-back polynomial "
         "sections, ellipses, rings, slices, racetracks and fillets; TLC decides over the quantised "
         "observations. "
             "Elliptical arcs and ellipse slices with angles below -180 degrees at one or both ends are included. "
             "Closed interpolations (angle constraints and tensions per knot) must give the same curve whichever knot they start from.",
    note="Trusted: TLC, Paths.tla, the harness's distance measuring (sampling + ternary search, "
         "~120 lines). Hobby interpolation only as 'passes through the points'; command strings "
         "are issued through Curve::commands one instruction at a time and as one array; fillets held "
         "to 2.25 tolerances (round-to-nearest segment count), not to exactness. Histories of polynomial sections are also replayed with each run of one kind issued as one Array call (relative points from the end point before the call): identical vertices and last control point are demanded.",
    design="4 C15")

CHECKS["C07"] = dict(
    level="model_checking",
    technique="TLA+ spec Paths.tla (FlexPath bookkeeping state machine; exact swept-region "
              "semantics SureIn/SureOut for Manhattan spines in quadrupled integer coordinates, "
              "proved consistent by TLC); TLC-enumerated construction histories and path "
              "descriptions replayed on gdstk::FlexPath; validated by TLC",
    text="(a) For every construction call kind (incl. command strings and repeated points), with "
         "and without width/offset targets, on 1..3 parallel elements, TLC checks that each call "
         "adds at least one spine point and exactly as many width/offset entries to every element, "
         "that the last entry is the requested target and that outlines can still be produced after "
         "overlapping points are removed. (b) For Manhattan spines x constant / tapering / "
         "alternating widths x offsets x natural / miter / bevel / round joins x flush / half-width "
         "/ extended / round caps, TLC checks on 1517 exact sample points per element that every "
         "point surely within half the local width of the centre line (spine displaced by the "
         "offset, mitred corners) or inside the cap is covered by gdstk's outline and that no point "
         "beyond the join's reach or the cap plane is. (c) Circular bends [M]: for one / two / "
         "three corners (90 and 45 degrees, short shared legs, legs too short) x widths x offsets x "
         "radii, the outline must be the swept region (3-tolerance band, as C08) of the line-and-arc "
         "centre curve for SOME admissible set of bent corners: tangent lengths fit into every leg "
         "and no further corner could be bent as well. "
             "Bend cases include diagonal legs mirrored about an axis-parallel line, and the centre line written to PATH records (element_center of the same path flagged simple) must follow the centre curve of an admissible set of bends. "
             "One corner at ten right and non-right angles (3-4-5 directions) x 3 joins x both directions is decided by exact lattice tests: the segment rectangles are covered and nothing beyond the mitre tip is.",
    note="Trusted: TLC, Paths.tla, the harness's floating-point winding-number test of samples "
         "against gdstk's outline and, for bends, its construction of the exact centre curve. Curved "
         "spines (arc / bezier sections) are not in the region check; bends only on one element; "
         "PATH-record equivalence follows from C01 for simple paths. One known finding (taper + "
         "negative extension).",
    design="4 C07")

CHECKS["C08"] = dict(
    level="model_checking",
    technique="TLA+ spec Paths.tla (RobustPath section-list state machine on a x3 integer lattice, "
              "exact interpolation values, continuity and clearance bounds); TLC-enumerated "
              "histories replayed on gdstk::RobustPath; exact state and quantised measurements "
              "validated by TLC",
    text="[S] exact: end point after every section, one width/offset interpolation entry per "
         "section and element, end widths/offsets, width and offset queries at u = k, k+1/2, k+1 "
         "for constant / linear / smooth interpolations, end points of command strings. [M] "
         "measured: adjacent sections meet (position from below = from above), smooth "
         "continuations / turn stay tangent and sections start at the end point also when appended "
         "after rotate / translate / scale / mirror, hangs are events, and every sample point "
         "surely within (beyond) half the width of the exact centre curve by more than 3 tolerances "
         "is (is not) covered by the outline. The transform algebra (trafo, width_scale, "
         "offset_scale) is checked under C10; PATH-record equivalence of simple paths under C01. "
             "Region cases include single sections whose offset runs linearly (slanted or bent centre curve), where caps and ends must follow the centre curve's tangent. "
             "Polyline paths (sharp corners; samples within the mitre's reach of a corner carry no claim) are included.",
    note="Trusted: TLC, Paths.tla, the harness's centre-curve sampling and point-in-outline test. "
         "User-function interpolations and end caps other than flush/round are not in the clearance "
         "check; warning codes (IntersectionNotFound) are accepted.",
    design="4 C08")

CHECKS["C04"] = dict(
    level="model_checking",
    technique="TLA+ spec Oasis.tla (strict record parser, modal-variable machine with one action per "
              "record kind, name-table resolution; Inflate.tla for CBLOCKs, CRC-32 / checksum) explored "
              "by TLC (exhaustive record pairs + random walks); generated files replayed through "
              "read_oas and files written by write_oas decoded by the specification; both validated by TLC",
    text="Forward: TLC walks the modal machine (every record kind and info-byte pattern incl. modal "
         "reuse, absolute / relative mode, all 12 repetition types, 6 point-list types, 8 real "
         "encodings, RECTANGLE / POLYGON / PATH / TRAPEZOID x3 / all 26 CTRAPEZOID types / CIRCLE / "
         "TEXT / PLACEMENT x2 / PROPERTY x2 / XNAME / XELEMENT / XGEOMETRY, names inline or through tables placed anywhere with "
         "implicit or explicit numbers, stored and fixed-Huffman CBLOCKs, PAD, LAYERNAME, signatures); "
         "TLC checks that every generated file is legal and decodes to the layout the machine built; "
         "each file is loaded by read_oas and the result must equal the strict decoder's layout "
         "(coordinates exact, circles [M] within tolerance, properties typed and ordered). Reverse: "
         "TLC-enumerated libraries x writer options are saved by write_oas; the strict decoder "
         "(incl. its own inflate) must accept the bytes, the layout must be the saved library on "
         "the grid, and the END record, table offsets and strict flags, CRC-32 / checksum signature "
         "and the S_* standard properties must be true of the file. "
             "The gdstk-written libraries include near misses of all 26 compact trapezoid shapes and references rotated by negative and multiple whole turns.",
    note="Trusted: TLC, Oasis.tla as my reading of SEMI P39 (no copy of the standard in the sandbox: "
         "CTRAPEZOID figures and TRAPEZOID deltas from memory), harness projection in 1/1000 grid "
         "unit, zlib for nothing (the specification inflates itself). Not generated: modal reuse of a dimension after a CTRAPEZOID type that does not use it, integers "
         "beyond 2^30 in geometry, dynamic-Huffman CBLOCKs on the forward side (decoded on the reverse side). "
         "S_BOUNDING_BOX is only checked for cells whose box is computable exactly (Manhattan paths, "
         "quarter-turn integer-magnification references).",
    design="4 C04")

CHECKS["C02"] = dict(
    level="model_checking",
    technique="TLA+ spec OasWriter.tla (Expect: the saved library on the precision grid; cycle "
              "relation) over Oasis.tla's data model; TLC-enumerated libraries x writer options "
              "replayed through write_oas / read_oas / oas_validate for 3 cycles; logs validated by TLC",
    text="TLC enumerates libraries (26 compact-trapezoid shapes in every vertex order, general "
         "trapezoids, rectangles / squares, Manhattan / octangular / general polygons, polygonal "
         "circles, simple 1-3 element paths with flush / half-width / extended (also negative) ends, "
         "labels, references by pointer, by name, dangling and to cells outside the library, every "
         "repetition kind with either sign, typed multi-valued properties, 32-bit tags, quarter-grid "
         "coordinates) x options (all 256 flag sets, deflate levels 0-9, circle tolerance 0 / > 0); "
         "every case is saved and reloaded; the reload must equal the library with every coordinate "
         "rounded to the grid (polygons as rings, repetitions as offset bags, properties exactly, "
         "detected circles [M] inside a tolerance annulus), later save/load cycles must reproduce "
         "the first reload, the grid must not drift and a requested signature must validate. "
             "The libraries include near misses of all 26 compact trapezoid shapes (one vertex moved) and references rotated by negative and multiple whole turns; a reloaded polygon may differ from the saved one only if the saved one is itself a circle within the tolerances. "
             "Properties with 14, 15 and 16 values (around the PROPERTY info byte's 4-bit count) are included.",
    note="Trusted: TLC, harness projection. Standard properties are excluded from the cycle "
         "comparison (they are recomputed per save; their truth is C04's clause). Simple RobustPaths made of straight sections are included; paths with offsets or round ends are outside the property's quantifier and not generated. "
         "thorough sweeps the full 256 x 10 x 2 option product; quick samples all 256 flag sets once.",
    design="4 C02")

NOT_YET = {}


def main():
    props = [json.loads(l) for l in open(os.path.join(VERIF, "properties.jsonl"))]
    checks = []
    na = []
    for p in props:
        pid = p["id"]
        if pid in CHECKS:
            c = CHECKS[pid]
            checks.append(dict(
                property_id=pid,
                quick_cmd="./check %s --tier quick" % pid,
                thorough_cmd="./check %s --tier thorough" % pid,
                evidence_file="evidence/%s.json" % pid,
                replay_cmd_template="./check %s --replay {path}" % pid,
                engine="tlc",
                level_claimed=dict(category=c["level"], text=c["text"],
                                   design_ref="DESIGN.md " + c["design"]),
                level_note=c["note"],
                technique=c["technique"]))
        else:
            na.append(dict(property_id=pid, reason=NOT_YET.get(
                pid, "check not built yet in this round (planned with the same TLA+ technique, "
                     "see DESIGN.md section 4)")))
    m = dict(
        version=1,
        setup_cmd="make -C harness -j16 FLAVOR=rel && make -C harness -j16 FLAVOR=asan",
        hooks=dict(guard="GDSTK_VERIF",
                   enable="checks compile /repo's sources with -DGDSTK_VERIF (harness/Makefile); "
                          "no hook exists in the sources so far",
                   baseline_off_cmd="cmake --build /repo/_build --target examples && ctest --test-dir "
                                    "/repo/_build -j8 --timeout 900",
                   source_commits=[], add_only=True),
        engines=[dict(name="tlc", path="/opt/veriftools/tla/tla2tools.jar",
                      serves_properties=sorted(CHECKS),
                      kind_free_text="TLC model checker: model leg, behaviour generation, and "
                                     "trace validation of logs recorded from the implementation")],
        checks=checks,
        notes="Entry point ./check <id> --tier quick|thorough [--seed N]. Exit 0/1/2 = held / "
              "violation / machinery failure. Specs in spec/, harnesses in harness/, runner in "
              "vlib/. Known findings: known_findings.json.",
        not_applicable=na)
    with open(os.path.join(VERIF, "MANIFEST.json"), "w") as f:
        json.dump(m, f, indent=1)


if __name__ == "__main__":
    main()
