"""C04 — OASIS reader and writer agree with the format specification.  DESIGN.md §4 C04.
Also provides the saved-library log that C02 validates with its own trace module."""
import json
import os
import re

from . import core
from .c20 import render


def number(src, dst):
    n = 0
    with open(src) as f, open(dst, "w") as o:
        for i, l in enumerate(f):
            l = l.strip()
            if not l:
                continue
            d = json.loads(l)
            d["id"] = i
            o.write(json.dumps(d, separators=(",", ":")) + "\n")
            n += 1
    return n


def gen_files(rep, d, tier, seed):
    """specification-emitted files: exhaustive short files (pairs) + random walks"""
    gen = os.path.join(d, "gen_raw.ndjson")
    open(gen, "w").close()
    r0 = core.tlc("MC_Oasis", "MC_OasisThm.cfg", d, workers=8, tag="oasis-thm", heap="6g")
    rep.add_model("oasis-theorems(generated file decodes to the machine's layout; legal; parser agrees)", r0)
    if tier == "thorough":
        # the theorem also on every ordered pair of records (one palette salt)
        render(os.path.join(core.SPEC, "MC_OasisThm2.cfg.in"), os.path.join(d, "MC_OasisThm2.cfg"),
               SALTS=str(seed % 26))
        r02 = core.tlc("MC_Oasis", "MC_OasisThm2.cfg", d, workers=16, tag="oasis-thm-pairs", heap="8g",
                       timeout=6000)
        rep.add_model("oasis-theorems(pairs: every generated two-record file decodes to the machine's layout)", r02)
    salts = list(range(26)) if tier == "thorough" else [seed % 26]
    render(os.path.join(core.SPEC, "MC_OasisPairs.cfg.in"), os.path.join(d, "MC_OasisPairs.cfg"),
           SALTS=", ".join(str(s) for s in salts))
    r1 = core.tlc("MC_Oasis", "MC_OasisPairs.cfg", d, workers=16, env=dict(GEN_OUT=gen), heap="8g",
                  tag="oasis-pairs", timeout=6000)
    rep.add_model("oasis-pairs(every record kind x every ordered pair with modal reuse, BFS)", r1)
    num = 400 if tier == "thorough" else 20
    r2 = core.tlc("MC_Oasis", "MC_Oasis.cfg", d, workers=8, env=dict(GEN_OUT=gen), heap="6g",
                  simulate=(num, 15), extra=["-seed", str(1000 + seed)], tag="oasis-walk", timeout=6000)
    rep.add_model("oasis-walks(random walks of the modal machine: tables, CBLOCKs, properties, signatures)", r2)
    out = os.path.join(d, "gen.ndjson")
    n = number(gen, out)
    return out, n


def forward(rep, d, gen, n):
    hb = core.hbin("h_oas")
    obs = os.path.join(d, "obs_dec.ndjson")
    tmp = os.path.join(d, "tmp")
    os.makedirs(tmp, exist_ok=True)
    core.run([hb, "dec", gen, obs, tmp], timeout=3000)
    v = core.validate("C04Trace", "C04Trace.cfg", d, obs, nparts=16, boundary=None, heap="4g")
    rep.add_validation("oasis-forward(spec bytes -> read_oas, oas_validate)", v, n, distinct=n)
    # the same files under AddressSanitizer: a memory error aborts the child and shows as a Crash event
    core.build("asan")
    obs_a = os.path.join(d, "obs_dec_asan.ndjson")
    core.run([core.hbin("h_oas", "asan"), "dec", gen, obs_a, tmp], timeout=3000)
    nbad = 0
    with open(obs_a) as f:
        for ln, l in enumerate(f, 1):
            if l.startswith('{"e":"Crash"') or l.startswith('{"e":"Hang"'):
                nbad += 1
                if nbad <= 3:
                    rp = os.path.join(d, "replay", "dec_asan_%d.ndjson" % ln)
                    os.makedirs(os.path.dirname(rp), exist_ok=True)
                    with open(rp, "w") as o:
                        o.write(l)
                    rep.violation("C04 dec asan " + json.loads(l)["e"], rp,
                                  "read_oas of a specification-encoded file under AddressSanitizer")
    rep.cov["parts"]["oasis-forward-asan(read_oas under AddressSanitizer)"] = dict(
        kind="replay", files=n, crashes=nbad)
    for line, why, fn in v["rejects"]:
        rp = os.path.join(d, "replay", "dec_%d.ndjson" % line)
        os.makedirs(os.path.dirname(rp), exist_ok=True)
        core.extract_execution(obs, line, rp, boundary="{")
        rep.violation("C04 dec %s" % why, rp, "read_oas of a specification-encoded file: %s" % why)


def api_cases(rep, d, tier, seed):
    raw = os.path.join(d, "gen_api_raw.ndjson")
    open(raw, "w").close()
    render(os.path.join(core.SPEC, "MC_OasApi.cfg.in"), os.path.join(d, "MC_OasApi.cfg"),
           DEPTH=tier, SEED=str(seed))
    r = core.tlc("MC_OasApi", "MC_OasApi.cfg", d, workers=4, env=dict(GEN_OUT=raw), heap="8g",
                 timeout=6000)
    rep.add_model("oasis-api-cases(libraries x writer options)", r)
    gen = os.path.join(d, "gen_api.ndjson")
    n = number(raw, gen)
    hb = core.hbin("h_oas")
    obs = os.path.join(d, "obs_enc.ndjson")
    tmp = os.path.join(d, "tmp")
    os.makedirs(tmp, exist_ok=True)
    core.run([hb, "enc", gen, obs, tmp], timeout=6000)
    return gen, obs, n


def describe(obs, line):
    ev = json.loads(core.extract_execution(obs, line, None, boundary="{")) if False else None
    return ev


def reverse(rep, d, obs, n, module, pid, label):
    v = core.validate(module, module + ".cfg", d, obs, nparts=16, boundary=None, heap="4g",
                      timeout=6000)
    rep.add_validation(label, v, n, distinct=n)
    for line, why, fn in v["rejects"]:
        rp = os.path.join(d, "replay", "%s_enc_%d.ndjson" % (pid, line))
        os.makedirs(os.path.dirname(rp), exist_ok=True)
        ev = json.loads(core.extract_execution(obs, line, rp, boundary="{"))
        o = ev.get("opts", {})
        kinds = []
        for c in ev.get("pre", {}).get("cells", [])[:1]:
            for k in ("polys", "paths", "labels", "refs"):
                for e in c[k]:
                    kinds.append("%s[%s]" % (k, e["rep"]["type"]))
        why2 = re.sub(r"@\d+", "", why)
        sig = "%s enc %s flags=%s level=%s tol=%s %s" % (pid, why2, o.get("flags"), o.get("level"),
                                                      o.get("tol"), "+".join(kinds)[:120])
        rep.violation(sig, rp, "library saved by write_oas: %s" % why)


def run(rep, tier, seed):
    core.build("rel")
    d = core.rundir("C04")
    gen, n = gen_files(rep, d, tier, seed)
    forward(rep, d, gen, n)
    gen_api, obs, m = api_cases(rep, d, tier, seed)
    reverse(rep, d, obs, m, "C04Trace", "C04",
            "oasis-reverse(api -> write_oas -> strict decoder, END/offsets/signature/standard properties, reload)")
    return rep.finish(rule="forward: TLC walks the modal machine of Oasis.tla (every record kind, info-byte "
                           "pattern, point-list / repetition / real encoding, tables anywhere, CBLOCKs, "
                           "signatures) and every generated file must load to the layout the strict "
                           "decoder gives; reverse: libraries x writer options saved by write_oas must be "
                           "accepted by the strict decoder, denote the saved library on the grid, and carry "
                           "true END offsets, signature and standard properties; "
                           "distinct_nontrivial = distinct files / saved libraries")
