"""C02 — OASIS save/load round trip under every writer option.  DESIGN.md §4 C02."""
from . import core
from . import c04


def run(rep, tier, seed):
    core.build("rel")
    d = core.rundir("C02")
    gen_api, obs, m = c04.api_cases(rep, d, tier, seed)
    c04.reverse(rep, d, obs, m, "C02Trace", "C02",
                "oasis-cycles(api -> write_oas -> read_oas -> write_oas -> read_oas ...; oas_validate)")
    return rep.finish(rule="TLC enumerates libraries (all 26 compact trapezoid shapes in every vertex "
                           "order, trapezoids, rectangles, general polygons, circles, simple paths with "
                           "flush / half-width / extended ends, labels, references incl. dangling and "
                           "outside-library cells, every repetition kind, typed properties, 32-bit tags; "
                           "quarter-grid coordinates) x writer options (all 256 flag sets, levels 0-9, "
                           "circle tolerance 0 / >0); each is saved and reloaded over 3 cycles; the first "
                           "reload must equal the library on the grid, later cycles must reproduce it; "
                           "distinct_nontrivial = distinct (library, options) cases")
