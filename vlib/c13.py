"""C13 — offsetting grows or shrinks polygons by the requested distance.  DESIGN.md §4 C13."""
import json
import os

from . import core
from .c20 import render


def run(rep, tier, seed):
    core.build("rel")
    d = core.rundir("C13")
    hb = core.hbin("h_geo")
    gen = os.path.join(d, "gen.ndjson")
    open(gen, "w").close()
    render(os.path.join(core.SPEC, "MC_C13.cfg.in"), os.path.join(d, "MC_C13.cfg"), DEPTH=tier)
    r = core.tlc("MC_C13", "MC_C13.cfg", d, workers=12, env=dict(GEN_OUT=gen), heap="6g")
    rep.add_model("offset-cases(merged region = input region)", r)
    obs = os.path.join(d, "obs.ndjson")
    core.run([hb, gen, obs], timeout=3000)
    v = core.validate("C13Trace", "C13Trace.cfg", d, obs, nparts=16, boundary=None)
    n = core.count_lines(gen)
    rep.add_validation("offset-trace", v, n, distinct=n)
    rep.cov.update(sample_points_per_case=26 * 26)
    gl = core.read_ndjson(gen, 2000)
    rep.cov["samples"] += [gl[0], gl[-1]]
    for line, why, fn in v["rejects"]:
        rp = os.path.join(d, "replay", "c13_%d.ndjson" % line)
        os.makedirs(os.path.dirname(rp), exist_ok=True)
        ev = json.loads(core.extract_execution(obs, line, rp, boundary="{"))
        g = ev.get("g", {})
        sig = "C13 %s op=%s d=%s join=%s union=%s s=%s %s" % (
            ev.get("e"), g.get("io"), g.get("d"), g.get("join"), g.get("union"), g.get("s"), why[:120])
        rep.violation(sig, rp, why[:300])
    return rep.finish(rule="11 operand groups (disjoint, overlapping, abutting, concave, 45-degree "
                           "edges, a neck and a gap narrower than 2|d|, keyhole input, clockwise "
                           "input) x distances of either sign x 3 joins x union on/off x scalings; "
                           "676 exact sample points; distinct_nontrivial = cases")
