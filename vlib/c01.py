"""C01 — GDSII save/load round trip preserves the layout.  DESIGN.md §4 C01.
Also provides the reverse direction of C03 (files gdstk writes vs. the strict decoder)."""
import json
import os

from . import core
from .c20 import render


def api_cases(rep, d, tier):
    gen = os.path.join(d, "gen_api.ndjson")
    open(gen, "w").close()
    render(os.path.join(core.SPEC, "MC_GdsApi.cfg.in"), os.path.join(d, "MC_GdsApi.cfg"), DEPTH=tier)
    r = core.tlc("MC_GdsApi", "MC_GdsApi.cfg", d, workers=1, env=dict(GEN_OUT=gen), heap="6g")
    rep.add_model("gds-api-cases(norm idempotent)", r)
    return gen


def roundtrip(rep, d, gen, pid, file_only=False):
    hb = core.hbin("h_gds")
    obs = os.path.join(d, "obs_write.ndjson")
    tmp = os.path.join(d, "tmp")
    os.makedirs(tmp, exist_ok=True)
    core.run([hb, "write", gen, obs, tmp], timeout=3000)
    v = core.validate("C01Trace", "C01Trace.cfg", d, obs, nparts=16, boundary=None,
                      env=dict(GEN=gen), heap="4g")
    n = core.count_lines(gen)
    rep.add_validation("gds-save-load(api -> write_gds -> strict decode + 3 reload cycles)", v, n,
                       distinct=n)
    gl = core.read_ndjson(gen, 60)
    rep.cov["samples"].append(dict(part="save-load", library=gl[-1]["al"]))
    gens = None
    for line, why, fn in v["rejects"]:
        file_clause = ("file" in why) or ("strict_decoder" in why) or ("units_record" in why) \
            or ("timestamps" in why) or ("garbage" in why)
        cycle_clause = "cycle" in why or "error_code" in why or "handle" in why
        if "Crash" in why or "Hang" in why or not (file_clause or cycle_clause):
            # a crash / hang, or a rejection that names neither kind of clause, belongs to both readings
            file_clause = cycle_clause = True
        if file_only and not file_clause:
            continue
        if not file_only and not cycle_clause:
            continue
        rp = os.path.join(d, "replay", "write_%d.ndjson" % line)
        os.makedirs(os.path.dirname(rp), exist_ok=True)
        ev = json.loads(core.extract_execution(obs, line, rp, boundary="{"))
        if gens is None:
            gens = core.read_ndjson(gen)
        gc = gens[ev["i"]] if "i" in ev and ev["i"] < len(gens) else {}
        with open(rp, "a") as f:
            f.write(json.dumps(dict(case=gc)) + "\n")
        kinds = []
        for c in gc.get("al", {}).get("cells", [])[:1]:
            for k in ("polys", "paths", "labels", "refs"):
                for e in c[k]:
                    kinds.append("%s[%s%s]" % (k, e["rep"]["type"],
                                               ",robust" if e.get("robust") else ""))
        sig = "%s write %s %s" % (pid, why, "+".join(kinds))
        rep.violation(sig, rp, "save/load of an API-built library: %s" % why)


def run(rep, tier, seed):
    core.build("rel")
    d = core.rundir("C01")
    gen = api_cases(rep, d, tier)
    roundtrip(rep, d, gen, "C01")
    from . import c12
    c12.vertex_limit_leg(rep, d, tier)
    return rep.finish(rule="TLC enumerates API-level library descriptions (polygons, simple "
                           "Flex/RobustPaths with 1-2 elements and every end type, labels, "
                           "references by pointer and by name; each x every repetition kind; "
                           "quarter-dbu coordinates; 2 unit settings); each is saved, decoded and "
                           "re-loaded over 3 cycles; distinct_nontrivial = distinct libraries")
