"""C09 — bounding boxes and convex hulls are exact for any hierarchy.  DESIGN.md §4 C09."""
from . import c06


def run(rep, tier, seed):
    c06.run_for(rep, tier, seed, "C09")
    return rep.finish(rule="same hierarchies as C06 plus degenerate contents (empty, single point, "
                           "collinear horizontal / vertical / descending diagonal) under rotated and "
                           "reflected references with explicit repetitions; bounding_box and "
                           "convex_hull of cell and reference, with a fresh cache and with a cache "
                           "shared across queries in different orders; distinct_nontrivial = cases")
