"""C10 — element transforms are the documented affine maps.  DESIGN.md §4 C10."""
import json
import os

from . import core
from .c20 import render

Q = 1000


def run(rep, tier, seed):
    core.build("rel")
    d = core.rundir("C10")
    hb = core.hbin("h_hier")
    gen = os.path.join(d, "gen.ndjson")
    open(gen, "w").close()
    render(os.path.join(core.SPEC, "MC_C10.cfg.in"), os.path.join(d, "MC_C10.cfg"), DEPTH=tier)
    r = core.tlc("MC_C10", "MC_C10.cfg", d, workers=12, env=dict(GEN_OUT=gen), heap="8g")
    rep.add_model("transform-sequences(composition laws)", r)
    if tier == "thorough":
        # the length-3 product is large: keep every length <= 2 case and a seeded sample of the rest
        keep = []
        import random
        rnd = random.Random(seed)
        for line in open(gen):
            if line.count('"op":') <= 2 or rnd.random() < 0.08:
                keep.append(line)
        with open(gen, "w") as f:
            f.writelines(keep)
    obs = os.path.join(d, "obs.ndjson")
    core.run([hb, gen, obs, str(Q)], timeout=3000)
    v = core.validate("C10Trace", "C10Trace.cfg", d, obs, nparts=16, boundary=None)
    n = core.count_lines(gen)
    rep.add_validation("transform-trace", v, n, distinct=n)
    gl = core.read_ndjson(gen, 6000)
    rep.cov["samples"] += [gl[len(gl) // 2], gl[-1]]
    for line, why, fn in v["rejects"]:
        rp = os.path.join(d, "replay", "c10_%d.ndjson" % line)
        os.makedirs(os.path.dirname(rp), exist_ok=True)
        ev = json.loads(core.extract_execution(obs, line, rp, boundary="{"))
        g = ev.get("g", {})
        ops = "+".join(o["op"] + ("(refl)" if o.get("refl") else "") +
                       ("(mag<0)" if o.get("mag", {}).get("n", 1) < 0 or o.get("s", {}).get("n", 1) < 0 else "")
                       for o in g.get("ops", []))
        sig = "C10 %s rep=%s ops=%s %s" % (g.get("kind"), g.get("rep", {}).get("type"), ops, why[:200])
        rep.violation(sig, rp, why[:300])
    return rep.finish(rule="5 path/polygon kinds x 3 repetition settings x every sequence of <= 2 "
                           "(thorough: sampled <= 3) operations from 16 lattice operations "
                           "(translate, scale incl. negative and 1/2, mirror about axis-parallel, "
                           "diagonal and 3-4-5 lines, rotate by 90/180 degrees and atan(4/3), combined "
                           "transforms incl. reflection and negative magnification); labels and "
                           "references x sequences of <= 3 transforms; distinct_nontrivial = cases")
