"""C16 — library edits keep the cell graph consistent.  DESIGN.md §4 C16."""
import json
import os

from . import core
from .c20 import render


def one_shape(rep, tier, d, hb, shape):
    gen = os.path.join(d, "gen%d.ndjson" % shape)
    open(gen, "w").close()
    maxlen = 3 if tier == "quick" else 4
    cfg = "MC_LibGraph_s%d.cfg" % shape
    render(os.path.join(core.SPEC, "MC_LibGraph.cfg.in"), os.path.join(d, cfg),
           MAXLEN=maxlen, SHAPE=shape, EXPORT="ACTION_CONSTRAINT Export")
    r = core.tlc("MC_LibGraph", cfg, d, workers=1, env=dict(GEN_OUT=gen), heap="6g",
                 tag="libgraph-s%d" % shape)
    rep.add_model("libgraph-model(shape %d)" % shape, r)
    if tier == "thorough":
        # deeper, invariants only (no export)
        cfg5 = "MC_LibGraph5_s%d.cfg" % shape
        render(os.path.join(core.SPEC, "MC_LibGraph.cfg.in"), os.path.join(d, cfg5),
               MAXLEN=6, SHAPE=shape, EXPORT="")
        r5 = core.tlc("MC_LibGraph", cfg5, d, workers=16, heap="12g",
                      tag="libgraph-model-deep-s%d" % shape)
        rep.add_model("libgraph-model-deep(shape %d)" % shape, r5)
    obs = os.path.join(d, "obs%d.ndjson" % shape)
    tmp = os.path.join(d, "tmp")
    os.makedirs(tmp, exist_ok=True)
    core.run([hb, gen, obs, tmp], timeout=3000)
    tcfg = "C16Trace_s%d.cfg" % shape
    render(os.path.join(core.SPEC, "C16Trace.cfg.in"), os.path.join(d, tcfg), SHAPE=shape)
    v = core.validate("C16Trace", tcfg, d, obs, nparts=16)
    ngen = core.count_lines(gen)
    rep.add_validation("libgraph-trace(shape %d)" % shape, v, ngen, distinct=ngen)
    rep.cov["samples"].append(dict(history=core.read_ndjson(gen, 40)[-1]["h"]))
    for line, why, fn in v["rejects"]:
        rp = os.path.join(d, "replay", "c16_s%d_%d.ndjson" % (shape, line))
        os.makedirs(os.path.dirname(rp), exist_ok=True)
        ev = json.loads(core.extract_execution(obs, line, rp))
        sig = "C16 %s(%s,%s)" % (ev.get("e"), ev.get("a", ""), ev.get("b", ""))
        if ev.get("e") in ("Crash", "Hang"):
            h = ev["g"]["h"]
            sig = "C16 %s in %s" % (ev["e"], h[-1]["op"] if h else "init")
        rep.violation(sig, rp, "library graph (shape %d): %s rejected at log line %d" % (shape, why, line))


def run(rep, tier, seed):
    core.build("rel")
    d = core.rundir("C16")
    hb = core.hbin("h_c16")
    for shape in (1, 2, 3):
        one_shape(rep, tier, d, hb, shape)
    rep.assumptions += ["names are unique among library members (gdstk's documented requirement)",
                        "objects replaced away are not brought back; a raw cell needed by other "
                        "raw cells of the library is not replaced (their bytes are immutable)"]
    return rep.finish(rule="one replayed history per transition of the VIEW-reduced state graph "
                           "of LibGraph.tla up to the history bound; distinct_nontrivial = "
                           "distinct generated histories")
