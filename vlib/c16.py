"""C16 — library edits keep the cell graph consistent.  DESIGN.md §4 C16."""
import json
import os

from . import core
from .c20 import render


def run(rep, tier, seed):
    core.build("rel")
    d = core.rundir("C16")
    hb = core.hbin("h_c16")
    gen = os.path.join(d, "gen.ndjson")
    open(gen, "w").close()
    maxlen = 3 if tier == "quick" else 4
    render(os.path.join(core.SPEC, "MC_LibGraph.cfg.in"), os.path.join(d, "MC_LibGraph.cfg"),
           MAXLEN=maxlen, EXPORT="ACTION_CONSTRAINT Export")
    r = core.tlc("MC_LibGraph", "MC_LibGraph.cfg", d, workers=1, env=dict(GEN_OUT=gen), heap="6g")
    rep.add_model("libgraph-model", r)
    if tier == "thorough":
        # deeper, invariants only (no export)
        render(os.path.join(core.SPEC, "MC_LibGraph.cfg.in"), os.path.join(d, "MC_LibGraph5.cfg"),
               MAXLEN=6, EXPORT="")
        r5 = core.tlc("MC_LibGraph", "MC_LibGraph5.cfg", d, workers=16, heap="12g",
                      tag="libgraph-model-deep")
        rep.add_model("libgraph-model-deep", r5)
    obs = os.path.join(d, "obs.ndjson")
    tmp = os.path.join(d, "tmp")
    os.makedirs(tmp, exist_ok=True)
    core.run([hb, gen, obs, tmp], timeout=3000)
    v = core.validate("C16Trace", "C16Trace.cfg", d, obs, nparts=16)
    ngen = core.count_lines(gen)
    rep.add_validation("libgraph-trace", v, ngen, distinct=ngen)
    rep.cov["samples"].append(dict(history=core.read_ndjson(gen, 40)[-1]["h"]))
    for line, why, fn in v["rejects"]:
        rp = os.path.join(d, "replay", "c16_%d.ndjson" % line)
        os.makedirs(os.path.dirname(rp), exist_ok=True)
        ev = json.loads(core.extract_execution(obs, line, rp))
        sig = "C16 %s(%s,%s)" % (ev.get("e"), ev.get("a", ""), ev.get("b", ""))
        if ev.get("e") in ("Crash", "Hang"):
            h = ev["g"]["h"]
            sig = "C16 %s in %s" % (ev["e"], h[-1]["op"] if h else "init")
        rep.violation(sig, rp, "library graph: %s rejected at log line %d" % (why, line))
    rep.assumptions += ["names are unique among library members (gdstk's documented requirement)",
                        "objects replaced away are not brought back; a raw cell needed by other "
                        "raw cells of the library is not replaced (their bytes are immutable)"]
    return rep.finish(rule="one replayed history per transition of the VIEW-reduced state graph "
                           "of LibGraph.tla up to the history bound; distinct_nontrivial = "
                           "distinct generated histories")
