"""C06 — flattening and hierarchy queries preserve the layout geometry (and, from the same
pipeline, C09 — bounding boxes and convex hulls).  DESIGN.md §4 C06 / C09."""
import json
import os
import re

from . import core
from .c20 import render

Q = 1000


def run_for(rep, tier, seed, pid):
    core.build("rel")
    d = core.rundir(pid)
    hb = core.hbin("h_hier")
    gen = os.path.join(d, "gen.ndjson")
    open(gen, "w").close()
    render(os.path.join(core.SPEC, "MC_C06.cfg.in"), os.path.join(d, "MC_C06.cfg"), DEPTH=tier)
    r = core.tlc("MC_C06", "MC_C06.cfg", d, workers=12, env=dict(GEN_OUT=gen), heap="8g")
    rep.add_model("hierarchy-cases", r)
    obs = os.path.join(d, "obs.ndjson")
    core.run([hb, gen, obs, str(Q)], timeout=3000)
    v = core.validate("C06Trace", "C06Trace.cfg", d, obs, nparts=16, boundary=None, heap="4g")
    n = core.count_lines(gen)
    rep.add_validation("hierarchy-trace", v, n, distinct=n)
    gl = core.read_ndjson(gen, 3000)
    rep.cov["samples"] += [gl[0], gl[-1]]
    steps = sum(len(g["steps"]) for g in gl)
    rep.cov["steps_checked"] = steps
    for line, why, fn in v["rejects"]:
        mine = re.findall(r'<<"%s", (\d+), "([^"]*)", "([^"]*)", (-?\d+), (-?\d+)>>' % pid, why)
        if not mine:
            if re.search(r'<<"C0[69]", ', why):
                continue            # clauses of the sibling property only (C06 / C09 share this trace)
            # a crash, hang or any rejection without a property tag counts for both
            rp = os.path.join(d, "replay", "%s_%d.ndjson" % (pid.lower(), line))
            os.makedirs(os.path.dirname(rp), exist_ok=True)
            core.extract_execution(obs, line, rp, boundary="{")
            rep.violation("%s %s" % (pid, why[:80]), rp, why[:300])
            continue
        rp = os.path.join(d, "replay", "%s_%d.ndjson" % (pid.lower(), line))
        os.makedirs(os.path.dirname(rp), exist_ok=True)
        ev = json.loads(core.extract_execution(obs, line, rp, boundary="{"))
        g = ev.get("g", {})
        cells = g.get("cells", [])
        desc = []
        for c in cells:
            for rf in c["refs"]:
                desc.append("ref(rot=%s/%s/%s,refl=%s,mag=%s/%s,rep=%s)" % (
                    rf["rot"]["c"], rf["rot"]["s"], rf["rot"]["d"], rf["refl"], rf["mag"]["n"],
                    rf["mag"]["d"], rf["rep"]["type"]))
            for sh in c["shapes"]:
                desc.append("%s[%s]" % (sh["kind"], sh["rep"]["type"]))
        what = ",".join(sorted({"%s %s" % (m[1], m[2]) for m in mine}))
        sig = "%s %s :: %s" % (pid, what, " ".join(desc)[:200])
        rep.violation(sig, rp, "%s in %s" % (what, " ".join(desc)[:300]))


def run(rep, tier, seed):
    run_for(rep, tier, seed, "C06")
    return rep.finish(rule="one-level product reflection x 6 rotations (incl. +-atan(4/3)) x 3 "
                           "magnifications x 6 reference repetitions x 4 element kinds x 6 element "
                           "repetitions (quick: 1/7 sample) with queries (apply on/off, depth -1/0/1, "
                           "tag filters), 450 chains of depth 3, 25 diamonds with a shared sub-cell "
                           "and a dangling reference, with step sequences mixing queries, copies, "
                           "flatten and cached/uncached boxes and hulls; distinct_nontrivial = cases")
