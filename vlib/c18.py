"""C18 — truncated files never read as complete, never crash a reader.  DESIGN.md §4 C18."""
import json
import os

from . import core
from . import c01, c03

READERS = {1: "read_gds", 2: "read_rawcells", 3: "gds_info", 4: "gds_units", 5: "gds_timestamp",
           6: "oas_precision", 7: "oas_validate"}


def run(rep, tier, seed):
    core.build("rel")
    core.build("asan")
    d = core.rundir("C18")
    gen_spec = c03.gen_cases(rep, d, tier)     # includes the Prefixes theorem of the spec
    gen_api = c01.api_cases(rep, d, tier)
    cases = os.path.join(d, "cases.ndjson")
    nspec = napi = noas = 0
    sstep = 120 if tier == "quick" else 25
    astep = 13 if tier == "quick" else 3
    with open(cases, "w") as out:
        for i, line in enumerate(open(gen_spec)):
            g = json.loads(line)
            big = len(g["lay"]["cells"]) >= 4
            if not (big and g["tgt"] == 0 and g["u"] in (1, 3)) and (i + seed) % sstep:
                continue
            out.write(json.dumps(dict(bytes=g["bytes"])) + "\n")
            nspec += 1
        api = [json.loads(l) for l in open(gen_api)]
        for i, g in enumerate(api):
            mixed = len(g["al"]["cells"]) >= 3
            if mixed and g["u"] == 1 and (i % 2 == 0 or tier == "thorough"):
                g2 = dict(g, fmt="gds")
                out.write(json.dumps(g2) + "\n")
                napi += 1
                # OASIS: none / crc32 / checksum32, with and without compression
                for flags, level in ((0, 0), (0x40, 0), (0x80, 6), (0x4F, 6)):
                    out.write(json.dumps(dict(g, fmt="oas", flags=flags, level=level)) + "\n")
                    noas += 1
            elif (i + seed) % astep == 0:
                out.write(json.dumps(dict(g, fmt="gds")) + "\n")
                napi += 1
    hb = core.hbin("h_gds", "asan")
    obs = os.path.join(d, "obs_trunc.ndjson")
    tmp = os.path.join(d, "tmp")
    os.makedirs(tmp, exist_ok=True)
    env = dict(ASAN_OPTIONS="detect_leaks=0:exitcode=77:abort_on_error=0:allocator_may_return_null=1",
               UBSAN_OPTIONS="halt_on_error=1")
    core.run([hb, "trunc", cases, obs, tmp], timeout=3000, env=env)
    v = core.validate("C18Trace", "C18Trace.cfg", d, obs, nparts=16,
                      boundary='{"e":"file"', heap="3g")
    nfiles = nspec + napi + noas
    cuts = v["events"] - nfiles
    rep.add_validation("truncation(every cut x every reader x 2 calls)", v, nfiles, distinct=cuts)
    rep.cov.update(files_spec_encoded=nspec, files_gdstk_gds=napi, files_gdstk_oas=noas,
                   cut_points=cuts, reader_calls=cuts * 10)
    rep.cov["samples"].append(core.read_ndjson(obs, 4)[-1])
    for line, why, fn in v["rejects"]:
        rp = os.path.join(d, "replay", "cut_%d.ndjson" % line)
        os.makedirs(os.path.dirname(rp), exist_ok=True)
        ev = json.loads(core.extract_execution(obs, line, rp, boundary="{"))
        if ev.get("e") in ("Crash", "Hang"):
            sig = "C18 %s in %s" % (ev["e"], READERS.get(ev.get("phase2"), "?"))
            what = "%s at cut %s of file %s (exit code %s)" % (sig, ev.get("phase"), ev.get("i"),
                                                               ev.get("code"))
        else:
            bad = sorted({c["rd"] + (":fd" if c["fd"] != 0 else ":outcome")
                          for c in ev.get("calls", [])
                          if c["fd"] != 0 or c["rd"] in why})
            sig = "C18 cut %s" % ",".join(bad)
            what = "cut %s of file %s: %s" % (ev.get("k"), ev.get("f"), why[:200])
        rep.violation(sig, rp, what)
    return rep.finish(level="fault_enumeration",
                      rule="every prefix length 0..n-1 of each file (specification-encoded GDSII, "
                           "gdstk-written GDSII, gdstk-written OASIS with none/CRC32/checksum32 "
                           "and CBLOCKs) x 5 GDSII or 2 OASIS readers x 2 calls, under "
                           "AddressSanitizer with descriptor accounting; distinct_nontrivial = cuts")
