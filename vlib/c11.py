"""C11 — repetitions enumerate exactly their offsets.  DESIGN.md §4 C11."""
import json
import os

from . import core
from .c20 import render

Q = 10


def run(rep, tier, seed):
    core.build("rel")
    d = core.rundir("C11")
    hb = core.hbin("h_c11")
    gen = os.path.join(d, "gen.ndjson")
    open(gen, "w").close()
    render(os.path.join(core.SPEC, "MC_Repetition.cfg.in"), os.path.join(d, "MC_Repetition.cfg"),
           MAXCOUNT=2 if tier == "quick" else 3, EXPORT="Export")
    r = core.tlc("MC_Repetition", "MC_Repetition.cfg", d, workers=1, env=dict(GEN_OUT=gen),
                 heap="6g")
    rep.add_model("repetition-model", r)
    obs = os.path.join(d, "obs.ndjson")
    core.run([hb, gen, obs, str(Q)], timeout=3000)
    v = core.validate("C11Trace", "C11Trace.cfg", d, obs, nparts=16, boundary=None)
    ngen = core.count_lines(gen)
    rep.add_validation("repetition-trace", v, ngen, distinct=ngen)
    gl = core.read_ndjson(gen, 2000)
    rep.cov["samples"] += [gl[0], gl[len(gl) // 2], gl[-1]]
    for line, why, fn in v["rejects"]:
        rp = os.path.join(d, "replay", "c11_%d.ndjson" % line)
        os.makedirs(os.path.dirname(rp), exist_ok=True)
        ev = json.loads(core.extract_execution(obs, line, rp, boundary="{"))
        g = ev.get("g") or {}
        r_ = g.get("r", {})
        empty = (r_.get("cols") == 0 or r_.get("rows") == 0 or r_.get("offs") == []
                 or r_.get("coords") == [])
        sig = "C11 %s %s %s%s %s" % (ev.get("e"), g.get("k"), r_.get("type"),
                                     " empty" if empty else "", why)
        if g.get("k") == "a":
            sig += " kind=" + g.get("kind", "")
        rep.violation(sig, rp, "repetition case rejected at log line %d: %s" % (line, why))
    return rep.finish(rule="every repetition value in the enumerated scope (5 kinds, counts "
                           "0..MaxCount, spacings/vectors of either sign, explicit lists with "
                           "duplicates and zeros) x {queries, 36 transforms, apply on 5 element "
                           "kinds}; exhaustive over that scope", extra=dict(exhaustive=True))
