"""C14 — point-in-polygon queries and polygon measures are exact.  DESIGN.md §4 C14."""
import json
import os

from . import core
from .c20 import render


def run(rep, tier, seed):
    core.build("rel")
    d = core.rundir("C14")
    hb = core.hbin("h_c14")
    gen = os.path.join(d, "gen.ndjson")
    open(gen, "w").close()
    G, ML = (3, 4) if tier == "quick" else (4, 4)
    render(os.path.join(core.SPEC, "MC_C14.cfg.in"), os.path.join(d, "MC_C14.cfg"), G=G, MAXLEN=ML)
    r = core.tlc("MC_C14", "MC_C14.cfg", d, workers=12, env=dict(GEN_OUT=gen), heap="8g")
    rep.add_model("region-membership-model", r)
    obs = os.path.join(d, "obs.ndjson")
    core.run([hb, gen, obs], timeout=3000)
    v = core.validate("C14Trace", "C14Trace.cfg", d, obs, nparts=16, boundary=None)
    n = core.count_lines(gen)
    rep.add_validation("contain-measures-trace", v, n, distinct=n)
    nq = (2 * G + 3) ** 2
    rep.cov.update(query_points_per_polygon=nq, exhaustive=True)
    gl = core.read_ndjson(gen, 3000)
    rep.cov["samples"] += [gl[len(gl) // 2], gl[-1]]
    for line, why, fn in v["rejects"]:
        rp = os.path.join(d, "replay", "c14_%d.ndjson" % line)
        os.makedirs(os.path.dirname(rp), exist_ok=True)
        ev = json.loads(core.extract_execution(obs, line, rp, boundary="{"))
        sig = "C14 %s %s" % (ev.get("e"), why[:120])
        rep.violation(sig, rp, "pts=%s: %s" % (ev.get("g", {}).get("pts"), why[:300]))
    return rep.finish(rule="every vertex list of length 0..4 on the GxG grid (repeated vertices, "
                           "self-intersections, both orientations, degenerate lists) x every query "
                           "point of the half-grid one cell beyond it; measures with and without "
                           "repetition; groups from a palette x point lists incl. empty ones")
