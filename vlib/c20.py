"""C20 — containers, property lists, sorting.  DESIGN.md §4 C20."""
import concurrent.futures as cf
import json
import os

from . import core
from .core import Infra, log

KINDS = ["map", "set", "tagmap", "stylemap"]
# desired homes at capacity 8 for generator keys 1..5 (index 0 is reserved: the zero tag):
# a cluster that wraps around the table end plus one far key
PATTERN8 = [7, 7, 6, 0, 7, 3]
NUNIV = 21


def choose_keys(cands, kind):
    """cands: [{key, h:[h8,h16,h32,h64,h128]}].  Index 0 = first candidate (zero tag)."""
    chosen = [cands[0]]
    used = {cands[0]["key"]}
    for want in PATTERN8[: 5]:
        c = next(c for c in cands if c["key"] not in used and c["h"][0] == want)
        chosen.append(c)
        used.add(c["key"])
    for c in cands:
        if len(chosen) >= NUNIV:
            break
        if c["key"] not in used:
            chosen.append(c)
            used.add(c["key"])
    return chosen


def render(src, dst, **kw):
    s = open(src).read()
    for k, v in kw.items():
        s = s.replace("@%s@" % k, str(v))
    open(dst, "w").write(s)


def tables(rep, d, tier, seed):
    hb = core.hbin("h_c20")
    homes = json.loads(core.run([hb, "homes"]).stdout.strip().splitlines()[-1])
    keys = {}
    for kind in KINDS:
        cands = homes["map"] if kind == "map" else homes["u64"]
        ch = choose_keys(cands, kind)
        keys[kind] = dict(keys=[c["key"] for c in ch])
        with open(os.path.join(d, "homes_%s.json" % kind), "w") as f:
            json.dump([c["h"] for c in ch], f)
    with open(os.path.join(d, "keys.json"), "w") as f:
        json.dump(keys, f)
    maxlen = 5 if tier == "quick" else 6
    nkeys_gen = 4 if tier == "quick" else 5

    def one(kind):
        tag = "tables-" + kind
        if kind == "tagmap":
            ks = "{%s}" % ", ".join(str(i) for i in range(0, nkeys_gen))
            vs = ks
        else:
            ks = "{%s}" % ", ".join(str(i) for i in range(1, nkeys_gen + 1))
            vs = "{1}" if kind == "set" else "{1, 2}"
        gen = os.path.join(d, "gen_%s.ndjson" % kind)
        cfg = "MC_Containers_%s.cfg" % kind
        render(os.path.join(core.SPEC, "MC_Containers.cfg.in"), os.path.join(d, cfg), KEYS=ks,
               VALS=vs, KIND=kind, MAXCAP=16, MAXLEN=maxlen,
               EXPORT="ACTION_CONSTRAINT Export")
        env = dict(C20_HOMES=os.path.join(d, "homes_%s.json" % kind), GEN_OUT=gen)
        open(gen, "w").close()
        r = core.tlc("MC_Containers", cfg, d, workers=1, env=env, tag=tag + "-model", heap="6g")
        obs = os.path.join(d, "obs_%s.ndjson" % kind)
        nrand, rlen = (40, 120) if tier == "quick" else (400, 200)
        core.run([hb, "tables", kind, os.path.join(d, "keys.json"), gen, obs, str(seed),
                  str(nrand), str(rlen)], timeout=1800)
        tcfg = "C20TablesTrace_%s.cfg" % kind
        render(os.path.join(core.SPEC, "C20TablesTrace.cfg.in"), os.path.join(d, tcfg), KIND=kind)
        v = core.validate("C20TablesTrace", tcfg, d, obs, nparts=8,
                          env=dict(C20_HOMES=env["C20_HOMES"]))
        return kind, r, gen, obs, v, nrand

    with cf.ThreadPoolExecutor(max_workers=4) as ex:
        results = list(ex.map(one, KINDS))
    for kind, r, gen, obs, v, nrand in results:
        rep.add_model("tables-%s-model" % kind, r)
        ngen = core.count_lines(gen)
        rep.add_validation("tables-%s-trace" % kind, v, ngen + nrand, distinct=ngen)
        rep.cov["samples"].append(dict(part="tables-" + kind,
                                       generated_history=core.read_ndjson(gen, 3)[-1],
                                       observed=core.read_ndjson(obs, 3)[1:3]))
        for line, why, fn in v["rejects"]:
            rp = os.path.join(d, "replay", "tables_%s_%d.ndjson" % (kind, line))
            os.makedirs(os.path.dirname(rp), exist_ok=True)
            ev = core.extract_execution(obs, line, rp)
            e = json.loads(ev)
            sig = "C20 tables:%s op=%s" % (kind, e.get("e"))
            rep.violation(sig, rp, "table %s: %s rejected at log line %d" % (kind, why, line))


def props(rep, d, tier, seed):
    hb = core.hbin("h_c20")
    gen = os.path.join(d, "gen_props.ndjson")
    open(gen, "w").close()
    maxlen = 3 if tier == "quick" else 4
    render(os.path.join(core.SPEC, "MC_Props.cfg.in"), os.path.join(d, "MC_Props.cfg"),
           MAXLEN=maxlen, EXPORT="ACTION_CONSTRAINT Export")
    r = core.tlc("MC_Props", "MC_Props.cfg", d, workers=1, env=dict(GEN_OUT=gen), heap="6g")
    rep.add_model("props-model", r)
    # same actions from richer starting lists (built by fixed 4-step prefixes)
    render(os.path.join(core.SPEC, "MC_PropsRich.cfg.in"), os.path.join(d, "MC_PropsRich.cfg"),
           MAXLEN=2)
    r2 = core.tlc("MC_Props", "MC_PropsRich.cfg", d, workers=1, env=dict(GEN_OUT=gen), heap="6g",
                  tag="props-rich")
    rep.add_model("props-model(rich starting lists)", r2)
    obs = os.path.join(d, "obs_props.ndjson")
    core.run([hb, "props", gen, obs], timeout=1800)
    v = core.validate("C20PropsTrace", "C20PropsTrace.cfg", d, obs, nparts=16)
    ngen = core.count_lines(gen)
    rep.add_validation("props-trace", v, ngen, distinct=ngen)
    rep.cov["samples"].append(dict(part="props", generated_history=core.read_ndjson(gen, 50)[-1]))
    seen = set()
    for line, why, fn in v["rejects"]:
        rp = os.path.join(d, "replay", "props_%d.ndjson" % line)
        os.makedirs(os.path.dirname(rp), exist_ok=True)
        ev = json.loads(core.extract_execution(obs, line, rp))
        if ev.get("e") in ("Crash", "Hang"):
            h = ev["g"]["h"]
            last = h[-1] if h else {}
            sig = "C20 props %s in %s all=%s" % (ev["e"], last.get("op"), last.get("f"))
        else:
            sig = "C20 props op=%s all=%s" % (ev.get("e"), ev.get("f"))
        rep.violation(sig, rp, "property list: %s rejected at log line %d" % (why, line))


def sorting(rep, d, tier, seed):
    hb = core.hbin("h_c20")
    for cfg in ["MC_Sort.cfg", "MC_SortB.cfg", "MC_SortC.cfg"]:
        r = core.tlc("MC_Sort", cfg, d, workers=8, tag="sort-model-" + cfg, heap="4g")
        rep.add_model("sort-model-" + cfg, r)
    gen = os.path.join(d, "gen_sort.ndjson")
    open(gen, "w").close()
    if tier == "quick":
        kw = dict(MAXN=4, LONGNS="{17, 18, 33, 100, 1000}", VALCOUNTS="{5, 64}")
    else:
        kw = dict(MAXN=6, LONGNS="{16, 17, 18, 19, 24, 32, 33, 47, 64, 100, 333, 1000, 2500}",
                  VALCOUNTS="{2, 5, 64}")
    render(os.path.join(core.SPEC, "MC_SortGen.cfg.in"), os.path.join(d, "MC_SortGen.cfg"), **kw)
    r = core.tlc("MC_SortGen", "MC_SortGen.cfg", d, workers=1, env=dict(GEN_OUT=gen))
    rep.add_model("sort-gen", r)
    obs = os.path.join(d, "obs_sort.ndjson")
    core.run([hb, "sort", gen, obs, str(seed)], timeout=1800)
    v = core.validate("C20Sort", "C20Sort.cfg", d, obs, nparts=16)
    ngen = core.count_lines(gen)
    rep.add_validation("sort-trace", v, ngen, distinct=ngen)
    rep.cov["samples"].append(dict(part="sort", case=core.read_ndjson(gen, 2)[-1]))
    for line, why, fn in v["rejects"]:
        rp = os.path.join(d, "replay", "sort_%d.ndjson" % line)
        os.makedirs(os.path.dirname(rp), exist_ok=True)
        ev = json.loads(core.extract_execution(obs, line, rp, boundary="{"))
        sig = "C20 sort algo=%s cmp=%s n=%s" % (ev.get("algo"), ev.get("cmp"), ev.get("n"))
        rep.violation(sig, rp, "sort: not an ordered permutation at log line %d" % line)


def run(rep, tier, seed):
    core.build("rel")
    d = core.rundir("C20")
    tables(rep, d, tier, seed)
    props(rep, d, tier, seed)
    sorting(rep, d, tier, seed)
    rep.assumptions += [
        "TLC evaluates Containers.tla / Props.tla / Sort.tla correctly",
        "the harness projection (iteration content, get/has over the key universe, typed "
        "property values) reports what the public API returned",
        "home slots are measured with gdstk's own inline hash(), so collisions in the model are "
        "collisions in the real tables",
    ]
    return rep.finish(
        rule="one replayed history per TRANSITION of the VIEW-reduced TLC state graph of "
             "Containers.tla (4 table kinds, colliding/wrapping keys, growth 8->16) and of "
             "Props.tla, plus seeded long random histories (growth to 64) and TLC-enumerated "
             "sort cases; distinct_nontrivial counts distinct generated histories/cases")
