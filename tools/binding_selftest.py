#!/usr/bin/env python3
"""Binding self-test: show that every trace module constrains the fields the harness logs.

For every implementation log validated by the last run of a check (build/run/<ID>/*.validation.json
is written by vlib/core.validate) a few recorded executions are taken, each is first re-validated
unchanged (control: must be accepted) and then once per chosen field with that ONE recorded field
corrupted (integer + 1 / boolean flipped / list shortened by one element); the trace module must reject
the corrupted copy (a REJECT line, or a TLC evaluation error because the record no longer fits).
Fields of the generated case (the input the harness was given) are not touched.

usage: binding_selftest.py [ID ...]      -> writes seeded/BINDING.md and prints a summary
Run it after the quick tiers (it reads their run directories; it does not touch /repo)."""
import concurrent.futures as cf
import copy, glob, json, os, random, re, subprocess, sys, shutil

VERIF = os.path.dirname(os.path.dirname(os.path.abspath(__file__)))
sys.path.insert(0, VERIF)
from vlib import core

INPUT_KEYS = {"g", "e", "i", "id", "case", "opts", "pre", "k", "kind", "name", "op"}
PER_EXEC = 6
EXECS = 3


def leaves(o, path=()):
    if isinstance(o, dict):
        for k, v in o.items():
            if not path and k in INPUT_KEYS:
                continue
            yield from leaves(v, path + (k,))
    elif isinstance(o, list):
        if o and all(not isinstance(x, (dict, list)) for x in o):
            yield path, "list"
        for i, v in enumerate(o[:4]):
            yield from leaves(v, path + (i,))
    elif isinstance(o, bool):
        yield path, "bool"
    elif isinstance(o, int):
        yield path, "int"


def corrupt(o, path, kind):
    o = copy.deepcopy(o)
    cur = o
    for k in path[:-1]:
        cur = cur[k]
    k = path[-1]
    if kind == "bool":
        cur[k] = not cur[k]
    elif kind == "int":
        cur[k] = cur[k] + 1
    else:
        cur[k] = cur[k][:-1]
    return o


def executions(lines, boundary):
    if boundary is None:
        return [[l] for l in lines]
    out, cur = [], []
    for l in lines:
        if l.startswith(boundary) and cur:
            out.append(cur)
            cur = []
        cur.append(l)
    if cur:
        out.append(cur)
    return out


def run_one(meta, d, n, lines):
    tr = os.path.join(d, "t%04d.ndjson" % n)
    with open(tr, "w") as f:
        f.writelines(lines)
    env = dict(meta.get("env") or {})
    env["TRACE"] = tr
    cfg = "Selftest_" + meta["cfg"]
    try:
        r = core.tlc(meta["module"], cfg, d, workers=1, env=env, heap="2g", tag="st%d" % n, timeout=600)
    except core.Infra as e:
        return "error"
    if r.rejects:
        return "reject"
    if r.distinct != len(lines) + 1:
        return "error"
    return "accept"


def selftest(vpath, rng):
    meta = json.load(open(vpath))
    obs = vpath[:-len(".validation.json")]
    lines = [l for l in open(obs) if l.strip()]
    ex = executions(lines, meta.get("boundary"))
    if not ex:
        return None
    cand = sorted(set([0, len(ex) // 3, (2 * len(ex)) // 3, len(ex) - 1, len(ex) // 5, len(ex) // 2,
                       (4 * len(ex)) // 5, (len(ex) * 7) // 8]))
    d = os.path.join(core.BUILD, "run", "selftest_" + os.path.basename(os.path.dirname(obs)) + "_" + meta["module"])
    shutil.rmtree(d, ignore_errors=True)
    os.makedirs(d)
    for f in os.listdir(core.SPEC):
        if f.endswith(".tla"):
            shutil.copy(os.path.join(core.SPEC, f), d)
    with open(os.path.join(d, "Selftest_" + meta["cfg"]), "w") as f:
        f.write(meta["cfg_text"])
    # controls: recorded executions that the trace module accepts unchanged (an execution that is one
    # of the check's known findings is rejected here exactly as in the check's own run: it is skipped
    # and counted)
    with cf.ThreadPoolExecutor(max_workers=8) as pool:
        cres = list(pool.map(lambda a: run_one(meta, d, 9000 + a[0], ex[a[1]]), enumerate(cand)))
    picks = [c for c, r in zip(cand, cres) if r == "accept"][:EXECS + 1]
    skipped = sum(1 for r in cres if r != "accept")
    jobs = []       # (label, lines)
    for pi in picks:
        e = ex[pi]
        jobs.append((("control", pi, None), e))
        cands = []
        for li, l in enumerate(e):
            try:
                o = json.loads(l)
            except ValueError:
                continue
            for path, kind in leaves(o):
                cands.append((li, path, kind))
        rng.shuffle(cands)
        seen = set()
        chosen = []
        for c in cands:          # prefer distinct top-level fields
            top = (c[1][0] if c[1] else None)
            if top in seen:
                continue
            seen.add(top)
            chosen.append(c)
            if len(chosen) >= PER_EXEC:
                break
        for li, path, kind in chosen:
            o = corrupt(json.loads(e[li]), path, kind)
            e2 = list(e)
            e2[li] = json.dumps(o) + "\n"
            jobs.append((("corrupt", pi, ".".join(map(str, path)) + ":" + kind), e2))
    with cf.ThreadPoolExecutor(max_workers=12) as pool:
        res = list(pool.map(lambda a: run_one(meta, d, a[0], a[1][1]), enumerate(jobs)))
    shutil.rmtree(d, ignore_errors=True)
    out = dict(log=os.path.relpath(obs, core.BUILD), module=meta["module"], executions=len(ex), skipped=skipped,
               controls=0, controls_accepted=0, corrupted=0, rejected=0, errors=0, accepted_fields=[])
    for (label, r) in zip(jobs, res):
        kind, pi, what = label[0]
        if kind == "control":
            out["controls"] += 1
            out["controls_accepted"] += (r == "accept")
        else:
            out["corrupted"] += 1
            if r == "reject":
                out["rejected"] += 1
            elif r == "error":
                out["errors"] += 1
            else:
                out["accepted_fields"].append(what)
    return out


def main():
    ids = sys.argv[1:]
    rng = random.Random(7)
    paths = sorted(glob.glob(os.path.join(core.BUILD, "run", "*", "*.validation.json")))
    rows = []
    for vp in paths:
        rid = os.path.basename(os.path.dirname(vp))
        if rid.endswith("_replay") or rid.startswith("selftest"):
            continue
        if ids and rid not in ids:
            continue
        r = selftest(vp, rng)
        if r and r["controls"] == 0:
            print(rid, "no accepted control execution", flush=True)
            r = None
        if r:
            r["run"] = rid
            rows.append(r)
            print(rid, r["module"], "controls %d/%d accepted; corrupted %d: %d rejected, %d evaluation errors, %d accepted %s"
                  % (r["controls_accepted"], r["controls"], r["corrupted"], r["rejected"], r["errors"],
                     len(r["accepted_fields"]), r["accepted_fields"][:6]), flush=True)
    with open(os.path.join(VERIF, "seeded", "BINDING.md"), "w") as f:
        f.write("# Binding self-test of the trace modules\n\n"
                "Generated by tools/binding_selftest.py from the logs of the last quick run of each check.\n"
                "control = a recorded execution re-validated unchanged (must be accepted); corrupted = the same\n"
                "execution with ONE recorded field changed (integer + 1, boolean flipped, list shortened);\n"
                "'still accepted' lists the fields whose change the trace module tolerated (measured values\n"
                "inside their bound, counters that are only reported, and the like).  Candidate executions that\n"
                "the trace module rejects unchanged are the check's known findings (rejected in the check's own\n"
                "run too); they are not used as controls (column 'controls accepted' counts the ones used).\n\n"
                "| run | trace module | log | controls accepted | corrupted | rejected | evaluation error | still accepted |\n"
                "|---|---|---|---|---|---|---|---|\n")
        f.write("")
        for r in rows:
            f.write("| %s | %s | %s | %d/%d | %d | %d | %d | %s |\n" % (
                r["run"], r["module"], r["log"], r["controls_accepted"], r["controls"], r["corrupted"],
                r["rejected"], r["errors"], ", ".join(r["accepted_fields"]) or "-"))
    bad = [r for r in rows if r["controls_accepted"] != r["controls"] or (r["corrupted"] and r["rejected"] + r["errors"] == 0)]
    print("%d logs; %d with a rejected control or no binding field" % (len(rows), len(bad)))
    return 1 if bad else 0


if __name__ == "__main__":
    sys.exit(main())
