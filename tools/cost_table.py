#!/usr/bin/env python3
"""Rewrite the cost table of DESIGN.md (between the COST markers) from two summary files whose lines
look like `C01 rc=0 secs=39 C01 quick: 0 violation(s), ..., states=1398 events=463 wall=38s`
(one file per tier; later lines for the same property win).

usage: cost_table.py <quick-summary> <thorough-summary> [<more thorough summaries> ...]"""
import re, sys

def parse(paths):
    out = {}
    for p in paths:
        for l in open(p):
            m = re.match(r"(C\d\d) rc=(\d+) secs=(\d+) .*states=(\d+) events=(\d+)", l)
            if m and m.group(2) == "0":
                out[m.group(1)] = (int(m.group(3)), int(m.group(4)), int(m.group(5)))
    return out

def main():
    q = parse(sys.argv[1:2])
    t = parse(sys.argv[2:])
    rows = ["| property | quick: seconds / TLC states / implementation events | thorough: seconds / states / events |",
            "|---|---|---|"]
    for i in range(1, 21):
        pid = "C%02d" % i
        f = lambda d: "%d / %d / %d" % d[pid] if pid in d else "-"
        rows.append("| %s | %s | %s |" % (pid, f(q), f(t)))
    p = "/verif/DESIGN.md"
    s = open(p).read()
    a = s.index("<!-- COST-BEGIN -->") + len("<!-- COST-BEGIN -->\n")
    b = s.index("<!-- COST-END -->")
    open(p, "w").write(s[:a] + "\n".join(rows) + "\n" + s[b:])

main()
