#!/usr/bin/env python3
"""Confirm a seeded change delivered by a sub-agent and run our checks against it.

usage: seed_confirm.py <seed-name> <property> [check-id ...]
   <seed-name>  directory /tmp/wt/<seed-name> (a git worktree of /repo with _seed/ and _b/)

Steps (all in the scratch worktree, never in /repo, except step 4 which applies and reverts):
  1. the worktree diff equals _seed/patch.diff; build _b (examples) and run ctest  -> 18/18
  2. demo.cpp built against the changed library exits 1
  3. revert the change in the worktree, rebuild, demo exits 0
  4. apply patch to /repo, run ./check <id> --tier quick for the listed ids, revert /repo
  5. store /verif/seeded/<seed-name>/{patch.diff,demo.cpp,notes.md,meta.json}
"""
import json, os, subprocess, sys, shutil, time

# where the checks run and which gdstk tree they build: overridable so that a confirmation can run
# next to another job (copy of /verif, separate worktree of /repo)
VERIF = os.environ.get("SEED_VERIF", "/verif")
REPO = os.environ.get("SEED_REPO", "/repo")

def sh(cmd, **kw):
    return subprocess.run(cmd, shell=True, text=True, capture_output=True, **kw)

def main():
    name, prop, checks = sys.argv[1], sys.argv[2], sys.argv[3:] or [sys.argv[2]]
    wt = f"/tmp/wt/{name}"
    seed = f"{wt}/_seed"
    meta = {"property": prop, "seed": name, "confirmed": {}, "checks": {}}
    patch = open(f"{seed}/patch.diff").read()
    # make sure the worktree is in the "applied" state
    r = sh(f"git -C {wt} diff -- src include external")
    if r.stdout.strip() != patch.strip():
        sh(f"git -C {wt} checkout -- src include external")
        a = sh(f"git -C {wt} apply {seed}/patch.diff")
        assert a.returncode == 0, a.stderr
    if not os.path.isdir(f"{wt}/_b"):
        sh(f"cmake -G Ninja -S {wt} -B {wt}/_b -DCMAKE_BUILD_TYPE=RelWithDebInfo")
    def build_and_demo(tag):
        b = sh(f"ninja -C {wt}/_b examples")
        assert b.returncode == 0, b.stdout[-2000:]
        d = sh(f"g++ -std=c++17 -I{wt}/include -I{wt}/external {seed}/demo.cpp {wt}/_b/src/libgdstk.a "
               f"{wt}/_b/external/libclipper.a -lqhull_r -lz -o {wt}/_b/demo_{tag}")
        assert d.returncode == 0, d.stderr[-2000:]
        try:
            x = subprocess.run([f"{wt}/_b/demo_{tag}"], text=True, capture_output=True, timeout=120, cwd=f"{wt}/_b")
            return x.returncode, (x.stdout + x.stderr)[-600:]
        except subprocess.TimeoutExpired:
            return "timeout", ""
    rc1, out1 = build_and_demo("with")
    t = sh(f"ctest --test-dir {wt}/_b -j1 --timeout 900 | tail -3")
    meta["confirmed"]["ctest_with_change"] = t.stdout.strip().splitlines()[-3:] if t.stdout else t.stderr
    meta["confirmed"]["demo_exit_with_change"] = rc1
    meta["confirmed"]["demo_output_with_change"] = out1
    sh(f"git -C {wt} checkout -- src include external")
    rc0, out0 = build_and_demo("without")
    meta["confirmed"]["demo_exit_without_change"] = rc0
    a = sh(f"git -C {wt} apply {seed}/patch.diff"); assert a.returncode == 0
    ok = ("100% tests passed" in t.stdout) and rc1 not in (0,) and rc0 == 0
    meta["confirmed"]["ok"] = ok
    print("confirm:", json.dumps(meta["confirmed"], indent=1))
    # run our checks against it
    st = sh(f"git -C {REPO} status --porcelain -- src include external")
    assert st.stdout.strip() == "", "/repo not clean: " + st.stdout
    a = sh(f"git -C {REPO} apply {seed}/patch.diff"); assert a.returncode == 0, a.stderr
    try:
        for c in checks:
            t0 = time.time()
            r = sh(f"cd {VERIF} && VERIF_REPO={REPO} VERIF_EVIDENCE_DIR=/tmp/seed_evidence ./check {c} --tier quick", timeout=3000)
            lines = [l for l in r.stdout.splitlines() if l.startswith(("VIOLATION", "KNOWN-FINDING"))]
            meta["checks"][c] = {"exit": r.returncode, "seconds": round(time.time() - t0),
                                 "lines": lines[:5], "tail": r.stdout.strip().splitlines()[-3:]}
            print("check", c, json.dumps(meta["checks"][c], indent=1))
    finally:
        sh(f"git -C {REPO} checkout -- src include external")
        sh(f"make -C {VERIF}/harness -j16 FLAVOR=rel REPO={REPO} >/dev/null 2>&1")
    dst = f"/verif/seeded/{name}"
    os.makedirs(dst, exist_ok=True)
    for f in ("patch.diff", "demo.cpp", "notes.md"):
        shutil.copy(f"{seed}/{f}", dst)
    meta["what_it_needs"] = "see notes.md"
    meta["ran"] = ["ninja examples && ctest (scratch worktree, change applied)", "demo with / without change",
                   "git -C /repo apply patch.diff; ./check <id> --tier quick; git -C /repo checkout -- ."]
    json.dump(meta, open(f"{dst}/meta.json", "w"), indent=1)

main()
